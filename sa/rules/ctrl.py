"""Engine CTRL - control-variable protocol at the synthesis sites (DESIGN 5.4).

The gadgets (assignment blocks, unified head, exiting latch, exit branch) are
born in two functions; the rules read them through def-use chains."""
from __future__ import annotations

import ast
from typing import Dict, List, Optional, Set, Tuple

from .. import astutil as A
from ..model import AnalysisError, FunctionInfo
from ..report import Ob, bad, ok, unresolved
from . import rule
from .common import kw, method_calls, prog_is_sub
from .store import _assign_parts


def _helper(ctx) -> FunctionInfo:
    f = ctx.prog.find_function("loop_restructure_helper")
    if f is None:
        raise AnalysisError("loop_restructure_helper not found")
    return f


def _ibcb(ctx) -> FunctionInfo:
    f = ctx.prog.cls("SCFG").find_method("insert_block_and_control_blocks")
    if f is None:
        raise AnalysisError("SCFG.insert_block_and_control_blocks not found")
    return f


def _ctors(ctx, fn: FunctionInfo, base: str) -> List[Tuple[ast.Call, str]]:
    """constructor calls in fn of classes derived from `base` -> (call, class name)"""
    is_sub = prog_is_sub(ctx.prog)
    out = []
    for c in A.walk_no_nested(fn.node):
        if isinstance(c, ast.Call):
            d = (A.dotted(c.func) or "").split(".")[-1]
            if d in ctx.prog.classes and is_sub(d, base):
                out.append((c, d))
    return out


def _defs_values(ctx, fn, use: ast.AST, name: str) -> List[Tuple[object, ast.AST]]:
    """[(cfg node, value expr)] for the reaching definitions of name at use"""
    cfg = ctx.cfg(fn)
    out = []
    for d in cfg.reaching_defs(use, name):
        if d.stmt is None:
            out.append((d, None))
            continue
        ap = _assign_parts(d.stmt)
        out.append((d, ap[1] if ap else None))
    return out


def _guard_conditions(fn_node: ast.AST, node: ast.AST, ifexp: bool = False) -> List[Tuple[str, bool]]:
    """[(test text, polarity)] of the conditions under which node runs, innermost first: the
    if-statements enclosing it, and the guard clauses before it in the same statement list
    (`if T: return / raise / continue / break` contributes (T, False) to everything behind it, exactly
    as the `else` of that if-statement would)"""
    out = []

    def add(test: ast.AST, pol: bool) -> None:
        # `not X` holding is X failing: one spelling, so that guards of a definition and of a use compare equal
        while isinstance(test, ast.UnaryOp) and isinstance(test.op, ast.Not):
            test, pol = test.operand, not pol
        out.append((A.unparse(test), pol))

    child = node
    for anc in A.ancestors(node):
        for fld in ("body", "orelse", "finalbody"):
            seq = getattr(anc, fld, None)
            if isinstance(seq, list) and child in seq:
                for prev in reversed(seq[: seq.index(child)]):
                    if isinstance(prev, ast.If) and not prev.orelse and A.always_leaves(prev.body):
                        add(prev.test, False)
        if isinstance(anc, ast.If):
            if child in anc.body:
                add(anc.test, True)
            elif child in anc.orelse:
                add(anc.test, False)
        elif ifexp and isinstance(anc, ast.IfExp):
            if child is anc.body:
                add(anc.test, True)
            elif child is anc.orelse:
                add(anc.test, False)
        if anc is fn_node:
            break
        child = anc
    return out


# ---------------------------------------------------------- symbolic elements


def _elements(ctx, fn, e: ast.AST, use: ast.AST, assume: Dict[str, bool], depth: int = 0):
    """abstract multiset of the *elements* (values for a table) of a sequence / table
    expression: frozenset of texts; ('all', seqtext) stands for every element of
    an opaque sequence; ('subset', seqtext) for some elements of it."""
    if depth > 6:
        return None
    if isinstance(e, (ast.Tuple, ast.List)):
        out = set()
        for x in e.elts:
            v = _scalar(ctx, fn, x, use, assume)
            if v is None:
                return None
            out.add(v)
        return frozenset(out)
    if isinstance(e, ast.Call) and isinstance(e.func, ast.Name) and e.func.id in ("tuple", "list", "enumerate", "dict") and e.args:
        return _elements(ctx, fn, e.args[0], use, assume, depth + 1)
    if isinstance(e, ast.DictComp) and len(e.generators) == 1:
        g = e.generators[0]
        # {i: j for i, j in enumerate(SEQ)}
        if isinstance(g.iter, ast.Call) and isinstance(g.iter.func, ast.Name) and g.iter.func.id == "enumerate" and isinstance(g.target, ast.Tuple) and len(g.target.elts) == 2:
            if A.unparse(e.value) == A.unparse(g.target.elts[1]) and A.unparse(e.key) == A.unparse(g.target.elts[0]) and not g.ifs:
                return _elements(ctx, fn, g.iter.args[0], use, assume, depth + 1)
        return None
    if isinstance(e, ast.IfExp):
        t = A.unparse(e.test)
        if t in assume:
            return _elements(ctx, fn, e.body if assume[t] else e.orelse, use, assume, depth + 1)
        return None
    if isinstance(e, ast.Subscript) and isinstance(e.slice, ast.Slice):
        inner = _elements(ctx, fn, e.value, use, assume, depth + 1)
        if inner is None:
            return None
        return frozenset({("subset", A.unparse(e))})
    if isinstance(e, ast.Dict):
        out = set()
        for v in e.values:
            s = _scalar(ctx, fn, v, use, assume)
            if s is None:
                return None
            out.add(s)
        return frozenset(out)
    if isinstance(e, ast.Name):
        defs = _defs_values(ctx, fn, use, e.id)
        real = [(d, v) for d, v in defs if d.stmt is not None]
        if not real:
            return frozenset({("all", e.id)})  # parameter: opaque sequence
        outs = []
        for d, v in real:
            # only definitions compatible with the assumption
            conds = _guard_conditions(fn.node, d.stmt)
            if any(t in assume and assume[t] != pol for t, pol in conds):
                continue
            if v is None:
                return None
            if isinstance(v, ast.Dict) and not v.keys:
                # an empty table filled by `for i, j in enumerate(S): T[i] = j`
                fills = [f_ for f_ in _enumerate_fill(fn, e.id) if not any(t in assume and assume[t] != pol for t, pol in _guard_conditions(fn.node, A.enclosing_stmt(f_) or f_))]
                if len(fills) == 1:
                    r = _elements(ctx, fn, fills[0], use, assume, depth + 1)
                    if r is None:
                        return None
                    outs.append(r)
                    continue
            if isinstance(v, ast.Call) and not (isinstance(v.func, ast.Name) and v.func.id in ("tuple", "list", "enumerate", "dict")):
                outs.append(frozenset({("all", e.id)}))
                continue
            if isinstance(d.stmt, ast.Assign) and isinstance(d.stmt.targets[0], ast.Tuple):
                outs.append(frozenset({("all", e.id)}))
                continue
            r = _elements(ctx, fn, v, d.stmt, assume, depth + 1)
            if r is None:
                return None
            outs.append(r)
        if not outs:
            return None
        if len(set(outs)) == 1:
            return outs[0]
        return None
    if isinstance(e, ast.Attribute):
        return frozenset({("all", A.unparse(e))})
    return None


def _enumerate_fill(fn, table: str) -> List[ast.AST]:
    """sequences S such that `for i, j in enumerate(S): table[i] = j` fills the table"""
    out = []
    for lp in A.walk_no_nested(fn.node):
        if isinstance(lp, ast.For) and isinstance(lp.iter, ast.Call) and isinstance(lp.iter.func, ast.Name) and lp.iter.func.id == "enumerate" and lp.iter.args and isinstance(lp.target, ast.Tuple) and len(lp.target.elts) == 2:
            i_, j_ = [A.unparse(x) for x in lp.target.elts]
            for st in lp.body:
                if isinstance(st, ast.Assign) and len(st.targets) == 1 and isinstance(st.targets[0], ast.Subscript) and A.unparse(st.targets[0].value) == table and A.unparse(st.targets[0].slice) == i_ and A.unparse(st.value) == j_ and len(lp.body) == 1:
                    out.append(lp.iter.args[0])
    return out


def _scalar(ctx, fn, e: ast.AST, use: ast.AST, assume: Dict[str, bool]) -> Optional[str]:
    """canonical text of a scalar name-valued expression under the assumption"""
    if isinstance(e, ast.IfExp):
        t = A.unparse(e.test)
        if t in assume:
            return _scalar(ctx, fn, e.body if assume[t] else e.orelse, use, assume)
        return None
    if isinstance(e, ast.Name):
        # a local that names one of the targets (`exit_target = synth_exit if needs_synth_exit else next(iter(exit_blocks))`,
        # or the same as an if-statement): read through when exactly one of its definitions is consistent with the assumption
        dv = _defs_values(ctx, fn, use, e.id)
        if dv and all(d.stmt is not None and v is not None for d, v in dv):
            live = []
            decided = True
            for d, v in dv:
                gs = _guard_conditions(fn.node, d.stmt)
                if any(t not in assume for t, _p in gs):
                    decided = False
                    break
                if all(assume[t] == p for t, p in gs):
                    live.append(v)
            if decided and len(live) == 1:
                v = live[0]
                simple = isinstance(v, (ast.Name, ast.IfExp)) or (isinstance(v, ast.Call) and A.unparse(v).startswith("next(iter("))
                if simple and not (isinstance(v, ast.Name) and v.id == e.id):
                    return _scalar(ctx, fn, v, use, assume)
    return A.unparse(e)


def _atoms(e: ast.AST) -> Set[str]:
    out = set()
    for n in ast.walk(e):
        if isinstance(n, ast.IfExp):
            out.add(A.unparse(n.test))
    return out


def _assumptions(ctx, fn, exprs: List[ast.AST], use: ast.AST) -> List[Dict[str, bool]]:
    atoms: Set[str] = set()
    for e in exprs:
        atoms |= _atoms(e)
        for n in ast.walk(e):
            if isinstance(n, ast.Name):
                for d, v in _defs_values(ctx, fn, use, n.id):
                    if d.stmt is not None:
                        for t, _p in _guard_conditions(fn.node, d.stmt):
                            atoms.add(t)
                        if v is not None:
                            atoms |= _atoms(v)
    # conditions that hold at the use itself are not enumerated: they are facts
    fixed = {}
    for t, pol in _guard_conditions(fn.node, use):
        fixed.setdefault(t, pol)
    atoms = sorted(a for a in atoms if a not in fixed)[:4]
    outs = [dict(fixed)]
    for a in atoms:
        outs = [dict(o, **{a: b}) for o in outs for b in (True, False)]
    return outs


@rule("CTRL-1", 3, "where a branching block is built its value table names exactly its successors, and it has a control variable")
def ctrl1(ctx) -> List[Ob]:
    out: List[Ob] = []
    for fn in (_helper(ctx), _ibcb(ctx)):
        for c, cname in _ctors(ctx, fn, "SyntheticBranch"):
            key = f"{cname}(...)"
            where = ctx.where(fn, c)
            var, tbl, jts = kw(c, "variable"), kw(c, "branch_value_table"), kw(c, "_jump_targets")
            if var is None or tbl is None or jts is None:
                out.append(bad("CTRL-1", fn.qualname, key, where, f"{cname} built without variable= / branch_value_table= / _jump_targets="))
                continue
            if isinstance(var, ast.Constant):
                out.append(bad("CTRL-1", fn.qualname, key, where, f"{cname} built with a constant control variable {A.unparse(var)}"))
                continue
            # a table filled by subscript stores in a loop: values drawn from `X & successors`
            filled = None
            if isinstance(tbl, ast.Name):
                defs = [v for _d, v in _defs_values(ctx, fn, c, tbl.id)]
                if defs and all(isinstance(v, ast.Dict) and not v.keys for v in defs):
                    stores = [s for s in A.walk_no_nested(fn.node) if isinstance(s, ast.Assign) and any(isinstance(t, ast.Subscript) and A.unparse(t.value) == tbl.id for t in s.targets)]
                    filled = stores
            if filled is not None:
                jt_el = _elements(ctx, fn, jts, c, {})
                good = bool(filled)
                why = []
                for s in filled:
                    v = s.value
                    src = None
                    if isinstance(v, ast.Name):
                        for d, dv in _defs_values(ctx, fn, s, v.id):
                            if d.kind == "for":
                                src = A.unparse(d.stmt.iter)
                    if src is None or jt_el is None or not all(isinstance(x, tuple) and x[0] == "all" and x[1] in src for x in jt_el):
                        good = False
                        why.append(f"{A.unparse(s)} stores a value not drawn from the successors ({src})")
                    else:
                        why.append(f"values drawn from {src} (a subset of {sorted(x[1] for x in jt_el)})")
                if good:
                    out.append(ok("CTRL-1", fn.qualname, key, where, f"{cname}: every table value is drawn from the successor sequence; coverage of all successors is CTRL-8's matching-pair obligation", why))
                else:
                    out.append(bad("CTRL-1", fn.qualname, key, where, f"{cname}: the value table can name a block that is not a successor", why))
                continue
            problems = []
            n_cases = 0
            for assume in _assumptions(ctx, fn, [tbl, jts], c):
                te = _elements(ctx, fn, tbl, c, assume)
                je = _elements(ctx, fn, jts, c, assume)
                if te is None and je is None:
                    continue  # infeasible combination of definitions
                n_cases += 1
                if te is None or je is None:
                    problems.append(("unresolved", f"under {assume}: cannot evaluate {'table' if te is None else 'targets'}"))
                elif te != je:
                    problems.append(("violation", f"under {assume or 'all conditions'}: table values {sorted(map(str, te))} != successors {sorted(map(str, je))}"))
            viol = [p for k, p in problems if k == "violation"]
            unres = [p for k, p in problems if k == "unresolved"]
            if viol:
                out.append(bad("CTRL-1", fn.qualname, key, where, f"{cname}: value table and successors disagree: {viol[0]}", viol))
            elif unres or n_cases == 0:
                out.append(unresolved("CTRL-1", fn.qualname, key, where, f"{cname}: {unres[0] if unres else 'no evaluable case'}"))
            else:
                out.append(ok("CTRL-1", fn.qualname, key, where, f"{cname}: table values == successors in all {n_cases} condition case(s)"))
    return out


# ------------------------------------------------------------------ gadget model


class Gadget:
    """what loop_restructure_helper builds, read from its constructor sites"""

    def __init__(self, ctx) -> None:
        global _RL_CTX
        self.ctx = ctx
        self.fn = fn = _helper(ctx)
        _RL_CTX = (ctx, fn)
        br = _ctors(ctx, fn, "SyntheticBranch")
        self.latch = next((c for c, n in br if n == "SyntheticExitingLatch"), None)
        self.exitb = next((c for c, n in br if n == "SyntheticExitBranch"), None)
        if self.latch is None or self.exitb is None:
            raise AnalysisError("latch / exit branch constructor not found in loop_restructure_helper")
        self.assigns = [c for c, n in _ctors(ctx, fn, "SyntheticAssignment")]
        self.latch_var = A.unparse(kw(self.latch, "variable"))
        self.latch_tbl = A.unparse(kw(self.latch, "branch_value_table"))
        self.latch_name = A.unparse(kw(self.latch, "name"))
        self.exit_var = A.unparse(kw(self.exitb, "variable"))
        self.exit_tbl = A.unparse(kw(self.exitb, "branch_value_table"))
        self.exit_name = A.unparse(kw(self.exitb, "name"))
        be = kw(self.latch, "backedges")
        jt = kw(self.latch, "_jump_targets")
        self.latch_back = A.unparse(be.elts[0]) if isinstance(be, ast.Tuple) and len(be.elts) == 1 else None
        self.latch_targets = [A.unparse(x) for x in jt.elts] if isinstance(jt, ast.Tuple) else []
        self.latch_exit = next((t for t in self.latch_targets if t != self.latch_back), None)
        # condition under which the exit branch exists
        conds = _guard_conditions(fn.node, self.exitb)
        self.exit_cond = conds[0][0] if conds and conds[0][1] else None
        # looked-up head: names defined from `<x>.variable` / `<x>.branch_value_table`
        self.head_vars: Set[str] = set()
        self.head_tbls: Set[str] = set()
        self.head_cond: Optional[str] = None
        for s in A.walk_no_nested(fn.node):
            ap = _assign_parts(s)
            if ap and isinstance(ap[1], ast.Attribute) and isinstance(ap[0][0], ast.Name):
                if ap[1].attr == "variable":
                    self.head_vars.add(ap[0][0].id)
                    g = _guard_conditions(fn.node, s)
                    if g and g[0][1]:
                        self.head_cond = g[0][0]
                if ap[1].attr == "branch_value_table":
                    self.head_tbls.add(ap[0][0].id)

    def stores_for(self, actor: ast.Call) -> List[Tuple[ast.AST, str, ast.AST]]:
        """entries `V: e` of the assignment table of the block built by actor (see _va_entries)"""
        return _va_entries(self.ctx, self.fn, actor)

    def arc_kind(self, actor: ast.Call) -> Optional[str]:
        """'exit' / 'header': from the table the second-level value is looked up in,
        else from the membership test that guards the assignment block"""
        for _s, _v, e in self.stores_for(actor):
            rl = _rl(e)
            if rl is not None and rl[0] == self.exit_tbl:
                return "exit"
            if rl is not None and rl[0] in self.head_tbls:
                return "header"
        for t, pol in _guard_conditions(self.fn.node, actor):
            if not pol:
                continue
            seq = None
            try:
                tt = ast.parse(t, mode="eval").body
            except SyntaxError:
                continue
            conj = tt.values if isinstance(tt, ast.BoolOp) else [tt]
            for cj in conj:
                if isinstance(cj, ast.Compare) and len(cj.ops) == 1 and isinstance(cj.ops[0], ast.In):
                    seq = A.unparse(cj.comparators[0])
                    if seq in self.exit_seq():
                        return "exit"
                    if seq in self.header_seq():
                        return "header"
        return None

    def header_seq(self) -> Set[str]:
        """names bound to the headers of the loop (first result of find_headers_and_entries)"""
        out = set()
        for s_ in A.walk_no_nested(self.fn.node):
            ap = _assign_parts(s_) if isinstance(s_, (ast.Assign, ast.AnnAssign)) else None
            if ap and isinstance(ap[0][0], ast.Tuple) and isinstance(ap[1], ast.Call) and isinstance(ap[1].func, ast.Attribute) and ap[1].func.attr == "find_headers_and_entries":
                out.add(A.unparse(ap[0][0].elts[0]))
        return out or {"headers"}

    def exit_seq(self) -> Set[str]:
        """names of the sequence the exit table enumerates"""
        out = set()
        for d, v in _defs_values(self.ctx, self.fn, self.exitb, self.exit_tbl):
            if v is not None:
                for n in ast.walk(v):
                    if isinstance(n, ast.Call) and isinstance(n.func, ast.Name) and n.func.id == "enumerate" and n.args:
                        out.add(A.unparse(n.args[0]))
        for seq_ in _enumerate_fill(self.fn, self.exit_tbl):
            out.add(A.unparse(seq_))
        return out


def _va_entries(ctx, fn, actor: ast.Call) -> List[Tuple[ast.AST, str, ast.AST]]:
    """[(statement, variable text, value expression)] of the `variable_assignment=` of an assignment-block
    constructor, in either spelling: a dict display (`variable_assignment={V: e}`, or a local initialised
    with one) or subscript stores `va[V] = e` between the definition of the local and the constructor"""
    va = kw(actor, "variable_assignment")
    out: List[Tuple[ast.AST, str, ast.AST]] = []
    if isinstance(va, ast.Dict):
        st = A.enclosing_stmt(actor) or actor
        for k_, v_ in zip(va.keys, va.values):
            if k_ is not None:
                out.append((st, A.unparse(k_), v_))
        return out
    if not isinstance(va, ast.Name):
        return []
    cfg = ctx.cfg(fn)
    an = cfg.node_of(actor)
    dnodes = [d for d in cfg.reaching_defs(actor, va.id) if d.stmt is not None]
    for d in dnodes:
        ap = _assign_parts(d.stmt) if isinstance(d.stmt, (ast.Assign, ast.AnnAssign)) else None
        if ap and isinstance(ap[1], ast.Dict):
            for k_, v_ in zip(ap[1].keys, ap[1].values):
                if k_ is not None:
                    out.append((d.stmt, A.unparse(k_), v_))
    for s_ in A.walk_no_nested(fn.node):
        if isinstance(s_, ast.Assign) and len(s_.targets) == 1 and isinstance(s_.targets[0], ast.Subscript) and A.unparse(s_.targets[0].value) == va.id:
            sn = cfg.node_of(s_)
            if any(sn in cfg.reachable(d, avoid=lambda z, dd=dnodes: z in dd) for d in dnodes) and an in cfg.reachable(sn, avoid=lambda z, dd=dnodes: z in dd):
                out.append((s_, A.unparse(s_.targets[0].slice), s_.value))
    return out


def _va_assigned_on_all_paths(ctx, fn, actor: ast.Call, V: str) -> bool:
    """the table of the block built by actor has an entry for V on every path to the constructor"""
    va = kw(actor, "variable_assignment")
    entries = [(s_, v_) for s_, v_, _e in _va_entries(ctx, fn, actor) if v_ == V]
    if isinstance(va, ast.Dict):
        return bool(entries)
    if not isinstance(va, ast.Name):
        return False
    cfg = ctx.cfg(fn)
    an = cfg.node_of(actor)
    dnodes = [d for d in cfg.reaching_defs(actor, va.id) if d.stmt is not None]
    sn = {cfg.node_of(s_) for s_, _v in entries}
    return bool(dnodes) and all(d in sn or an not in cfg.reachable(d, avoid=lambda z: z in sn) for d in dnodes)


_RL_CTX = None  # set by Gadget.__init__: the program in which callee names are resolved by role


def _expand_target(fn, text: Optional[str], depth: int = 0) -> Optional[str]:
    """a local that merely names a target (`t = A if c else B`, also as the two arms of an if-statement; `t = u`)
    is written out, so that two spellings of the same target compare equal"""
    if text is None or depth > 3 or not text.isidentifier():
        return text
    asg = [s_ for s_ in A.walk_no_nested(fn.node) if isinstance(s_, ast.Assign) and len(s_.targets) == 1 and isinstance(s_.targets[0], ast.Name) and s_.targets[0].id == text]
    others = [n for n in A.walk_no_nested(fn.node) if isinstance(n, ast.Name) and n.id == text and isinstance(n.ctx, (ast.Store, ast.Del))]
    if len(others) != len(asg) or text in {p.arg for p in fn.params}:
        return text

    def simple(v):
        return isinstance(v, (ast.Name, ast.IfExp)) or (isinstance(v, ast.Call) and A.unparse(v).startswith("next(iter("))

    if len(asg) == 1 and simple(asg[0].value) and not any(isinstance(a, (ast.For, ast.While)) for a in A.ancestors(asg[0])):
        v = asg[0].value
        if isinstance(v, ast.IfExp):
            return f"{_expand_target(fn, A.unparse(v.body), depth + 1)} if {A.unparse(v.test)} else {_expand_target(fn, A.unparse(v.orelse), depth + 1)}"
        return _expand_target(fn, A.unparse(v), depth + 1)
    if len(asg) == 2:
        pa, pb = A.parent(asg[0]), A.parent(asg[1])
        if pa is pb and isinstance(pa, ast.If) and len(pa.body) == 1 and len(pa.orelse) == 1 and simple(asg[0].value) and simple(asg[1].value):
            x, y = (asg[0], asg[1]) if asg[0] in pa.body else (asg[1], asg[0])
            return f"{_expand_target(fn, A.unparse(x.value), depth + 1)} if {A.unparse(pa.test)} else {_expand_target(fn, A.unparse(y.value), depth + 1)}"
    return text


def _rl(e: ast.AST) -> Optional[Tuple[str, str]]:
    """(table text, value text) when e calls a reverse-lookup function (recognised by role, see
    common.as_reverse_lookup: a first-match scan of `table.items()` returning the key)"""
    if _RL_CTX is None:
        return None
    from .common import reverse_lookup_call, see_through

    ctx, fn = _RL_CTX
    if isinstance(e, ast.Name):
        # a looked-up value kept in a local (hoisted out of a loop): read through it
        e = see_through(ctx, fn, e) or e
    if not isinstance(e, ast.Call):
        return None
    # the lookup written out (or a dissolved helper): next((k for k, v in T.items() if v == x), default)
    if isinstance(e.func, ast.Name) and e.func.id == "next" and e.args and isinstance(e.args[0], ast.GeneratorExp) and len(e.args[0].generators) == 1:
        ge, g_ = e.args[0], e.args[0].generators[0]
        if isinstance(g_.iter, ast.Call) and isinstance(g_.iter.func, ast.Attribute) and g_.iter.func.attr == "items" and isinstance(g_.target, ast.Tuple) and len(g_.target.elts) == 2 and len(g_.ifs) == 1 and isinstance(g_.ifs[0], ast.Compare) and len(g_.ifs[0].ops) == 1 and isinstance(g_.ifs[0].ops[0], ast.Eq):
            kv_, vv_ = [A.unparse(x) for x in g_.target.elts]
            l_, r_ = g_.ifs[0].left, g_.ifs[0].comparators[0]
            if A.unparse(ge.elt) == kv_ and vv_ in (A.unparse(l_), A.unparse(r_)):
                other = r_ if A.unparse(l_) == vv_ else l_
                return A.unparse(g_.iter.func.value), A.unparse(other)
    r = reverse_lookup_call(ctx.prog, fn, e)
    if r is None or r[1] is None or r[2] is None:
        return None
    return A.unparse(r[1]), A.unparse(r[2])


@rule("CTRL-2", 4, "every control value is looked up in (or shares its key with) the table of the block that will read that variable")
def ctrl2(ctx) -> List[Ob]:
    out: List[Ob] = []
    g = Gadget(ctx)
    fn = g.fn
    owners_var: Dict[str, Set[str]] = {g.latch_var: {"latch"}, g.exit_var: {"exit-branch"}}
    for hv in g.head_vars:
        owners_var.setdefault(hv, set()).add("head")
    owners_tbl: Dict[str, Set[str]] = {g.latch_tbl: {"latch"}, g.exit_tbl: {"exit-branch"}}
    for ht in g.head_tbls:
        owners_tbl.setdefault(ht, set()).add("head")
    seen = set()
    for actor in g.assigns:
        for s, V, e in g.stores_for(actor):
            if (id(s), V) in seen:
                continue
            seen.add((id(s), V))
            is_store = isinstance(s, ast.Assign) and isinstance(s.targets[0], ast.Subscript)
            key = " ".join(A.unparse(s).split()) if is_store else f"variable_assignment[{V}] = " + " ".join(A.unparse(e).split())
            where = ctx.where(fn, s)
            rl = _rl(e)
            if V not in owners_var:
                out.append(bad("CTRL-2", fn.qualname, key, where, f"'{V}' is assigned but no branching block built or looked up here reads it"))
                continue
            if rl is None:
                out.append(bad("CTRL-2", fn.qualname, key, where, f"the value of {V} is not taken from a value table by reverse lookup ({A.unparse(e)[:40]})"))
                continue
            T, _x = rl
            ov, ot = owners_var[V], owners_tbl.get(T, set())
            if ov & ot:
                out.append(ok("CTRL-2", fn.qualname, key, where, f"{V} is read by the {'/'.join(sorted(ov))} and its value is looked up in that block's table {T}"))
            else:
                out.append(bad("CTRL-2", fn.qualname, key, where, f"{V} is read by the {'/'.join(sorted(ov))} but its value is looked up in {T}, the table of the {'/'.join(sorted(ot)) or 'no block'}: the value is out of range or selects the wrong target"))
    # insert_block_and_control_blocks: shared counter
    f2 = _ibcb(ctx)
    heads = _ctors(ctx, f2, "SyntheticBranch")
    if not heads:
        raise AnalysisError("no branching block constructed in insert_block_and_control_blocks")
    hc = heads[0][0]
    hv, ht = A.unparse(kw(hc, "variable")), A.unparse(kw(hc, "branch_value_table"))
    seen2 = set()
    for actor2, _n2 in _ctors(ctx, f2, "SyntheticAssignment"):
        for s, V, e in _va_entries(ctx, f2, actor2):
            if (id(s), V) in seen2:
                continue
            seen2.add((id(s), V))
            is_store = isinstance(s, ast.Assign) and isinstance(s.targets[0], ast.Subscript)
            key = A.alpha_key(s) if is_store else A.alpha_key(ast.parse(f"_va_[{V}] = {A.unparse(e)}").body[0])
            where = ctx.where(f2, s)
            val = A.unparse(e)
            tstores = [t for t in A.walk_no_nested(f2.node) if isinstance(t, ast.Assign) and isinstance(t.targets[0], ast.Subscript) and A.unparse(t.targets[0].value) == ht]
            if V != hv:
                out.append(bad("CTRL-2", f2.qualname, key, where, f"assigns {V}, but the head built here reads {hv}"))
            elif any(A.unparse(t.targets[0].slice) == val and _same_iteration(ctx, f2, s, t) for t in tstores):
                out.append(ok("CTRL-2", f2.qualname, key, where, f"value {val} is the key under which the head's table {ht} stores the arc's target in the same iteration"))
            else:
                out.append(bad("CTRL-2", f2.qualname, key, where, f"the value assigned to {V} ({val}) is not the key stored into the head's table {ht} in the same iteration"))
    return out


def _same_iteration(ctx, fn, a: ast.AST, b: ast.AST) -> bool:
    cfg = ctx.cfg(fn)
    na, nb = cfg.node_of(a), cfg.node_of(b)
    la, lb = cfg.loops_containing(na), cfg.loops_containing(nb)
    return bool(la) and la[:1] == lb[:1]


@rule("CTRL-3", 3, "every assignment block that leads to a branching block assigns that block's variable on every path")
def ctrl3(ctx) -> List[Ob]:
    out: List[Ob] = []
    g = Gadget(ctx)
    fn = g.fn
    cfg = ctx.cfg(fn)
    for actor in g.assigns:
        key = "assignment block " + (g.arc_kind(actor) or "?") + "-arc"
        where = ctx.where(fn, actor)
        jt = kw(actor, "_jump_targets")
        tgt = A.unparse(jt.elts[0]) if isinstance(jt, ast.Tuple) and len(jt.elts) == 1 else None
        if tgt != g.latch_name:
            out.append(bad("CTRL-3", fn.qualname, key, where, f"assignment block jumps to {tgt}, not to the exiting latch {g.latch_name}"))
            continue
        stores = g.stores_for(actor)

        def assigned_on_all_paths(V: str) -> bool:
            return _va_assigned_on_all_paths(ctx, fn, actor, V)

        def assigned_under(V: str, cond: Optional[str]) -> bool:
            for s, v, _e in stores:
                if v != V:
                    continue
                gs = _guard_conditions(fn.node, s)
                mine = _guard_conditions(fn.node, actor)
                extra = [x for x in gs if x not in mine]
                if not extra:
                    return True
                if cond is not None and all(pol and cond in _disjuncts(t) for t, pol in extra):
                    return True
            return False

        probs = []
        if not assigned_on_all_paths(g.latch_var):
            probs.append(f"the latch's variable {g.latch_var} is not assigned on every path to the block")
        kind = g.arc_kind(actor)
        if kind == "exit":
            if not assigned_under(g.exit_var, g.exit_cond):
                probs.append(f"the exit branch's variable {g.exit_var} is not assigned whenever the exit branch exists ({g.exit_cond})")
        elif kind == "header":
            if g.head_vars and not any(assigned_under(hv, g.head_cond) for hv in g.head_vars | {g.exit_var}):
                probs.append(f"the unified head's variable is not assigned whenever the head is a branching block ({g.head_cond})")
        else:
            out.append(unresolved("CTRL-3", fn.qualname, key, where, "cannot tell which kind of arc this assignment block serves"))
            continue
        if probs:
            out.append(bad("CTRL-3", fn.qualname, key, where, "; ".join(probs)))
        else:
            out.append(ok("CTRL-3", fn.qualname, key, where, f"{kind}-arc: latch variable assigned on every path; second-level variable assigned under the condition that creates its reader"))
    # head unification
    f2 = _ibcb(ctx)
    hc = _ctors(ctx, f2, "SyntheticBranch")[0][0]
    hv, hn = A.unparse(kw(hc, "variable")), A.unparse(kw(hc, "name"))
    for actor, _n in _ctors(ctx, f2, "SyntheticAssignment"):
        key = "assignment block entry-arc"
        where = ctx.where(f2, actor)
        jt = kw(actor, "_jump_targets")
        tgt = A.unparse(jt.elts[0]) if isinstance(jt, ast.Tuple) and len(jt.elts) == 1 else None
        okk = tgt == hn and _va_assigned_on_all_paths(ctx, f2, actor, hv)
        if okk:
            out.append(ok("CTRL-3", f2.qualname, key, where, f"jumps to the new head {hn} and assigns its variable {hv} on every path"))
        else:
            out.append(bad("CTRL-3", f2.qualname, key, where, f"assignment block on an entry arc does not (always) assign the head's variable {hv} or does not jump to the head {hn} (target {tgt})"))
    return out


def _disjuncts(t: str) -> Set[str]:
    try:
        e = ast.parse(t, mode="eval").body
    except SyntaxError:
        return {t}
    if isinstance(e, ast.BoolOp) and isinstance(e.op, ast.Or):
        return {A.unparse(v) for v in e.values}
    return {A.unparse(e)}


@rule("CTRL-4", 1, "each rerouted arc gets its own control value: the shared counter advances on every path after both uses")
def ctrl4(ctx) -> List[Ob]:
    out: List[Ob] = []
    f2 = _ibcb(ctx)
    cfg = ctx.cfg(f2)
    hc = _ctors(ctx, f2, "SyntheticBranch")[0][0]
    ht = A.unparse(kw(hc, "branch_value_table"))
    tstores = [t for t in A.walk_no_nested(f2.node) if isinstance(t, ast.Assign) and isinstance(t.targets[0], ast.Subscript) and A.unparse(t.targets[0].value) == ht]
    if not tstores:
        raise AnalysisError("no store into the head's value table found")
    for t in tstores:
        key = A.alpha_key(t)
        where = ctx.where(f2, t)
        k = t.targets[0].slice
        if not isinstance(k, ast.Name):
            out.append(unresolved("CTRL-4", f2.qualname, key, where, "table key is not a plain counter"))
            continue
        tn = cfg.node_of(t)
        loops = cfg.loops_containing(tn)
        if not loops:
            out.append(bad("CTRL-4", f2.qualname, key, where, "the table is filled outside a loop"))
            continue
        # the key is the current size of the table (`value = len(table); ..; table[value] = s`): with every key
        # handed out this way and nothing ever removed, the keys are 0, 1, 2, .. and never repeat
        size_defs = [d for d in cfg.reaching_defs(t, k.id) if d.stmt is not None]
        if size_defs and all(isinstance(d.stmt, ast.Assign) and A.unparse(d.stmt.value) == f"len({ht})" for d in size_defs):
            other_keys = [x for x in tstores if not (isinstance(x.targets[0].slice, ast.Name) and all(isinstance(d.stmt, ast.Assign) and A.unparse(d.stmt.value) == f"len({ht})" for d in cfg.reaching_defs(x, x.targets[0].slice.id) if d.stmt is not None))]
            removals = [c_ for c_ in A.walk_no_nested(f2.node) if isinstance(c_, ast.Call) and isinstance(c_.func, ast.Attribute) and c_.func.attr in ("pop", "popitem", "clear") and A.unparse(c_.func.value) == ht] + [d_ for d_ in A.walk_no_nested(f2.node) if isinstance(d_, ast.Delete) and any(isinstance(x, ast.Subscript) and A.unparse(x.value) == ht for x in d_.targets)]
            between = [z for d in size_defs for z in cfg.reachable(d) if z is not tn and z.stmt is not None and any(z.stmt is x for x in tstores) and tn in cfg.reachable(z) and z in cfg.reachable(d, avoid=lambda y: y is tn)]
            if not other_keys and not removals and not between:
                out.append(ok("CTRL-4", f2.qualname, key, where, f"{k.id} = len({ht}) right before the store: keys are the consecutive sizes of the table"))
                continue
        hdr = loops[0]

        def adv(z) -> bool:
            s = z.stmt
            if isinstance(s, ast.AugAssign) and isinstance(s.target, ast.Name) and s.target.id == k.id and isinstance(s.op, ast.Add):
                return True
            if isinstance(s, ast.Assign) and any(isinstance(x, ast.Name) and x.id == k.id for x in s.targets) and isinstance(s.value, ast.BinOp) and isinstance(s.value.op, ast.Add) and k.id in A.names_in(s.value):
                return True
            return False

        if hdr in cfg.reachable(tn, avoid=adv):
            out.append(bad("CTRL-4", f2.qualname, key, where, f"the counter {k.id} is not advanced on every path of the iteration: two arcs get the same control value and one table entry overwrites the other"))
        else:
            # the counter must not be reset inside the loops
            resets = [z for z in cfg.nodes if z.stmt is not None and isinstance(z.stmt, ast.Assign) and any(isinstance(x, ast.Name) and x.id == k.id for x in z.stmt.targets) and not adv(z) and cfg.loops_containing(z)]
            if resets:
                out.append(bad("CTRL-4", f2.qualname, key, ctx.where(f2, resets[0].stmt), f"the counter {k.id} is reset inside the loop: values repeat across predecessors"))
            else:
                out.append(ok("CTRL-4", f2.qualname, key, where, f"{k.id} advanced on every path back to the loop header and never reset inside the loops"))
    return out


@rule("CTRL-5", 2, "loop restructuring leaves exactly one declared back edge, from the single latch to the loop head, on every path, before the loop region is extracted")
def ctrl5(ctx) -> List[Ob]:
    out: List[Ob] = []
    prog = ctx.prog
    rl = prog.find_function("restructure_loop", "transformations")
    if rl is None:
        raise AnalysisError("restructure_loop not found")
    h = _helper(ctx)
    cfg = ctx.cfg(rl)
    ex = [c for c in A.walk_no_nested(rl.node) if isinstance(c, ast.Call) and (A.dotted(c.func) or "") == "extract_region"]
    hp = [c for c in A.walk_no_nested(rl.node) if isinstance(c, ast.Call) and (A.dotted(c.func) or "") == h.name]
    if not ex:
        raise AnalysisError("restructure_loop does not call extract_region")
    for c in ex:
        key = A.alpha_key(c)
        where = ctx.where(rl, c)
        loop_arg = A.unparse(c.args[1]) if len(c.args) > 1 else "?"
        kind = c.args[2] if len(c.args) > 2 else kw(c, "region_kind")
        doms = [x for x in hp if len(x.args) > 1 and A.unparse(x.args[1]) == loop_arg and cfg.dominates(cfg.node_of(x), cfg.node_of(c)) and cfg.loops_containing(cfg.node_of(x))[:1] == cfg.loops_containing(cfg.node_of(c))[:1]]
        if not (isinstance(kind, ast.Constant) and kind.value == "loop"):
            out.append(bad("CTRL-5", rl.qualname, key, where, f"strongly connected components are extracted as kind {A.unparse(kind) if kind is not None else '?'}, not 'loop'"))
        elif doms:
            out.append(ok("CTRL-5", rl.qualname, key, where, f"extraction of {loop_arg} dominated by {h.name}(.., {loop_arg}) in the same iteration"))
        else:
            out.append(bad("CTRL-5", rl.qualname, key, where, f"the loop {loop_arg} is extracted as a region without having been restructured ({h.name}) first: no single latch / declared back edge"))
    # inside the helper: every path to the exit declares the back edge
    hcfg = ctx.cfg(h)
    g = Gadget(ctx)
    head_defs = {g.latch_back}

    def declares(z) -> bool:
        if z.stmt is None:
            return False
        for k in z.walk():
            if isinstance(k, ast.Call) and isinstance(k.func, ast.Attribute) and k.func.attr == "add_block" and k.args:
                a = k.args[0]
                if isinstance(a, ast.Call) and isinstance(a.func, ast.Attribute) and a.func.attr == "declare_backedge" and a.args and A.unparse(a.args[0]) in head_defs:
                    return True
                if isinstance(a, ast.Name):
                    for d in hcfg.reaching_defs(k, a.id):
                        ap = _assign_parts(d.stmt) if d.stmt is not None else None
                        if ap and ap[1] is g.latch:
                            return True
                        if ap and isinstance(ap[1], ast.Call) and isinstance(ap[1].func, ast.Attribute) and ap[1].func.attr == "declare_backedge":
                            return True
        return False

    key = "every path declares the back edge"
    where = ctx.where(h)
    if hcfg.exit in hcfg.reachable(hcfg.entry, avoid=declares):
        out.append(bad("CTRL-5", h.qualname, key, where, "there is a path through loop restructuring that neither declares the back edge on the single latch nor adds an exiting latch: the loop region keeps an undeclared cycle"))
    else:
        out.append(ok("CTRL-5", h.qualname, key, where, "every path to the exit stores a block with the declared back edge (early exit: declare_backedge; otherwise the synthetic exiting latch)"))
    # the early exit is taken only for a single latch that is the single exiting block
    key = "early exit: single latch is the single exiting block"
    early_ret = None
    for z in hcfg.nodes:
        if z.stmt is not None and isinstance(z.stmt, ast.Return) and any(isinstance(a, ast.If) for a in A.ancestors(z.stmt)):
            early_ret = z
            break
    if early_ret is not None:
        guard = next(a for a in A.ancestors(early_ret.stmt) if isinstance(a, ast.If))
        # every condition the return sits under (nested ifs, guard clauses), conjunctions flattened
        conj = []
        for t_, p_ in _guard_conditions(h.node, early_ret.stmt):
            if not p_:
                continue
            te_ = ast.parse(t_, mode="eval").body
            conj += te_.values if isinstance(te_, ast.BoolOp) and isinstance(te_.op, ast.And) else [te_]
        # names of the exiting-blocks list (first result of find_exiting_and_exits)
        exiting_names = set()
        for s_ in A.walk_no_nested(h.node):
            ap = _assign_parts(s_) if isinstance(s_, (ast.Assign, ast.AnnAssign)) else None
            if ap and isinstance(ap[0][0], ast.Tuple) and isinstance(ap[1], ast.Call) and isinstance(ap[1].func, ast.Attribute) and ap[1].func.attr == "find_exiting_and_exits":
                exiting_names.add(A.unparse(ap[0][0].elts[0]))
        single = set()
        for cj in conj:
            if isinstance(cj, ast.Compare) and len(cj.ops) == 1 and isinstance(cj.ops[0], ast.Eq) and isinstance(cj.left, ast.Call) and isinstance(cj.left.func, ast.Name) and cj.left.func.id == "len" and isinstance(cj.comparators[0], ast.Constant) and cj.comparators[0].value == 1:
                single.add(A.unparse(cj.left.args[0]))
        # two lists that are equal have the same length: `len(B) == 1 and B == X`
        for _ in range(2):
            for cj in conj:
                if isinstance(cj, ast.Compare) and len(cj.ops) == 1 and isinstance(cj.ops[0], ast.Eq) and isinstance(cj.left, ast.Name) and isinstance(cj.comparators[0], ast.Name):
                    a_, b_ = cj.left.id, cj.comparators[0].id
                    if a_ in single or b_ in single:
                        single |= {a_, b_}
        if exiting_names and not (exiting_names & single):
            out.append(bad("CTRL-5", h.qualname, key, ctx.where(h, guard), f"the early exit does not require len({sorted(exiting_names)[0]}) == 1 (it tests {sorted(single)}): a loop with several exiting blocks is declared finished and keeps several exits"))
        elif exiting_names:
            out.append(ok("CTRL-5", h.qualname, key, ctx.where(h, guard), f"requires exactly one exiting block and one back-edge block ({sorted(single)})"))
    # the latch itself
    key = "exiting latch: back edge to the loop head"
    where = ctx.where(h, g.latch)
    if g.latch_back is None:
        out.append(bad("CTRL-5", h.qualname, key, where, f"the exiting latch is built with backedges={A.unparse(kw(g.latch, 'backedges'))}: not exactly one declared back edge"))
    elif g.latch_back not in g.latch_targets:
        out.append(bad("CTRL-5", h.qualname, key, where, f"the latch declares a back edge to {g.latch_back}, which is not among its jump targets {g.latch_targets}"))
    else:
        # the back edge target is the loop head: the name the early exit declares and the head the header-arcs route to
        early = [k for k in method_calls(h.node, "declare_backedge") if k.args]
        heads = {A.unparse(k.args[0]) for k in early} | {g.latch_back}
        if len(heads) == 1:
            out.append(ok("CTRL-5", h.qualname, key, where, f"backedges=({g.latch_back},) and {g.latch_back} in _jump_targets; same head definition as the early exit"))
        else:
            out.append(bad("CTRL-5", h.qualname, key, where, f"the latch's back edge goes to {g.latch_back} but the early exit declares {sorted(heads - {g.latch_back})}"))
    return out


MUTATORS = ("insert_block_and_control_blocks", "join_tails_and_exits", "insert_SyntheticFill", "insert_SyntheticTail", "insert_SyntheticExit", "insert_SyntheticReturn", "insert_block", "join_returns")


@rule("CTRL-6", 4, "branch regions are extracted, head first then branches then tail, from block sets recomputed after the last change of the graph")
def ctrl6(ctx) -> List[Ob]:
    out: List[Ob] = []
    rb = ctx.prog.find_function("restructure_branch", "transformations")
    if rb is None:
        raise AnalysisError("restructure_branch not found")
    cfg = ctx.cfg(rb)
    ex = [c for c in A.walk_no_nested(rb.node) if isinstance(c, ast.Call) and (A.dotted(c.func) or "") == "extract_region"]
    if len(ex) < 3:
        raise AnalysisError("restructure_branch: fewer than three extract_region calls")

    def is_mut(z) -> bool:
        return any(isinstance(k, ast.Call) and isinstance(k.func, ast.Attribute) and k.func.attr in MUTATORS for k in z.walk())

    order = []
    for c in ex:
        kind = c.args[2].value if len(c.args) > 2 and isinstance(c.args[2], ast.Constant) else None
        order.append((kind, c))
        key = f"extract_region(.., {A.alpha_key(c.args[1])}, '{kind}')"
        where = ctx.where(rb, c)
        arg = c.args[1]
        # trace the argument to the definition of the set it came from
        roots = _root_defs(ctx, rb, cfg, arg, c)
        if not roots:
            out.append(unresolved("CTRL-6", rb.qualname, key, where, "cannot trace the block set to its computation"))
            continue
        stale = []
        cn = cfg.node_of(c)
        for d in roots:
            between = [z for z in cfg.reachable(d) if is_mut(z) and cn in cfg.reachable(z)]
            if between:
                stale.append(f"computed at line {d.lineno}, graph changed at line {between[0].lineno}")
        if stale and kind == "head":
            # the head chain ends at the branching block; tail / fill / head insertions happen behind it
            out.append(ok("CTRL-6", rb.qualname, key, where, f"head set computed before a later insertion ({stale[0]}): the chain from the graph's head to the branching block is not touched by insertions behind that block"))
        elif stale:
            out.append(bad("CTRL-6", rb.qualname, key, where, f"the block set of the {kind} region is stale: {stale[0]} before the extraction", stale))
        else:
            out.append(ok("CTRL-6", rb.qualname, key, where, f"set computed (line(s) {sorted(d.lineno for d in roots)}) after the last graph mutation"))
    kinds = [k for k, _ in order]
    key = "extraction order head, branch, tail"
    where = ctx.where(rb, ex[0])
    want = ["head", "branch", "tail"]
    nodes_ = {k: cfg.node_of(c) for k, c in order}
    dom_ok = (
        set(kinds) == set(want)
        and all(cfg.dominates(nodes_["head"], nodes_[k]) for k in ("branch", "tail"))
        and nodes_["branch"] not in cfg.reachable(nodes_["tail"])
        and nodes_["head"] not in cfg.reachable(nodes_["branch"])
    )
    if kinds == want and dom_ok:
        out.append(ok("CTRL-6", rb.qualname, key, where, "head, then each branch, then tail"))
    else:
        out.append(bad("CTRL-6", rb.qualname, key, where, f"regions are extracted in the order {kinds}; entries of later regions are renamed only if the head is wrapped first and the tail last"))
    return out


def _root_defs(ctx, fn, cfg, arg: ast.AST, use: ast.AST, depth: int = 0) -> list:
    # a field of a record (`region.nodes`, `region[1]`) is as fresh as the record
    while isinstance(arg, (ast.Attribute, ast.Subscript)):
        arg = arg.value
    if not isinstance(arg, ast.Name) or depth > 4:
        return []
    out = []
    for d in cfg.reaching_defs(use, arg.id):
        if d.stmt is None:
            continue
        if d.kind == "for":
            out += _root_defs(ctx, fn, cfg, d.stmt.iter, d.stmt, depth + 1)
            continue
        ap = _assign_parts(d.stmt)
        if ap is None:
            continue
        v = ap[1]
        if isinstance(v, ast.Name):
            out += _root_defs(ctx, fn, cfg, v, d.stmt, depth + 1)
        elif isinstance(v, ast.Call):
            out.append(d)
    return out


@rule("CTRL-7", 2, "control value 0 of the latch means 'continue': the table's entry 0 is the back-edge target and the generated loop flag is 'not variable'")
def ctrl7(ctx) -> List[Ob]:
    out: List[Ob] = []
    g = Gadget(ctx)
    fn = g.fn
    key = "latch table entry 0"
    where = ctx.where(fn, g.latch)
    firsts = set()
    for d, v in _defs_values(ctx, fn, g.latch, g.latch_tbl):
        if v is None:
            continue
        for n in ast.walk(v):
            if isinstance(n, ast.Call) and isinstance(n.func, ast.Name) and n.func.id == "enumerate" and n.args and isinstance(n.args[0], ast.Tuple) and n.args[0].elts:
                firsts.add(A.unparse(n.args[0].elts[0]))
                if len(n.args) > 1 or n.keywords:
                    firsts.add("<enumerate start != 0>")
        # the table written out: {0: head, 1: exit}
        if isinstance(v, ast.Dict) and v.keys and all(isinstance(k_, ast.Constant) for k_ in v.keys):
            zero = [vv for k_, vv in zip(v.keys, v.values) if k_.value == 0 and not isinstance(k_.value, bool)]
            firsts.add(A.unparse(zero[0]) if zero else "<no entry for 0>")
    if not firsts:
        out.append(unresolved("CTRL-7", fn.qualname, key, where, "cannot read how the latch's value table is built"))
    elif firsts == {g.latch_back}:
        out.append(ok("CTRL-7", fn.qualname, key, where, f"value 0 -> {g.latch_back}, the declared back-edge target, under every definition of the table"))
    else:
        out.append(bad("CTRL-7", fn.qualname, key, where, f"value 0 of the latch's table maps to {sorted(firsts)} but the back edge goes to {g.latch_back}: the generated 'loop_cont = not var' continues when it should exit"))
    # consumer
    from .disp import _codegen
    from .common import find_class_chains

    cg = _codegen(ctx)
    params = [p.arg for p in cg.params if p.arg != "self"]
    chains = find_class_chains(cg.node, params[0])
    arm = None
    for a in chains[0][1]:
        if a.test is not None and "SyntheticExitingLatch" in A.unparse(a.test):
            arm = a
    key = "generated loop flag"
    if arm is None:
        out.append(unresolved("CTRL-7", cg.qualname, key, ctx.where(cg), "no arm for SyntheticExitingLatch in the code generator"))
        return out
    nots = [n for n in A.walk_no_nested(ast.Module(arm.body, [])) if isinstance(n, ast.Call) and (A.dotted(n.func) or "") == "ast.UnaryOp" and n.args and isinstance(n.args[0], ast.Call) and (A.dotted(n.args[0].func) or "") == "ast.Not"]
    uses_var = any(".variable" in A.unparse(n) for n in nots)
    if nots and uses_var:
        out.append(ok("CTRL-7", cg.qualname, key, ctx.where(cg, arm.node), "loop flag = not <latch variable>: value 0 continues"))
    else:
        out.append(bad("CTRL-7", cg.qualname, key, ctx.where(cg, arm.node), "the loop flag is not the negation of the latch's variable: polarity of the generated while loop is inverted or unrelated"))
    return out


@rule("CTRL-8", 2, "header unification is given the entries and headers of one and the same computation")
def ctrl8(ctx) -> List[Ob]:
    out: List[Ob] = []
    target = _ibcb(ctx)
    for site in ctx.cg.call_sites_of(target):
        fn, c = site.caller, site.node
        cfg = ctx.cfg(fn)
        key = A.alpha_key(c)
        where = ctx.where(fn, c)
        if len(c.args) < 3:
            out.append(unresolved("CTRL-8", fn.qualname, key, where, "call with keyword arguments not understood"))
            continue
        pred, succ = c.args[1], c.args[2]
        info = {}
        for nm, role in ((pred, "predecessors"), (succ, "successors")):
            if not isinstance(nm, ast.Name):
                continue
            for d in cfg.reaching_defs(c, nm.id):
                if d.stmt is None:
                    continue
                ap = _assign_parts(d.stmt)
                if ap and isinstance(ap[0][0], ast.Tuple) and isinstance(ap[1], ast.Call) and isinstance(ap[1].func, ast.Attribute) and ap[1].func.attr == "find_headers_and_entries":
                    idx = [A.unparse(e) for e in ap[0][0].elts].index(nm.id)
                    info.setdefault(role, []).append((id(d), idx))
        p, s = info.get("predecessors", []), info.get("successors", [])
        if len(p) == 1 and len(s) == 1 and p[0][0] == s[0][0] and p[0][1] == 1 and s[0][1] == 0:
            out.append(ok("CTRL-8", fn.qualname, key, where, "predecessors = entries and successors = headers of the same find_headers_and_entries result"))
        else:
            out.append(bad("CTRL-8", fn.qualname, key, where, "the predecessors / successors handed to header unification are not the (entries, headers) pair of one find_headers_and_entries call: some header gets no table entry or some arc no assignment"))
    return out


@rule("CTRL-9", 3, "on the gadget template every rerouted arc is driven back to its original target: latch value -> first hop, second variable -> original target")
def ctrl9(ctx) -> List[Ob]:
    out: List[Ob] = []
    g = Gadget(ctx)
    fn = g.fn
    for actor in g.assigns:
        kind = g.arc_kind(actor)
        key = f"{kind or '?'}-arc routing"
        where = ctx.where(fn, actor)
        if kind is None:
            out.append(unresolved("CTRL-9", fn.qualname, key, where, "cannot classify the arc"))
            continue
        stores = {v: e for _s, v, e in g.stores_for(actor)}
        # the arc variable: the loop variable tested by the guard and replaced in the list
        arc = None
        for t, pol in _guard_conditions(fn.node, actor):
            tt = ast.parse(t, mode="eval").body
            conj = tt.values if isinstance(tt, ast.BoolOp) else [tt]
            for cj in conj:
                if isinstance(cj, ast.Compare) and isinstance(cj.ops[0], ast.In) and isinstance(cj.left, ast.Name):
                    arc = cj.left.id
                    break
            if arc:
                break
        probs = []
        first_hop = g.latch_exit if kind == "exit" else g.latch_back
        rl1 = _rl(stores.get(g.latch_var)) if stores.get(g.latch_var) is not None else None
        if rl1 is None:
            probs.append(f"{g.latch_var} is not set by a reverse lookup")
        else:
            if rl1[0] != g.latch_tbl:
                probs.append(f"{g.latch_var} is looked up in {rl1[0]}, not in the latch's table {g.latch_tbl}")
            if _expand_target(fn, rl1[1]) != _expand_target(fn, first_hop):
                probs.append(f"{g.latch_var} selects {rl1[1]}, but this {kind}-arc must leave the latch towards {first_hop}")
        second = stores.get(g.exit_var)
        for hv in g.head_vars:
            second = second if second is not None else stores.get(hv)
        rl2 = _rl(second) if second is not None else None
        if rl2 is None:
            probs.append("the second-level variable is not set by a reverse lookup")
        else:
            want_tbl = {g.exit_tbl} if kind == "exit" else set(g.head_tbls)
            if rl2[0] not in want_tbl:
                probs.append(f"second-level value looked up in {rl2[0]}, expected {sorted(want_tbl)} (the table of the block the latch hands over to)")
            if rl2[1] != arc:
                probs.append(f"second-level value selects {rl2[1]}, not the arc's original target {arc}")
        # the list edit replaces the arc's own position with this block
        nm = A.unparse(kw(actor, "name"))
        edits = [s for s in A.walk_no_nested(fn.node) if isinstance(s, ast.Assign) and isinstance(s.targets[0], ast.Subscript) and A.unparse(s.value) == nm and "index" in A.unparse(s.targets[0].slice)]
        mine = _guard_conditions(fn.node, actor)
        edits = [s for s in edits if _guard_conditions(fn.node, s) == mine]
        if not edits:
            probs.append(f"the assignment block {nm} is never put in the place of the arc's target")
        elif not all(isinstance(s.targets[0].slice, ast.Call) and s.targets[0].slice.args and A.unparse(s.targets[0].slice.args[0]) == arc for s in edits):
            probs.append(f"the assignment block replaces another position than the one holding {arc}")
        if probs:
            out.append(bad("CTRL-9", fn.qualname, key, where, f"{kind}-arc is not driven back to its original target: " + "; ".join(probs), probs))
        else:
            out.append(ok("CTRL-9", fn.qualname, key, where, f"{kind}-arc: {g.latch_var} -> {first_hop} via {g.latch_tbl}; second level -> {arc}; block placed at index of {arc}"))
    # head unification arcs
    f2 = _ibcb(ctx)
    hc = _ctors(ctx, f2, "SyntheticBranch")[0][0]
    ht = A.unparse(kw(hc, "branch_value_table"))
    for actor, _n in _ctors(ctx, f2, "SyntheticAssignment"):
        key = "entry-arc routing"
        where = ctx.where(f2, actor)
        nm = A.unparse(kw(actor, "name"))
        tst = [t for t in A.walk_no_nested(f2.node) if isinstance(t, ast.Assign) and isinstance(t.targets[0], ast.Subscript) and A.unparse(t.targets[0].value) == ht]
        edits = [s for s in A.walk_no_nested(f2.node) if isinstance(s, ast.Assign) and isinstance(s.targets[0], ast.Subscript) and A.unparse(s.value) == nm]
        probs = []
        if not tst or not edits:
            probs.append("table store or list edit missing")
        else:
            tv = A.unparse(tst[0].value)
            sl = edits[0].targets[0].slice
            idx_of = A.unparse(sl.args[0]) if isinstance(sl, ast.Call) and sl.args else A.unparse(sl)
            if tv != idx_of:
                probs.append(f"the head's table maps the arc's value to {tv} but the assignment block replaces the successor {idx_of}")
            if not (_same_iteration(ctx, f2, tst[0], edits[0])):
                probs.append("table store and list edit are not in the same iteration")
        if probs:
            out.append(bad("CTRL-9", f2.qualname, key, where, "entry arc is not routed back to its original header: " + "; ".join(probs)))
        else:
            out.append(ok("CTRL-9", f2.qualname, key, where, "the value assigned on the arc maps, in the head's table, to the successor the assignment block replaced"))
    return out


@rule("CTRL-10", 3, "when a branching block is re-targeted its table and its targets are replaced together, every key is kept, a removed target never survives as a value and a kept target keeps its value")
def ctrl10(ctx) -> List[Ob]:
    out: List[Ob] = []
    cls = ctx.prog.cls("SyntheticBranch")
    m = cls.methods.get("replace_jump_targets")
    if m is None:
        raise AnalysisError("SyntheticBranch.replace_jump_targets not found")
    cfg = ctx.cfg(m)
    newp = [p.arg for p in m.params if p.arg != "self"][0]
    # (i) one replace(...) sets both fields
    rets = [r for r in A.walk_no_nested(m.node) if isinstance(r, ast.Return) and r.value is not None]
    key = "targets and table replaced together"
    good = bool(rets)
    tbl_name = None
    for r in rets:
        v = r.value
        if not (isinstance(v, ast.Call) and (A.dotted(v.func) or "").split(".")[-1] == "replace"):
            good = False
            continue
        kws = {k.arg: k.value for k in v.keywords}
        if "_jump_targets" not in kws or "branch_value_table" not in kws or A.unparse(kws["_jump_targets"]) != newp:
            good = False
        else:
            tbl_name = A.unparse(kws["branch_value_table"])
    if good:
        out.append(ok("CTRL-10", m.qualname, key, ctx.where(m, rets[0]), f"replace(self, _jump_targets={newp}, branch_value_table={tbl_name})"))
    else:
        out.append(bad("CTRL-10", m.qualname, key, ctx.where(m), "the re-targeted block is not returned with both the new targets and the rewritten value table: table and successors diverge"))
        return out
    # (ii)/(iii) stores into the new table
    stores = [s for s in A.walk_no_nested(m.node) if isinstance(s, ast.Assign) and len(s.targets) == 1 and isinstance(s.targets[0], ast.Subscript) and A.unparse(s.targets[0].value) == tbl_name]
    if not stores:
        defs = [d for r in rets for d in cfg.reaching_defs(r, tbl_name) if d.stmt is not None]
        if defs and all((ap := _assign_parts(d.stmt)) is not None and isinstance(ap[1], ast.Dict) and not ap[1].keys for d in defs):
            out.append(bad("CTRL-10", m.qualname, "table rewritten", ctx.where(m), f"nothing is ever stored into {tbl_name}: the re-targeted block loses its table"))
        else:
            out.append(unresolved("CTRL-10", m.qualname, "table rewritten", ctx.where(m), f"the way {tbl_name} is built is not understood by the checker"))
        return out
    merged_both = False
    for s in stores:
        skey = " ".join(A.unparse(s).split()) + " @ " + ("removed" if _under_not_in(m.node, s, newp) else "kept")
        where = ctx.where(m, s)
        # enclosing `for k, v in <old>.items()` and `for target in self._jump_targets`
        kv = None
        tgt = None
        for anc in A.ancestors(s):
            if isinstance(anc, ast.For) and isinstance(anc.iter, ast.Call) and isinstance(anc.iter.func, ast.Attribute) and anc.iter.func.attr == "items" and isinstance(anc.target, ast.Tuple) and len(anc.target.elts) == 2:
                kv = kv or (A.unparse(anc.target.elts[0]), A.unparse(anc.target.elts[1]), A.unparse(anc.iter.func.value))
            if isinstance(anc, ast.For) and "_jump_targets" in A.unparse(anc.iter) and isinstance(anc.target, ast.Name):
                tgt = tgt or anc.target.id
        if kv is None or tgt is None:
            out.append(unresolved("CTRL-10", m.qualname, skey, where, "store into the new table outside the expected loops"))
            continue
        k, v, oldtbl = kv
        if A.unparse(s.targets[0].slice) != k:
            out.append(bad("CTRL-10", m.qualname, skey, where, f"the new table is keyed by {A.unparse(s.targets[0].slice)}, not by the old key {k}: control values change meaning"))
            continue
        # the source table must be the block's own (old) table
        olddef_ok = oldtbl == "self.branch_value_table" or any(
            (ap := _assign_parts(d.stmt)) is not None and A.unparse(ap[1]) == "self.branch_value_table"
            for d in cfg.reaching_defs(s, oldtbl) if d.stmt is not None)
        if not olddef_ok:
            out.append(bad("CTRL-10", m.qualname, skey, where, f"entries are copied from {oldtbl}, which is not the block's own value table"))
            continue
        # one store behind an if / else that only chooses the value (`new = target` | `new = next(iter(diff))`):
        # read as the two stores it abbreviates
        if isinstance(s.value, ast.Name) and not any(isinstance(a, ast.If) and isinstance(a.test, ast.Compare) and A.unparse(a.test.comparators[0]) == newp for a in A.ancestors(s)):
            vdefs = [d for d in cfg.reaching_defs(s, s.value.id) if d.stmt is not None and _assign_parts(d.stmt) is not None]
            sides = {(_under_not_in(m.node, d.stmt, newp)): d for d in vdefs}
            in_test = [d for d in vdefs if any(isinstance(a, ast.If) and isinstance(a.test, ast.Compare) and A.unparse(a.test.comparators[0]) == newp for a in A.ancestors(d.stmt))]
            if len(vdefs) == 2 and len(in_test) == 2 and set(sides) == {True, False}:
                guarded2 = any(isinstance(a, ast.If) and isinstance(a.test, ast.Compare) and len(a.test.ops) == 1 and isinstance(a.test.ops[0], ast.Eq) and {A.unparse(a.test.left), A.unparse(a.test.comparators[0])} == {v, tgt} for a in A.ancestors(s))
                kept_v = A.unparse(_assign_parts(sides[False].stmt)[1])
                rem_v = _assign_parts(sides[True].stmt)[1]
                ok_rem = False
                if "next(iter(" in A.unparse(rem_v):
                    src = A.unparse(rem_v)[len("next(iter("):-2]
                    for d2 in cfg.reaching_defs(sides[True].stmt, src):
                        ap2 = _assign_parts(d2.stmt) if d2.stmt is not None else None
                        if ap2 and "difference" in A.unparse(ap2[1]) and newp in A.unparse(ap2[1]) and "_jump_targets" in A.unparse(ap2[1]):
                            t2 = A.unparse(ap2[1])
                            ok_rem = t2.index(newp) < t2.index("_jump_targets")
                base_key = " ".join(A.unparse(s).split())
                if not guarded2:
                    out.append(bad("CTRL-10", m.qualname, base_key + " @ both", where, f"entry copied without the test '{v} == {tgt}': entries of other targets are rewritten too"))
                elif kept_v not in (v, tgt):
                    out.append(bad("CTRL-10", m.qualname, base_key + " @ kept", where, f"entries of a target that stays a successor are rewritten to {kept_v}"))
                elif not ok_rem:
                    out.append(bad("CTRL-10", m.qualname, base_key + " @ removed", where, f"entries of a target that is no longer a successor get the value {A.unparse(rem_v)[:40]}, which is not the single new target"))
                else:
                    out.append(ok("CTRL-10", m.qualname, base_key + " @ both", where, "kept targets keep their entries, entries of the removed target go to the one new target; one store behind the choice"))
                merged_both = True
                continue
        val = A.unparse(s.value)
        removed = _under_not_in(m.node, s, newp)
        guarded = any(isinstance(a, ast.If) and {A.unparse(a.test.left), A.unparse(a.test.comparators[0])} == {v, tgt} for a in A.ancestors(s) if isinstance(a, ast.If) and isinstance(a.test, ast.Compare) and len(a.test.ops) == 1 and isinstance(a.test.ops[0], ast.Eq))
        if not guarded:
            out.append(bad("CTRL-10", m.qualname, skey, where, f"entry copied without the test '{v} == {tgt}': entries of other targets are rewritten too"))
            continue
        if removed:
            # value must be the single new target: next(iter(set(new) - set(old)))
            okv = False
            if isinstance(s.value, ast.Name):
                for d in cfg.reaching_defs(s, s.value.id):
                    ap = _assign_parts(d.stmt) if d.stmt is not None else None
                    if ap and "next(iter(" in A.unparse(ap[1]):
                        src = A.unparse(ap[1])[len("next(iter("):-2]
                        for d2 in cfg.reaching_defs(d.stmt, src):
                            ap2 = _assign_parts(d2.stmt) if d2.stmt is not None else None
                            if ap2 and "difference" in A.unparse(ap2[1]) and newp in A.unparse(ap2[1]) and "_jump_targets" in A.unparse(ap2[1]):
                                t2 = A.unparse(ap2[1])
                                # set(new).difference(old), not the other way round
                                okv = t2.index(newp) < t2.index("_jump_targets")
            if okv:
                out.append(ok("CTRL-10", m.qualname, skey, where, f"entries of the removed target are re-pointed to the one new target (set({newp}) - old targets)"))
            else:
                out.append(bad("CTRL-10", m.qualname, skey, where, f"entries of a target that is no longer a successor get the value {val}, which is not the single new target: the table names a block that is not a successor"))
        else:
            if val in (v, tgt):
                out.append(ok("CTRL-10", m.qualname, skey, where, "entries of a kept target are copied unchanged"))
            else:
                out.append(bad("CTRL-10", m.qualname, skey, where, f"entries of a target that stays a successor are rewritten to {val}"))
    # both arms exist
    kinds = {_under_not_in(m.node, s, newp) for s in stores}
    if kinds != {True, False} and not merged_both:
        out.append(bad("CTRL-10", m.qualname, "both arms", ctx.where(m), "the table rewrite handles only " + ("removed" if True in kinds else "kept") + " targets: the other entries are dropped from the table"))
    return out


def _under_not_in(fn_node: ast.AST, node: ast.AST, newp: str) -> bool:
    """node lies in the branch where `<target> not in <new targets>` holds"""
    child = node
    for anc in A.ancestors(node):
        test = anc.test if isinstance(anc, ast.If) else None
        if isinstance(test, ast.Name):
            # a boolean local that names the membership test (`gone = target not in new_targets`)
            defs_ = [s_ for s_ in ast.walk(fn_node) if isinstance(s_, ast.Assign) and len(s_.targets) == 1 and isinstance(s_.targets[0], ast.Name) and s_.targets[0].id == test.id]
            if len(defs_) == 1:
                test = defs_[0].value
        if isinstance(anc, ast.If) and isinstance(test, ast.Compare) and len(test.ops) == 1 and A.unparse(test.comparators[0]) == newp:
            neg = isinstance(test.ops[0], ast.NotIn)
            pos = isinstance(test.ops[0], ast.In)
            if neg or pos:
                in_body = child in anc.body
                return (neg and in_body) or (pos and not in_body)
        if anc is fn_node:
            break
        child = anc
    return False



def _dnf(e: ast.AST, neg: bool = False) -> List[Set[str]]:
    """disjunctive normal form of a boolean expression: list of sets of literal texts"""
    if isinstance(e, ast.UnaryOp) and isinstance(e.op, ast.Not):
        return _dnf(e.operand, not neg)
    if isinstance(e, ast.BoolOp):
        is_and = isinstance(e.op, ast.And) != neg
        parts = [_dnf(v, neg) for v in e.values]
        if is_and:
            out: List[Set[str]] = [set()]
            for p in parts:
                out = [a | b for a in out for b in p]
            return out[:64]
        res: List[Set[str]] = []
        for p in parts:
            res += p
        return res[:64]
    t = A.unparse(e)
    return [{("not " + t) if neg else t}]


def _full_guard(ctx, fn, node: ast.AST) -> Optional[ast.AST]:
    """the test of the innermost if/elif arm containing node, with boolean locals
    replaced by their (single) definition"""
    child = node
    for anc in A.ancestors(node):
        if isinstance(anc, ast.If) and child in anc.body:
            test = anc.test
            cfg = ctx.cfg(fn)
            if isinstance(test, ast.Name):
                defs = [d for d in cfg.reaching_defs(anc, test.id) if d.stmt is not None]
                if len(defs) == 1 and _assign_parts(defs[0].stmt) is not None:
                    return _assign_parts(defs[0].stmt)[1]
                return None
            return test
        if anc is fn.node:
            break
        child = anc
    return None


@rule("CTRL-11", 2, "an arc is treated as an exit (header) arc only if its target is an exit block (a header): the guard implies membership in the sequence its control value is looked up in")
def ctrl11(ctx) -> List[Ob]:
    out: List[Ob] = []
    g = Gadget(ctx)
    fn = g.fn
    for actor in g.assigns:
        kind = g.arc_kind(actor)
        key = f"{kind or '?'}-arc guard"
        where = ctx.where(fn, actor)
        if kind is None:
            out.append(unresolved("CTRL-11", fn.qualname, key, where, "cannot classify the arc"))
            continue
        # the value looked up at the second level and the sequence that table enumerates
        second = None
        for _s, _v, e in g.stores_for(actor):
            rl = _rl(e)
            if rl is not None and (rl[0] == g.exit_tbl or rl[0] in g.head_tbls):
                second = rl
        if second is None:
            out.append(unresolved("CTRL-11", fn.qualname, key, where, "no second-level lookup found"))
            continue
        arc = second[1]
        seqs = g.exit_seq() if kind == "exit" else g.header_seq()
        guard = _full_guard(ctx, fn, actor)
        if guard is None:
            out.append(unresolved("CTRL-11", fn.qualname, key, where, "cannot read the guard of the arc"))
            continue
        need = {f"{arc} in {q}" for q in seqs}
        if not need:
            out.append(unresolved("CTRL-11", fn.qualname, key, where, "cannot see which sequence the looked-up table enumerates"))
            continue
        dis = _dnf(guard)
        lacking = [sorted(d) for d in dis if not (d & need)]
        if not lacking:
            out.append(ok("CTRL-11", fn.qualname, key, where, f"every way to satisfy the guard includes {sorted(need)[0]}: the looked-up value is a key of the table"))
        else:
            out.append(bad("CTRL-11", fn.qualname, key, where,
                           f"the guard of the {kind}-arc can hold without {sorted(need)[0]} (when {' and '.join(lacking[0])}): the value looked up for {arc} is not in the table (reverse lookup yields -1) and the arc is rerouted although it is no {kind} arc",
                           [f"guard: {A.unparse(guard)[:100]}"]))
    return out


# ------------------------------------------------------------------ CTRL-12


def _is_table_expr(ctx, fn, e: ast.AST) -> bool:
    """e denotes a block's value table: `<x>.branch_value_table` or a local bound to one"""
    from .common import see_through

    e = see_through(ctx, fn, e) or e
    return isinstance(e, ast.Attribute) and e.attr == "branch_value_table"


@rule("CTRL-12", 2, "a value table is many-to-one (several control values select the same target): it is never inverted into a plain target -> value mapping, and grouping its entries by target collects all values of a target")
def ctrl12(ctx) -> List[Ob]:
    out: List[Ob] = []
    for fn in ctx.prog.functions:
        for n in A.walk_no_nested(fn.node):
            # ---- iterations over <table>.items()
            gens = []
            if isinstance(n, ast.For):
                gens = [(n.target, n.iter, n)]
            elif isinstance(n, (ast.DictComp, ast.ListComp, ast.SetComp, ast.GeneratorExp)):
                gens = [(g.target, g.iter, n) for g in n.generators]
            for tgt, it, holder in gens:
                if not (isinstance(it, ast.Call) and isinstance(it.func, ast.Attribute) and it.func.attr == "items" and _is_table_expr(ctx, fn, it.func.value)):
                    continue
                if not (isinstance(tgt, ast.Tuple) and len(tgt.elts) == 2 and all(isinstance(x, ast.Name) for x in tgt.elts)):
                    continue
                kv, vv = tgt.elts[0].id, tgt.elts[1].id  # control value, target
                key = "iteration over a value table: " + A.alpha_key(it)
                where = ctx.where(fn, holder)
                inverted = None
                if isinstance(holder, ast.DictComp) and A.unparse(holder.key) == vv and kv in A.names_in(holder.value):
                    inverted = f"{{{vv}: {kv} for ...}}"
                elif isinstance(holder, (ast.ListComp, ast.GeneratorExp, ast.SetComp)) and isinstance(holder.elt, ast.Tuple) and len(holder.elt.elts) == 2 and A.unparse(holder.elt.elts[0]) == vv and A.unparse(holder.elt.elts[1]) == kv:
                    par = A.parent(holder)
                    if isinstance(par, ast.Call) and isinstance(par.func, ast.Name) and par.func.id == "dict":
                        inverted = f"dict(({vv}, {kv}) for ...)"
                elif isinstance(holder, ast.For):
                    for st in A.walk_no_nested(ast.Module(holder.body, [])):
                        if isinstance(st, ast.Assign) and len(st.targets) == 1 and isinstance(st.targets[0], ast.Subscript) and A.unparse(st.targets[0].slice) == vv and A.unparse(st.value) == kv:
                            inverted = A.unparse(st)
                if inverted:
                    out.append(bad("CTRL-12", fn.qualname, key, where, f"the value table is inverted into a plain mapping ({inverted[:50]}): when several control values select one target (unified headers entered over several arcs, loops left from several places to one block) all but the last are lost"))
                else:
                    out.append(ok("CTRL-12", fn.qualname, key, where, "entries are copied / aggregated per target, not inverted"))
            # ---- a table rebuilt target by target must walk the stored tuple: the filtered view hides the
            #      declared back edge, whose entry (the latch's "continue" value) would be dropped
            if isinstance(n, (ast.DictComp, ast.ListComp, ast.SetComp, ast.GeneratorExp)) and len(n.generators) == 2:
                g0, g1 = n.generators
                if isinstance(g0.iter, ast.Attribute) and g0.iter.attr in ("jump_targets", "_jump_targets") and isinstance(g1.iter, ast.Call) and isinstance(g1.iter.func, ast.Attribute) and g1.iter.func.attr == "items" and _is_table_expr(ctx, fn, g1.iter.func.value) and A.unparse(g0.iter.value) == A.unparse(g1.iter.func.value.value if isinstance(g1.iter.func.value, ast.Attribute) else g1.iter.func.value):
                    key = "value table rebuilt per target: " + A.alpha_key(g0.iter)
                    if g0.iter.attr == "jump_targets":
                        out.append(bad("CTRL-12", fn.qualname, key, ctx.where(fn, n), "the table is rebuilt by walking the filtered view .jump_targets: the entry of a declared back edge (value 0 of an exiting latch) is dropped"))
                    else:
                        out.append(ok("CTRL-12", fn.qualname, key, ctx.where(fn, n), "walks the stored tuple, back edges included"))
            if isinstance(n, ast.For) and isinstance(n.iter, ast.Attribute) and n.iter.attr == "jump_targets":
                inner = [l2 for l2 in A.walk_no_nested(ast.Module(n.body, [])) if isinstance(l2, ast.For) and isinstance(l2.iter, ast.Call) and isinstance(l2.iter.func, ast.Attribute) and l2.iter.func.attr == "items" and _is_table_expr(ctx, fn, l2.iter.func.value) and isinstance(l2.iter.func.value, ast.Attribute) and A.unparse(l2.iter.func.value.value) == A.unparse(n.iter.value)]
                if inner:
                    out.append(bad("CTRL-12", fn.qualname, "value table rebuilt per target: " + A.alpha_key(n.iter), ctx.where(fn, n), "the table is rebuilt by walking the filtered view .jump_targets: the entry of a declared back edge (value 0 of an exiting latch) is dropped"))
            # ---- dict(zip(T.values(), T.keys())) and friends
            if isinstance(n, ast.Call) and isinstance(n.func, ast.Name) and n.func.id == "dict" and len(n.args) == 1:
                a0 = n.args[0]
                if isinstance(a0, ast.Call) and isinstance(a0.func, ast.Name) and a0.func.id == "zip" and len(a0.args) == 2:
                    x, y = a0.args
                    if all(isinstance(z, ast.Call) and isinstance(z.func, ast.Attribute) for z in (x, y)) and x.func.attr == "values" and y.func.attr == "keys" and _is_table_expr(ctx, fn, x.func.value):
                        out.append(bad("CTRL-12", fn.qualname, "dict(zip(values, keys)) of a value table", ctx.where(fn, n), "the value table is inverted into a plain mapping: control values that share a target are lost"))
                if isinstance(a0, ast.Call) and isinstance(a0.func, ast.Name) and a0.func.id == "map" and len(a0.args) == 2 and A.unparse(a0.args[0]) == "reversed":
                    z = a0.args[1]
                    if isinstance(z, ast.Call) and isinstance(z.func, ast.Attribute) and z.func.attr == "items" and _is_table_expr(ctx, fn, z.func.value):
                        out.append(bad("CTRL-12", fn.qualname, "dict(map(reversed, items)) of a value table", ctx.where(fn, n), "the value table is inverted into a plain mapping: control values that share a target are lost"))
            # ---- itertools.groupby over table entries needs the entries sorted by the grouping key
            if isinstance(n, ast.Call) and (A.dotted(n.func) or "").split(".")[-1] == "groupby" and n.args:
                src = n.args[0]
                gkey = kw(n, "key", 1)
                mentions = any(isinstance(x, ast.Attribute) and x.attr == "branch_value_table" for x in ast.walk(src))
                if not mentions and isinstance(src, ast.Name):
                    from .common import see_through

                    sv = see_through(ctx, fn, src)
                    mentions = sv is not None and any(isinstance(x, ast.Attribute) and x.attr == "branch_value_table" for x in ast.walk(sv))
                    src = sv if mentions else src
                if mentions:
                    skey = None
                    sorted_call = src if isinstance(src, ast.Call) and isinstance(src.func, ast.Name) and src.func.id == "sorted" else None
                    if sorted_call is not None:
                        skey = kw(sorted_call, "key")
                    same = sorted_call is not None and gkey is not None and skey is not None and A.alpha_key(skey) == A.alpha_key(gkey)
                    key = "groupby over value-table entries"
                    if same:
                        out.append(ok("CTRL-12", fn.qualname, key, ctx.where(fn, n), "entries are sorted by the grouping key: one group per target"))
                    else:
                        out.append(bad("CTRL-12", fn.qualname, key, ctx.where(fn, n), "groupby merges only adjacent entries and the entries are not sorted by the grouping key: a target selected by non-adjacent control values gets several groups (its region is generated twice / its row is split)"))
    return out


# ------------------------------------------------------------------ CTRL-13


@rule("CTRL-13", 2, "what loop restructuring reads from the graph after the headers were unified is computed after the unification (the inserted head and assignment blocks are part of the loop from then on)")
def ctrl13(ctx) -> List[Ob]:
    out: List[Ob] = []
    fn = _helper(ctx)
    cfg = ctx.cfg(fn)
    G = fn.params[0].arg
    unify = [z for z in cfg.nodes if z.stmt is not None and any(isinstance(k, ast.Call) and isinstance(k.func, ast.Attribute) and k.func.attr == "insert_block_and_control_blocks" for k in z.walk())]
    if not unify:
        raise AnalysisError("loop_restructure_helper: header unification call not found")

    def reads_graph(e: ast.AST) -> bool:
        for x in ast.walk(e):
            if isinstance(x, ast.Subscript) and isinstance(x.value, ast.Name) and x.value.id == G:
                return True
            if isinstance(x, ast.Attribute) and isinstance(x.value, ast.Name) and x.value.id == G and x.attr not in ("name_gen",):
                return True
            if isinstance(x, ast.Call) and any(isinstance(a, ast.Name) and a.id == G for a in x.args):
                return True
        return False

    for d in cfg.nodes:
        st = d.stmt
        if not isinstance(st, (ast.Assign, ast.AnnAssign)) or st.value is None or not reads_graph(st.value):
            continue
        tg = st.targets[0] if isinstance(st, ast.Assign) else st.target
        names = [x.id for x in ast.walk(tg) if isinstance(x, ast.Name) and isinstance(x.ctx, ast.Store)]
        if not names or isinstance(tg, ast.Subscript):
            continue
        key = "graph-derived: " + A.alpha_key(st)
        where = ctx.where(fn, st)
        later = [m for m in unify if m in cfg.reachable(d)]
        stale_uses = []
        for m in later:
            after = cfg.reachable(m)
            for u in A.walk_no_nested(fn.node):
                if isinstance(u, ast.Name) and isinstance(u.ctx, ast.Load) and u.id in names:
                    un = cfg.node_of(u)
                    if un in after and d in cfg.reaching_defs(u):
                        stale_uses.append(u)
        if stale_uses:
            out.append(bad("CTRL-13", fn.qualname, key, where, f"'{A.unparse(st)[:60]}' reads the graph before the headers are unified (line {later[0].lineno}) and {names} is used afterwards (line {A.lineno(stale_uses[0])}): blocks and arcs inserted by the unification are missing from it",
                           [f"{len(stale_uses)} use(s) after the unification"]))
        else:
            out.append(ok("CTRL-13", fn.qualname, key, where, "not used across the header unification"))
    return out


@rule("CTRL-14", 1, "a control value written into an assignment table is an integer on every path: where it comes from a reverse lookup, the value returned when nothing matches is an integer constant too (values are compared with integer table keys, and are written to / read from the serialised form as integers)")
def ctrl14(ctx) -> List[Ob]:
    out: List[Ob] = []
    from .common import as_reverse_lookup, reverse_lookup_call

    fn = ctx.prog.find_function("loop_restructure_helper", "transformations")
    if fn is None:
        raise AnalysisError("loop_restructure_helper not found")
    seen = set()
    n_calls = 0

    def default_of(rl) -> Optional[ast.AST]:
        f = rl.fn
        if isinstance(rl.loop.iter, ast.AST) and not any(rl.loop is x for x in ast.walk(f.node)):
            # written as next(<generator>, default)
            for c in A.walk_no_nested(f.node):
                if isinstance(c, ast.Call) and isinstance(c.func, ast.Name) and c.func.id == "next":
                    return c.args[1] if len(c.args) > 1 else ast.Name(id="<StopIteration>", ctx=ast.Load())
            return None
        rets = [r for r in A.walk_no_nested(f.node) if isinstance(r, ast.Return) and not any(r is x for x in ast.walk(ast.Module(rl.loop.body, [])))]
        if not rets:
            return ast.Constant(value=None)
        return rets[-1].value if rets[-1].value is not None else ast.Constant(value=None)

    for scope in [fn] + [g for g in ctx.prog.functions if g.parent_fn is fn]:
        for c in A.walk_no_nested(scope.node):
            if not isinstance(c, ast.Call):
                continue
            if isinstance(c.func, ast.Name) and c.func.id == "next" and c.args and isinstance(c.args[0], ast.GeneratorExp) and ".items()" in A.unparse(c.args[0]) and scope is fn:
                # the lookup written out at the use
                n_calls += 1
                d = c.args[1] if len(c.args) > 1 else None
                key = "not-found value of " + A.alpha_key(c)[:60]
                if (isinstance(d, ast.Constant) and isinstance(d.value, int) and not isinstance(d.value, bool)) or (isinstance(d, ast.UnaryOp) and isinstance(d.op, ast.USub) and isinstance(d.operand, ast.Constant) and isinstance(d.operand.value, int)):
                    out.append(ok("CTRL-14", fn.qualname, key, ctx.where(fn, c), f"default {A.unparse(d)}"))
                else:
                    out.append(bad("CTRL-14", fn.qualname, key, ctx.where(fn, c), f"the lookup yields {A.unparse(d) if d is not None else 'StopIteration'} when no entry matches: a non-integer control value is written into a variable assignment (it is not a key of any value table, and the YAML form reads it back as a string)"))
                continue
            r = reverse_lookup_call(ctx.prog, scope, c)
            if r is None:
                continue
            n_calls += 1
            rl = r[0]
            if id(rl.fn.node) in seen:
                continue
            seen.add(id(rl.fn.node))
            d = default_of(rl)
            key = f"not-found value of {rl.fn.name}"
            where = ctx.where(rl.fn)
            if isinstance(d, ast.UnaryOp) and isinstance(d.op, ast.USub) and isinstance(d.operand, ast.Constant) and isinstance(d.operand.value, int):
                out.append(ok("CTRL-14", rl.fn.qualname, key, where, f"returns {A.unparse(d)} when nothing matches"))
            elif isinstance(d, ast.Constant) and isinstance(d.value, int) and not isinstance(d.value, bool):
                out.append(ok("CTRL-14", rl.fn.qualname, key, where, f"returns {d.value} when nothing matches"))
            elif isinstance(d, ast.Name) and d.id in [p.arg for p in rl.fn.params]:
                # the default is a parameter: every call site must pass an integer
                pi = [p.arg for p in rl.fn.params].index(d.id)
                badsites = []
                for s_ in [fn] + [g for g in ctx.prog.functions if g.parent_fn is fn]:
                    for c2 in A.walk_no_nested(s_.node):
                        if isinstance(c2, ast.Call) and reverse_lookup_call(ctx.prog, s_, c2) is not None and reverse_lookup_call(ctx.prog, s_, c2)[0].fn is rl.fn:
                            a = kw(c2, d.id, pi)
                            if a is None:
                                dflt = rl.fn.node.args.defaults
                                a = dflt[-1] if dflt else None
                            okv = (isinstance(a, ast.Constant) and isinstance(a.value, int) and not isinstance(a.value, bool)) or (isinstance(a, ast.UnaryOp) and isinstance(a.operand, ast.Constant) and isinstance(a.operand.value, int))
                            if not okv:
                                badsites.append(c2)
                if badsites:
                    out.append(bad("CTRL-14", fn.qualname, key, ctx.where(fn, badsites[0]), f"{A.unparse(badsites[0])[:60]} lets the lookup return a non-integer when nothing matches: that value is written into a variable assignment"))
                else:
                    out.append(ok("CTRL-14", rl.fn.qualname, key, where, "the not-found value is a parameter; every call in loop restructuring passes an integer"))
            else:
                out.append(bad("CTRL-14", rl.fn.qualname, key, where, f"{rl.fn.name} returns {A.unparse(d) if d is not None else '?'} when nothing matches: a non-integer control value is written into a variable assignment (it is not a key of any value table, and the YAML form reads `None` back as the string 'None')"))
    if n_calls < 3:
        raise AnalysisError(f"CTRL-14: only {n_calls} reverse lookups found in loop restructuring")
    return out
