"""(rules to be added)"""
