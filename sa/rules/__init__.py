"""Rule registry: rule id -> (function, minimum instance count confirmed by
hand on the pinned tree, one-line statement), and the property -> rules map."""
from __future__ import annotations

from typing import Callable, Dict, List, Tuple

RULES: Dict[str, Tuple[Callable, int, str]] = {}


def rule(rule_id: str, min_instances: int, statement: str):
    def deco(fn):
        RULES[rule_id] = (fn, min_instances, statement)
        fn.rule_id = rule_id
        return fn

    return deco


def load_all() -> None:
    from . import disp, order, store, ctrl, table, name, total, lower, query  # noqa: F401


# property -> rule ids (DESIGN.md section 0 / 6)
PROPERTY_RULES: Dict[str, List[str]] = {
    "C01": ["STORE-4", "STORE-5", "STORE-6", "STORE-7", "STORE-8", "CTRL-1", "CTRL-2", "CTRL-5", "CTRL-9", "CTRL-10", "CTRL-11", "STORE-11", "STORE-12", "ORD-3", "CTRL-13", "STORE-14", "STORE-15", "STORE-16", "STORE-19", "STORE-20"],
    "C02": ["STORE-5", "TOTAL-3", "TOTAL-4", "TOTAL-6", "TOTAL-7", "USE-1", "ATTR-1", "QUERY-4", "QUERY-5", "QUERY-6", "LOWER-14", "QUERY-8", "CTRL-13", "STORE-15", "STORE-16", "CTRL-5", "STORE-12", "QUERY-2"],
    "C03": ["CTRL-5", "CTRL-6", "STORE-8", "STORE-12", "DISP-6", "TOTAL-6", "QUERY-4", "QUERY-5", "QUERY-6", "QUERY-7", "QUERY-8", "CTRL-13", "STORE-14", "STORE-15", "STORE-17", "STORE-18", "TOTAL-2", "STORE-6", "STORE-7", "STORE-11"],
    "C04": ["STORE-6", "STORE-7", "STORE-8", "DISP-9", "NAME-3", "NAME-4", "STORE-17"],
    "C05": ["STORE-1", "STORE-2", "STORE-3", "STORE-4", "STORE-11", "STORE-13", "ORD-3", "STORE-14", "STORE-16", "NAME-3"],
    "C06": ["CTRL-1", "CTRL-2", "CTRL-3", "CTRL-4", "CTRL-8", "CTRL-9", "CTRL-10", "CTRL-11", "STORE-5", "CTRL-12", "CTRL-14", "STORE-20", "DISP-12"],
    "C07": ["DISP-5", "DISP-6", "CTRL-5", "CTRL-7", "LOWER-1", "LOWER-2", "LOWER-3", "LOWER-4", "LOWER-6", "LOWER-7", "LOWER-8", "LOWER-9", "LOWER-10", "LOWER-11", "LOWER-12", "LOWER-13", "LOWER-14", "LOWER-15", "STORE-10", "TOTAL-6", "USE-1", "ATTR-1", "CTRL-12", "LOWER-16", "ORD-6", "LOWER-17", "LOWER-19", "DISP-2", "LOWER-20", "STORE-6", "LOWER-21"],
    "C08": ["LOWER-1", "LOWER-2", "LOWER-3", "LOWER-4", "LOWER-6", "LOWER-12", "LOWER-13", "STORE-10", "ORD-6", "LOWER-17", "LOWER-19", "DISP-2", "LOWER-20", "LOWER-21"],
    "C09": ["TABLE-1", "TABLE-2", "TABLE-3", "TABLE-4", "TABLE-5", "TABLE-6", "ORD-5", "ORD-6", "TABLE-7", "TABLE-8"],
    "C10": ["NAME-5", "DISP-6", "LOWER-5", "LOWER-7", "LOWER-8", "LOWER-9", "LOWER-10", "LOWER-11", "LOWER-15", "STORE-13", "CTRL-12", "LOWER-16", "ORD-6", "LOWER-18"],
    "C11": ["DISP-1", "DISP-2", "DISP-3", "DISP-4", "ORD-6", "ORD-7"],
    "C12": ["ORD-1", "ORD-2", "ORD-3", "ORD-5", "ORD-6", "TABLE-8", "ORD-7"],
    "C13": ["QUERY-1", "QUERY-2", "QUERY-3", "QUERY-4", "QUERY-5", "QUERY-6", "QUERY-7", "STORE-12", "TOTAL-4", "TOTAL-6", "TOTAL-7", "QUERY-8", "ORD-6"],
    "C14": ["STORE-3", "STORE-4", "STORE-5", "STORE-9", "CTRL-4", "CTRL-8", "NAME-3", "TOTAL-1", "TOTAL-2", "TOTAL-5", "STORE-11", "STORE-14", "STORE-16", "STORE-19", "CTRL-1", "CTRL-2", "CTRL-9", "CTRL-10"],
    "C15": ["DISP-8", "DISP-9", "ORD-3", "ORD-4", "TOTAL-6", "TOTAL-8", "ATTR-1", "CTRL-12", "DISP-11", "ORD-6", "DISP-12", "CTRL-14"],
    "C16": ["ITER-1", "TOTAL-6", "STORE-6", "ORD-6", "STORE-11"],
    "C17": ["DISP-7", "DISP-10", "ORD-5", "TOTAL-6", "TOTAL-9", "USE-1", "ATTR-1", "INIT-1", "CTRL-12", "ORD-6"],
    "C18": ["NAME-1", "NAME-2", "NAME-3", "NAME-4", "ORD-5", "LOWER-19", "NAME-6"],
}


# (property, rule) -> module name suffixes whose obligations count for that property
# (a rule that scans the whole library is narrowed to the code the property is about)
PROPERTY_SCOPE = {
    ("C13", "ORD-6"): ("fn:SCFG.", "transformations", "scc"),
    ("C16", "ORD-6"): ("fn:SCFG.__iter__", "fn:ConcealedRegionView", "fn:AbstractGraphView"),
    ("C15", "ORD-6"): ("fn:SCFGIO.",),
    ("C11", "ORD-6"): ("ast_transforms",),
    ("C07", "ORD-6"): ("ast_transforms", "fn:SCFG.", "fn:ConcealedRegionView", "transformations"),
    ("C08", "ORD-6"): ("ast_transforms",),
    ("C10", "ORD-6"): ("ast_transforms", "fn:ConcealedRegionView"),
    ("C09", "ORD-6"): ("byte_flow", "flow_info", "utils", "basic_block"),
    ("C17", "ORD-6"): ("rendering", "fn:SCFG.__iter__"),
    ("C06", "CTRL-12"): ("basic_block", "scfg", "transformations"),
    ("C15", "CTRL-12"): ("fn:SCFGIO.", "basic_block"),
    ("C17", "CTRL-12"): ("rendering",),
    ("C10", "CTRL-12"): ("ast_transforms",),
    ("C07", "CTRL-12"): ("ast_transforms", "basic_block"),
    ("C09", "ORD-5"): ("byte_flow", "flow_info", "utils", "basic_block"),
    ("C17", "ORD-5"): ("rendering",),
    ("C18", "ORD-5"): ("scfg", "transformations", "ast_transforms", "flow_info"),
    ("C17", "TOTAL-6"): ("fn:SCFG.__iter__", "fn:ConcealedRegionView", "rendering"),
    ("C15", "TOTAL-6"): ("fn:SCFGIO.",),
    ("C13", "TOTAL-6"): ("fn:SCFG.is_reachable_dfs", "scc", "transformations"),
    ("C16", "TOTAL-6"): ("fn:SCFG.__iter__", "fn:ConcealedRegionView"),
    ("C02", "TOTAL-6"): ("scfg", "transformations", "scc"),
    ("C03", "TOTAL-6"): ("scfg", "transformations", "scc"),
    ("C07", "TOTAL-6"): ("scfg", "transformations", "ast_transforms"),
    ("C02", "USE-1"): ("scfg", "transformations", "scc", "basic_block", "block_names"),
    ("C07", "USE-1"): ("ast_transforms",),
    ("C17", "USE-1"): ("rendering",),
    ("C02", "ATTR-1"): ("scfg", "transformations", "scc", "basic_block", "block_names"),
    ("C07", "ATTR-1"): ("ast_transforms",),
    ("C15", "ATTR-1"): ("fn:SCFGIO.",),
    ("C17", "ATTR-1"): ("rendering",),
}
