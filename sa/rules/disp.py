"""Engine DISP - class-domain evaluation of dispatch chains (DESIGN 5.1)."""
from __future__ import annotations

import ast
from typing import Dict, List, Optional, Set

from .. import astutil as A
from ..domains import chain_arms, dispatch, eval_class_test
from ..model import AnalysisError
from ..oracle import AstHierarchy, oracle
from ..report import Ob, bad, ok, unresolved
from . import rule
from .common import (
    block_classes,
    calls_named,
    find_class_chains,
    instantiated_block_classes,
    is_raise_of,
    kw,
    method_calls,
    prog_is_sub,
    read_through_field_aliases,
    refusing_body,
    strip_cast,
)

SUPPORTED_STMTS = {"Assign", "AugAssign", "Expr", "Return", "Pass", "Break", "Continue", "If", "While", "For"}
STMT_LIST_FIELDS = {"body", "orelse", "finalbody", "handlers", "cases"}
FRONT = "AST2SCFGTransformer"
BACK = "SCFG2ASTTransformer"


def _dispatcher(ctx):
    """the statement dispatcher: by name, else by role (method of the front-end
    transformer whose body is an isinstance chain over ast.stmt classes)"""
    prog = ctx.prog
    c = prog.cls(FRONT)
    hier = AstHierarchy(oracle())
    cands = []
    for m in c.methods.values():
        chains = find_class_chains(m.node)
        for subj, arms in chains:
            names = set()
            for a in arms:
                if a.test is not None:
                    for n in ast.walk(a.test):
                        d = A.dotted(n) if isinstance(n, ast.Attribute) else None
                        if d and d.startswith("ast.") and hier.is_sub(d, "stmt") and d != "ast.stmt":
                            names.add(d)
            params = [p.arg for p in m.params if p.arg != "self"]
            if len(names) >= 3 and subj in params:
                cands.append((m, subj, arms, len(names)))
    if not cands:
        raise AnalysisError(f"no statement dispatcher (isinstance chain over ast.stmt classes) found in {FRONT}")
    by_name = [c_ for c_ in cands if c_[0].name == "handle_ast_node"]
    m, subj, arms, _ = (by_name or sorted(cands, key=lambda x: -x[3]))[0]
    return m, subj, arms, hier


@rule("DISP-1", 20, "every ast.stmt class outside the supported set reaches an arm of the statement dispatcher that only raises NotImplementedError")
def disp1(ctx) -> List[Ob]:
    m, subj, arms, hier0 = _dispatcher(ctx)
    out: List[Ob] = []
    from ..oracle import interpreters

    hiers = [("", hier0)]
    if ctx.tier == "thorough":
        for exe in interpreters()[1:]:
            d = oracle(exe)
            hiers.append((f"py{d['version'][0]}.{d['version'][1]} ", AstHierarchy(d)))
    table = {}
    for tag, hier in hiers:
        universe = hier.concrete_subclasses("stmt")
        if len(universe) < 20:
            raise AnalysisError("ast.stmt universe implausibly small")
        for K in universe:
            out.append(_disp1_class(ctx, m, subj, arms, hier, tag, K, table))
    ctx.stats["DISP-1.table"] = table
    return out


def _disp1_class(ctx, m, subj, arms, hier, tag, K, table) -> Ob:
    from .. import domains as _dom

    _dom.FIELDS_OF = lambda k: hier.fields(k) if hier.known(k) else None
    try:
        reached, certain = dispatch(arms, subj, K, hier.is_sub)
    finally:
        _dom.FIELDS_OF = None
    table[tag + K] = [a.index for a in reached]
    key = f"{tag}stmt class {K}"
    where = ctx.where(m, reached[0].node if reached else m.node)
    if K in SUPPORTED_STMTS:
        return ok("DISP-1", m.qualname, key, where, f"supported class reaches arm {table[tag + K]}", nontrivial=False)
    if not certain:
        return unresolved("DISP-1", m.qualname, key, where, f"dispatch of ast.{K} depends on a test the evaluator cannot read (arms {table[tag + K]})")
    arm = reached[0]
    if refusing_body(arm.body):
        return ok("DISP-1", m.qualname, key, where, f"ast.{K} -> arm {arm.index}: raise NotImplementedError")
    what = A.unparse(arm.test)[:70] if arm.test is not None else "else"
    return bad("DISP-1", m.qualname, key, where,
               f"unsupported statement class ast.{K} reaches arm {arm.index} ({what}) which does not refuse it with NotImplementedError",
               [f"arm body: {(A.unparse(ast.Module(arm.body, [])).splitlines() or ['<empty>'])[0][:100]}"])


def _front_methods(ctx):
    return list(ctx.prog.cls(FRONT).methods.values())


@rule("DISP-2", 8, "every statement list of an ast node is lowered only through the dispatcher; only freshly built or expression nodes are appended outside it")
def disp2(ctx) -> List[Ob]:
    out: List[Ob] = []
    disp_fn, _, _, hier = _dispatcher(ctx)
    typer = ctx.typer
    codegen_names = set()
    # the function(s) that iterate a list and hand each element to the dispatcher
    for m in _front_methods(ctx):
        for n in A.walk_no_nested(m.node):
            if isinstance(n, ast.For):
                for c in method_calls(n, disp_fn.name):
                    if c.args and isinstance(c.args[0], ast.Name) and isinstance(n.target, ast.Name) and c.args[0].id == n.target.id:
                        codegen_names.add(m.name)
    if not codegen_names:
        raise AnalysisError("no list-lowering loop around the dispatcher found")
    for m in _front_methods(ctx):
        if m.name not in codegen_names:
            continue
        cfg = ctx.cfg(m)
        params = [p.arg for p in m.params if p.arg != "self"]
        for lp in [n for n in A.walk_no_nested(m.node) if isinstance(n, ast.For)]:
            calls = [c for c in method_calls(lp, disp_fn.name) if c.args and isinstance(c.args[0], ast.Name) and isinstance(lp.target, ast.Name) and c.args[0].id == lp.target.id]
            if not calls:
                continue
            key = f"{m.name}: every element is dispatched"
            where = ctx.where(m, lp)
            probs = []
            if not (isinstance(lp.iter, ast.Name) and lp.iter.id in params):
                probs.append(f"iterates {A.unparse(lp.iter)[:40]}, not the whole list it was given")
            hdr = cfg.node_of(lp)
            cn = cfg.node_of(calls[0])
            first = [z for z in hdr.succ if z.stmt is not None and any(z.stmt is b or any(a is b for a in A.ancestors(z.stmt)) for b in lp.body)]
            # every path through the body reaches the dispatch call; no way out of the loop other than exhaustion
            skip = any((hdr in cfg.reachable(f, avoid=lambda z: z is cn, include_src=True) and f is not cn) for f in first)
            if skip:
                probs.append("an element can be skipped without being dispatched")
            leaves = [n for n in A.walk_no_nested(lp) if isinstance(n, (ast.Break, ast.Return))]
            if leaves:
                probs.append(f"the loop can stop early (line {A.lineno(leaves[0])}): the remaining statements are never dispatched, so unsupported ones are dropped instead of refused")
            if probs:
                out.append(bad("DISP-2", m.qualname, key, where, "; ".join(probs)))
            else:
                out.append(ok("DISP-2", m.qualname, key, where, "the loop hands every element of its argument to the dispatcher"))
    for m in _front_methods(ctx):
        env = typer.env(m)
        for n in A.walk_no_nested(m.node):
            if not (isinstance(n, ast.Attribute) and n.attr in STMT_LIST_FIELDS and isinstance(n.ctx, ast.Load)):
                continue
            bt = typer.type_of(n.value, env, m)
            base_txt = A.unparse(n.value)
            is_ast = any(t[0] == "ext" and str(t[1]).startswith("ast.") for t in ([bt] if bt[0] != "union" else bt[1]))
            is_parse = isinstance(n.value, ast.Call) and (A.dotted(n.value.func) or "") == "ast.parse"
            if not (is_ast or is_parse):
                continue
            par = A.parent(n)
            key = A.alpha_key(A.enclosing_stmt(n) or n)
            where = ctx.where(m, n)
            use = _classify_list_use(n, par, codegen_names)
            if use == "lowered":
                out.append(ok("DISP-2", m.qualname, key, where, f"{base_txt}.{n.attr} handed to the list-lowering function"))
            elif use == "inspect":
                out.append(ok("DISP-2", m.qualname, key, where, f"{base_txt}.{n.attr} only inspected (length / element test)", nontrivial=False))
            else:
                out.append(bad("DISP-2", m.qualname, key, where, f"statement list {base_txt}.{n.attr} is used without going through the dispatcher ({use})"))
    # appends to .instructions outside the dispatcher
    for m in _front_methods(ctx):
        if m == disp_fn:
            continue
        cfg = ctx.cfg(m)
        for c in method_calls(m.node, "append") + method_calls(m.node, "extend") + method_calls(m.node, "insert"):
            recv = c.func.value  # type: ignore[attr-defined]
            if not (isinstance(recv, ast.Attribute) and recv.attr == "instructions"):
                continue
            arg = c.args[-1] if c.args else None
            key = A.alpha_key(c)
            where = ctx.where(m, c)
            prov = _node_provenance(ctx, m, cfg, arg)
            if prov in ("constructed", "expression"):
                out.append(ok("DISP-2", m.qualname, key, where, f"appends a {prov} node"))
            else:
                out.append(bad("DISP-2", m.qualname, key, where, f"appends {A.unparse(arg) if arg is not None else '?'} ({prov}) to a block outside the dispatcher"))
    return out


def _classify_list_use(n: ast.AST, par: Optional[ast.AST], codegen_names: Set[str]) -> str:
    if isinstance(par, ast.Call) and n in par.args and isinstance(par.func, ast.Attribute) and par.func.attr in codegen_names:
        return "lowered"
    if isinstance(par, ast.Subscript) and par.value is n:
        gp = A.parent(par)
        # element read inside a test (isinstance(node.body[-1], ...)) is inspection
        if isinstance(gp, ast.Call) and isinstance(gp.func, ast.Name) and gp.func.id in ("isinstance", "type"):
            return "inspect"
        if isinstance(gp, (ast.Compare, ast.UnaryOp, ast.BoolOp, ast.If)):
            return "inspect"
        return "element taken"
    if isinstance(par, ast.Call) and isinstance(par.func, ast.Name) and par.func.id in ("len", "bool"):
        return "inspect"
    if isinstance(par, (ast.UnaryOp, ast.BoolOp, ast.If, ast.While, ast.IfExp)) and getattr(par, "test", getattr(par, "operand", None)) is n:
        return "inspect"
    if isinstance(par, ast.Attribute) and par.value is n:
        return f"method .{par.attr} on the list"
    if isinstance(par, (ast.For, ast.comprehension)) and par.iter is n:
        return "iterated directly"
    if isinstance(par, ast.Call):
        return f"passed to {A.unparse(par.func)}"
    return type(par).__name__


def _node_provenance(ctx, m, cfg, arg: Optional[ast.AST], depth: int = 0) -> str:
    if arg is None:
        return "unknown"
    if isinstance(arg, ast.Call):
        d = A.dotted(arg.func) or ""
        if d.startswith("ast.") and d.split(".")[-1][:1].isupper():
            return "constructed"
        if d.startswith("self.") and d.split(".")[-1] in ("handle_expression", "handle_bool_op"):
            return "expression"
        return f"result of {d}"
    if isinstance(arg, ast.Name) and depth < 3:
        defs = cfg.reaching_defs(arg)
        provs = set()
        for d in defs:
            if d is cfg.entry:
                provs.add("parameter")
            elif isinstance(d.stmt, ast.Assign):
                provs.add(_node_provenance(ctx, m, cfg, d.stmt.value, depth + 1))
            else:
                provs.add("bound by " + type(d.stmt).__name__)
        if len(provs) == 1:
            return provs.pop()
        return "mixed: " + ", ".join(sorted(provs))
    return "a " + type(arg).__name__


@rule("DISP-3", 1, "a function definition is lowered only from outside the dispatcher (never re-entrantly)")
def disp3(ctx) -> List[Ob]:
    out: List[Ob] = []
    disp_fn, subj, arms, hier = _dispatcher(ctx)
    cg = ctx.cg
    reach = cg.reachable_from([disp_fn])
    # functions that lower the body of a FunctionDef parameter
    accepters = []
    for m in _front_methods(ctx):
        for p in m.params:
            if p.annotation is not None and (A.dotted(p.annotation) or "").endswith("FunctionDef"):
                accepters.append(m)
    for K in ("FunctionDef", "AsyncFunctionDef", "ClassDef"):
        reached, certain = dispatch(arms, subj, K, hier.is_sub)
        key = f"dispatcher arm for {K}"
        where = ctx.where(disp_fn, reached[0].node if reached else disp_fn.node)
        if certain and refusing_body(reached[0].body):
            out.append(ok("DISP-3", disp_fn.qualname, key, where, f"ast.{K} is refused at every depth"))
        elif not certain:
            out.append(unresolved("DISP-3", disp_fn.qualname, key, where, "cannot evaluate the dispatcher for definitions"))
        else:
            out.append(bad("DISP-3", disp_fn.qualname, key, where,
                           f"the dispatcher accepts ast.{K}: a nested definition is lowered in place (inlined) instead of being refused",
                           [f"arm {reached[0].index}: {A.unparse(reached[0].test)[:80] if reached[0].test is not None else 'else'}"]))
    for acc in accepters:
        for site in cg.call_sites_of(acc):
            key = f"call of {acc.name} from {site.caller.qualname}"
            where = ctx.where(site.caller, site.node)
            if site.caller in reach:
                p = cg.path(disp_fn, site.caller) or []
                out.append(bad("DISP-3", site.caller.qualname, key, where,
                               f"{acc.qualname} is called on a path that re-enters the dispatcher: nested definitions are lowered",
                               ["cycle: " + " -> ".join(f.qualname for f in p)]))
            else:
                out.append(ok("DISP-3", site.caller.qualname, key, where, f"{acc.qualname} called from outside the dispatcher's cycle"))
    return out


@rule("DISP-4", 2, "lowering starts only after a check that the input is a function definition; other input types are refused")
def disp4(ctx) -> List[Ob]:
    out: List[Ob] = []
    prog = ctx.prog
    disp_fn, _, _, _ = _dispatcher(ctx)
    t = prog.cls(FRONT).find_method("transform")
    if t is None:
        raise AnalysisError("AST2SCFGTransformer.transform not found")
    cfg = ctx.cfg(t)
    lowering = {disp_fn.name, "codegen", "handle_function_def"}
    calls = [c for c in A.walk_no_nested(t.node) if isinstance(c, ast.Call) and isinstance(c.func, ast.Attribute) and c.func.attr in lowering]
    if not calls:
        raise AnalysisError("no lowering call found in transform()")

    def is_guard(n) -> bool:
        s = n.stmt
        if isinstance(s, ast.Assert):
            return _is_fdef_test(s.test)
        if n.kind == "if" and isinstance(s.test, ast.UnaryOp) and isinstance(s.test.op, ast.Not) and _is_fdef_test(s.test.operand):
            return bool(s.body) and isinstance(s.body[-1], ast.Raise)
        return False

    for c in calls:
        n = cfg.node_of(c)
        key = A.alpha_key(c)
        where = ctx.where(t, c)
        guards = [g for g in cfg.nodes if is_guard(g) and cfg.dominates(g, n) and g is not n]
        if guards:
            out.append(ok("DISP-4", t.qualname, key, where, f"dominated by '{A.unparse(guards[0].stmt).splitlines()[0][:70]}'"))
        else:
            out.append(bad("DISP-4", t.qualname, key, where, "lowering starts without a dominating check that the first node is an ast.FunctionDef"))
    # input normalisation refuses other input types
    u = prog.find_function("unparse_code")
    if u is None:
        raise AnalysisError("unparse_code not found")
    # what it hands on is the module's top-level statement list (or the list it was given), unfiltered
    uparams = [p_.arg for p_ in u.params]
    ucfg = ctx.cfg(u)
    for r_ in [n for n in A.walk_no_nested(u.node) if isinstance(n, ast.Return) and n.value is not None]:
        srcs = []
        from .common import strip_cast as _sc

        rv_ = _sc(r_.value)
        if isinstance(rv_, ast.Name):
            for d_ in ucfg.reaching_defs(r_, rv_.id):
                if d_.stmt is not None and isinstance(d_.stmt, ast.Assign):
                    srcs.append(_sc(d_.stmt.value))
        else:
            srcs.append(rv_)
        for sv in srcs:
            key = "normalised input " + A.alpha_key(sv)
            okv = (isinstance(sv, ast.Attribute) and sv.attr == "body" and isinstance(sv.value, ast.Call) and (A.dotted(sv.value.func) or "") == "ast.parse") or (isinstance(sv, ast.Name) and sv.id in uparams)
            if okv:
                out.append(ok("DISP-4", u.qualname, key, ctx.where(u, sv), "the module's top-level statement list, unfiltered", nontrivial=False))
            else:
                out.append(bad("DISP-4", u.qualname, key, ctx.where(u, sv), f"the input is normalised to {A.unparse(sv)[:60]}, not to the top-level statement list: the 'first node is a function definition' check no longer refers to the input's first statement"))
    ifs = [s for s in A.body_without_docstring(u.node) if isinstance(s, ast.If)]
    key = "input normalisation: final else"
    if ifs:
        arms = chain_arms(ifs[0])
        last = arms[-1]
        if last.test is None and refusing_body(last.body):
            out.append(ok("DISP-4", u.qualname, key, ctx.where(u, ifs[0]), "input of another type raises NotImplementedError"))
        else:
            out.append(bad("DISP-4", u.qualname, key, ctx.where(u, ifs[0]), "input that is neither source, callable nor AST list is not refused with NotImplementedError"))
    else:
        out.append(unresolved("DISP-4", u.qualname, key, ctx.where(u), "no type dispatch found in unparse_code"))
    return out


def _is_fdef_test(test: ast.AST) -> bool:
    if isinstance(test, ast.BoolOp) and isinstance(test.op, ast.And):
        return any(_is_fdef_test(v) for v in test.values)
    if isinstance(test, ast.Call) and isinstance(test.func, ast.Name) and test.func.id == "isinstance" and len(test.args) == 2:
        d = A.dotted(test.args[1]) or ""
        return d.endswith("FunctionDef") and not d.endswith("AsyncFunctionDef")
    return False


# ----------------------------------------------------------------- DISP-5


def _codegen(ctx):
    c = ctx.prog.cls(BACK)
    m = c.find_method("codegen")
    if m is None:
        raise AnalysisError("SCFG2ASTTransformer.codegen not found")
    return m


@rule("DISP-5", 20, "the branch test is consumed as produced: a bare expression of any class is used as is, an ast.Expr statement is unwrapped")
def disp5(ctx) -> List[Ob]:
    out: List[Ob] = []
    hier = AstHierarchy(oracle())
    cg_fn = _codegen(ctx)
    # ---- producer side: two-target blocks in the front end
    producers = []
    front = ctx.prog.cls(FRONT)
    for m in front.methods.values():
        cfg = ctx.cfg(m)
        for c in method_calls(m.node, "set_jump_targets"):
            if len(c.args) != 2:
                continue
            # the last node placed in the block before the two targets are set
            stmt = A.enclosing_stmt(c)
            body = _containing_list(stmt)
            prev = None
            # look backwards in the statement list; when the call sits in an arm of an if-statement that only
            # chooses the order of the two targets, go on before that if-statement
            hops = 0
            while body is not None and prev is None and hops < 3:
                i = body.index(stmt)
                found_any = False
                for s in reversed(body[:i]):
                    if isinstance(s, ast.Expr) and isinstance(s.value, ast.Call):
                        f = s.value.func
                        if isinstance(f, ast.Attribute) and ((f.attr == "append" and isinstance(f.value, ast.Attribute) and f.value.attr == "instructions") or f.attr == "codegen"):
                            found_any = True
                            break
                if found_any:
                    break
                par_ = A.parent(stmt)
                if not isinstance(par_, ast.If):
                    break
                stmt, body = par_, _containing_list(par_)
                hops += 1
            if body is not None:
                i = body.index(stmt)
                for s in reversed(body[:i]):
                    if isinstance(s, ast.Expr) and isinstance(s.value, ast.Call):
                        f = s.value.func
                        if isinstance(f, ast.Attribute) and f.attr == "append" and isinstance(f.value, ast.Attribute) and f.value.attr == "instructions":
                            prev = ("append", s.value.args[0])
                            break
                        if isinstance(f, ast.Attribute) and f.attr == "codegen":
                            prev = ("codegen", s.value.args[0] if s.value.args else None)
                            break
            producers.append((m, c, prev))
    prod_classes: Set[str] = set()
    for m, c, prev in producers:
        key = A.alpha_key(c) + " <- " + (A.alpha_key(prev[1]) if prev and prev[1] is not None else "?")
        where = ctx.where(m, c)
        if prev is None:
            out.append(unresolved("DISP-5", m.qualname, key, where, "cannot find the instruction that ends the two-target block"))
            continue
        kind, arg = prev
        if kind == "codegen":
            cls = {"Expr"}
            what = "an expression statement lowered through the dispatcher"
        else:
            p = _node_provenance(ctx, m, ctx.cfg(m), arg)
            if p == "expression":
                cls = set(hier.concrete_subclasses("expr"))
                what = "the result of handle_expression: any expression class (it returns its argument in the base case)"
            elif p == "constructed":
                cls = {(A.dotted(arg.func) or "ast.?").split(".")[-1]} if isinstance(arg, ast.Call) else set()
                what = f"a constructed ast.{sorted(cls)[0] if cls else '?'}"
            else:
                out.append(unresolved("DISP-5", m.qualname, key, where, f"branch test of unknown provenance ({p})"))
                continue
        prod_classes |= cls
        out.append(ok("DISP-5", m.qualname, key, where, f"producer: block ends with {what}", nontrivial=False))
    if not producers:
        raise AnalysisError("no two-target producer site found in the front end")
    # ---- consumer side
    ifs = calls_named(cg_fn.node, "If")
    ifs = [c for c in ifs if (A.dotted(c.func) or "") == "ast.If"]
    consumer = None
    for c in ifs:
        t = kw(c, "test", 0)
        if isinstance(t, ast.Name):
            cfg = ctx.cfg(cg_fn)
            defs = [d for d in cfg.reaching_defs(c, t.id) if d.stmt is not None]
            if defs and all(isinstance(d.stmt, ast.Assign) for d in defs):
                from .common import expand_aliases

                srcs = [expand_aliases(ctx, cg_fn, strip_cast(d.stmt.value)) for d in defs]
                if any("tree" in A.unparse(s) for s in srcs):
                    consumer = (c, t.id, defs)
                    break
        elif t is not None and "tree" in A.unparse(t):
            consumer = (c, None, [])
    if consumer is None:
        raise AnalysisError("no ast.If(test, ...) built from the block's last instruction found in the code generator")
    call, var, defs = consumer
    from .common import expand_aliases

    universe = sorted(prod_classes | {"Expr"})
    if var is None:
        # test used directly: as-is for every class
        mapping = {K: "as-is" for K in universe}
        subject = A.unparse(strip_cast(kw(call, "test", 0)))
        chain = None
    else:
        # chain that selects among the definitions
        stmts = [d.stmt for d in defs]
        chain_if = None
        for anc in A.ancestors(stmts[0]):
            if isinstance(anc, ast.If) and all(any(a is anc for a in A.ancestors(s)) for s in stmts):
                chain_if = anc
                break
        if chain_if is None:
            if len(stmts) == 1:
                mapping = {K: _test_shape(expand_aliases(ctx, cg_fn, stmts[0].value)) for K in universe}
                subject = ""
            else:
                raise AnalysisError("cannot locate the test that selects how the branch test is unwrapped")
        else:
            arms = chain_arms(chain_if)
            from .common import class_test_subject

            subject = class_test_subject(chain_if.test) or ""
            mapping = {}
            for K in universe:
                reached, certain = dispatch(arms, subject, K, hier.is_sub)
                if not certain:
                    mapping[K] = "unknown"
                    continue
                asg = [s for s in A.walk_no_nested(ast.Module(reached[0].body, [])) if isinstance(s, ast.Assign) and any(isinstance(t, ast.Name) and t.id == var for t in s.targets)]
                mapping[K] = _test_shape(expand_aliases(ctx, cg_fn, asg[0].value)) if asg else "unknown"
    where = ctx.where(cg_fn, call)
    for K in universe:
        want = "unwrap" if K == "Expr" else "as-is"
        got = mapping.get(K, "unknown")
        key = f"branch test class {K}"
        if got == want:
            out.append(ok("DISP-5", cg_fn.qualname, key, where, f"ast.{K}: {got}"))
        elif got == "unknown":
            out.append(unresolved("DISP-5", cg_fn.qualname, key, where, f"cannot tell how a branch test of class ast.{K} is consumed"))
        else:
            fields = hier.fields(K)
            eff = ("is replaced by its '.value' sub-node" if "value" in fields else "raises AttributeError (no '.value')") if got == "unwrap" else "is used as the test although it is a statement"
            out.append(bad("DISP-5", cg_fn.qualname, key, where, f"a branch test of class ast.{K} {eff}: the front end emits it {want}, the generator treats it {got}"))
    return out


def _test_shape(e: ast.AST) -> str:
    e = strip_cast(e)
    txt = A.unparse(e)
    if isinstance(e, ast.Attribute) and e.attr == "value" and "tree" in A.unparse(strip_cast(e.value)):
        return "unwrap"
    if isinstance(e, ast.Subscript) and "tree" in txt:
        return "as-is"
    return "unknown"


def _containing_list(stmt: Optional[ast.AST]):
    if stmt is None:
        return None
    par = A.parent(stmt)
    if par is None:
        return None
    for fld in ("body", "orelse", "finalbody"):
        seq = getattr(par, fld, None)
        if isinstance(seq, list) and stmt in seq:
            return seq
    return None


# ----------------------------------------------------------------- DISP-6


def _named_classes(test: Optional[ast.AST]) -> Set[str]:
    out: Set[str] = set()
    if test is None:
        return out
    for n in ast.walk(test):
        if isinstance(n, (ast.Name, ast.Attribute)):
            d = A.dotted(n)
            if d:
                out.add(d.split(".")[-1])
    return out


def _type_directed_chain(ctx, fn, subject_param: str, rule_id: str, universe, own_fields_of, effect_of=None) -> List[Ob]:
    """shared by DISP-6 / DISP-7 / DISP-8: every class of the universe reaches
    exactly one arm, and that arm is the one written for it: no arm that names
    the class (or a nearer ancestor) is shadowed, and a class with own data
    fields does not fall into an arm written for an ancestor."""
    out: List[Ob] = []
    prog = ctx.prog
    is_sub = prog_is_sub(prog)
    chains = find_class_chains(fn.node, subject_param)
    if not chains:
        raise AnalysisError(f"no class dispatch on '{subject_param}' found in {fn.qualname}")
    subj, arms = chains[0]
    for K in universe:
        reached, certain = dispatch(arms, subj, K.name, is_sub)
        key = f"class {K.name}"
        where = ctx.where(fn, reached[0].node if reached else fn.node)
        if not reached:
            out.append(bad(rule_id, fn.qualname, key, where, f"{K.name} reaches no arm at all (falls off the chain)"))
            continue
        # among possibly reached arms, consider the first: opaque conjuncts (e.g. len(...) == 2) are
        # payload conditions, not class tests, so the class-level arm is the first reached
        arm = reached[0]
        named_here = _named_classes(arm.test) & {c.name for c in prog.all_classes()}
        later_exact = [a for a in arms[arm.index + 1:] if K.name in _named_classes(a.test)]
        if arm.test is None or (len(arm.body) >= 1 and refusing_body(arm.body)):
            out.append(ok(rule_id, fn.qualname, key, where, f"{K.name} -> arm {arm.index}: refused / default arm"))
            continue
        if K.name in named_here:
            out.append(ok(rule_id, fn.qualname, key, where, f"{K.name} -> arm {arm.index} (names it)"))
            continue
        anc = [c for c in named_here if is_sub(K.name, c)]
        if later_exact:
            out.append(bad(rule_id, fn.qualname, key, where,
                           f"{K.name} falls into arm {arm.index} ({A.unparse(arm.test)[:60]}) written for {sorted(anc)}; the arm that names {K.name} (arm {later_exact[0].index}) is shadowed"))
            continue
        nearer = []
        for a in arms[arm.index + 1:]:
            for c in _named_classes(a.test) & {c.name for c in prog.all_classes()}:
                if is_sub(K.name, c) and all(is_sub(c, x) and c != x for x in anc):
                    nearer.append((a.index, c))
        if nearer:
            out.append(bad(rule_id, fn.qualname, key, where,
                           f"{K.name} falls into arm {arm.index} written for {sorted(anc)} although arm {nearer[0][0]} handles its nearer ancestor {nearer[0][1]}"))
            continue
        extra = own_fields_of(K, anc)
        if extra:
            out.append(bad(rule_id, fn.qualname, key, where,
                           f"{K.name} falls into arm {arm.index} written for {sorted(anc)} which knows nothing of its fields {sorted(extra)}"))
        else:
            out.append(ok(rule_id, fn.qualname, key, where, f"{K.name} -> arm {arm.index} via ancestor {sorted(anc)} (no own fields)"))
    return out


def _extra_fields(prog):
    def f(K, anc_names):
        have = set()
        for a in anc_names:
            c = prog.classes.get(a)
            if c is not None:
                have |= {x.name for x in c.fields()}
        if not anc_names:
            have = {x.name for x in prog.cls("BasicBlock").fields()}
        return {x.name for x in K.fields()} - have

    return f


@rule("DISP-6", 10, "the code generator is total-or-refusing over the block classes the library builds and the region kinds it assigns")
def disp6(ctx) -> List[Ob]:
    prog = ctx.prog
    fn = _codegen(ctx)
    inst = instantiated_block_classes(prog, ctx.typer)
    universe = [c for c in block_classes(prog) if c.name in inst or c.name == "PythonASTBlock"]
    params = [p.arg for p in fn.params if p.arg != "self"]
    if not params:
        raise AnalysisError("codegen has no block parameter")
    out = _type_directed_chain(ctx, fn, params[0], "DISP-6", universe, _extra_fields(prog))
    ctx.stats["DISP-6.instantiated"] = {k: v[:3] for k, v in inst.items()}
    # region kinds: producers vs. the kind dispatch
    kinds = region_kinds_produced(ctx)
    handled: Dict[str, str] = {}
    chains = find_class_chains(fn.node, params[0])
    subj, arms = chains[0]
    def _kind_test(t: ast.AST, kind: str):
        """truth of a test over `<block>.kind` for one kind; None when the test reads something else"""
        if isinstance(t, ast.UnaryOp) and isinstance(t.op, ast.Not):
            v = _kind_test(t.operand, kind)
            return None if v is None else not v
        if isinstance(t, ast.BoolOp):
            vs = [_kind_test(x, kind) for x in t.values]
            if isinstance(t.op, ast.And):
                return False if False in vs else (None if None in vs else True)
            return True if True in vs else (None if None in vs else False)
        if isinstance(t, ast.Compare) and len(t.ops) == 1 and ((isinstance(t.left, ast.Attribute) and t.left.attr == "kind") or (isinstance(t.left, ast.Name) and t.left.id in kind_aliases)):
            r = t.comparators[0]
            if isinstance(t.ops[0], (ast.Eq, ast.NotEq)) and isinstance(r, ast.Constant):
                v = r.value == kind
                return v if isinstance(t.ops[0], ast.Eq) else not v
            if isinstance(t.ops[0], (ast.In, ast.NotIn)) and isinstance(r, (ast.Tuple, ast.List, ast.Set)) and all(isinstance(e_, ast.Constant) for e_ in r.elts):
                v = kind in [e_.value for e_ in r.elts]
                return v if isinstance(t.ops[0], ast.In) else not v
        return None

    # locals that name the kind (`kind = region.kind`)
    kind_aliases = {a_.targets[0].id for a_ in A.walk_no_nested(fn.node) if isinstance(a_, ast.Assign) and len(a_.targets) == 1 and isinstance(a_.targets[0], ast.Name) and isinstance(a_.value, ast.Attribute) and a_.value.attr == "kind"}

    def _run_kind(stmts, kind: str) -> str:
        """'refused' when a run of the arm for this kind reaches a refusing statement before anything else
        can end it, 'handled' otherwise (abstract run over the tests on `.kind`; other tests take both ways)"""
        for st in stmts:
            if isinstance(st, ast.Raise):
                return "refused" if refusing_body([st]) else "handled"
            if isinstance(st, ast.Return):
                return "handled"
            if isinstance(st, ast.If):
                v = _kind_test(st.test, kind)
                if v is True:
                    r = _run_kind(st.body, kind)
                    if r != "fall":
                        return r
                elif v is False:
                    r = _run_kind(st.orelse, kind)
                    if r != "fall":
                        return r
                else:
                    rb, ro = _run_kind(st.body, kind), _run_kind(st.orelse, kind)
                    if rb == ro and rb != "fall":
                        return rb
                    if "refused" in (rb, ro) and (".kind" in A.unparse(st.test) or A.names_in(st.test) & kind_aliases):
                        return "refused"
        return "fall"

    for arm in arms:
        if arm.test is not None and "RegionBlock" in _named_classes(arm.test):
            mentioned = {c.value for n in A.walk_no_nested(ast.Module(arm.body, [])) if isinstance(n, ast.If) and (".kind" in A.unparse(n.test) or A.names_in(n.test) & kind_aliases) for c in ast.walk(n.test) if isinstance(c, ast.Constant) and isinstance(c.value, str)}
            for kind_ in set(kinds) | mentioned:
                if kind_ in mentioned and _run_kind(arm.body, kind_) != "refused":
                    handled[kind_] = "abstract run of the region arm over the tests on .kind"
    for kind, sites in sorted(kinds.items()):
        key = f"region kind '{kind}'"
        where = sites[0]
        if kind == "meta":
            out.append(ok("DISP-6", fn.qualname, key, where, "the meta region is the root: only its sub-graph is walked", nontrivial=False))
        elif kind in handled:
            out.append(ok("DISP-6", fn.qualname, key, where, f"kind '{kind}' handled by ({handled[kind]})"))
        else:
            out.append(bad("DISP-6", fn.qualname, key, where, f"regions of kind '{kind}' are created ({sites[0]}) but the code generator has no arm for that kind"))
    return out


def region_kinds_produced(ctx) -> Dict[str, List[str]]:
    """constant kinds given to extract_region / RegionBlock(kind=...) -> sites"""
    prog = ctx.prog
    out: Dict[str, List[str]] = {}
    er = prog.find_function("extract_region")
    for fn in prog.functions:
        for c in A.walk_no_nested(fn.node):
            if not isinstance(c, ast.Call):
                continue
            d = (A.dotted(c.func) or "").split(".")[-1]
            val = None
            if d == "extract_region" and er is not None:
                names = [p.arg for p in er.params]
                idx = names.index("region_kind") if "region_kind" in names else 2
                val = kw(c, "region_kind", idx)
            elif d == "RegionBlock":
                val = kw(c, "kind")
            if val is not None and isinstance(val, ast.Constant) and isinstance(val.value, str):
                out.setdefault(val.value, []).append(ctx.where(fn, c))
    return out


# ----------------------------------------------------------------- DISP-7


RENDER_REQUIRED = {
    "SyntheticAssignment": {"variable_assignment"},
    "SyntheticBranch": {"variable", "branch_value_table"},
    "RegionBlock": {"subregion"},
    "PythonASTBlock": {"tree"},
}


def _type_or_name_test(cj: ast.AST, fld: str, probe: str) -> bool:
    """a guard conjunct that cannot drop the payload of a block of the dispatched class: a test of the
    block's type, of the block's name, or of the payload field itself (`if block.jump_targets:`)"""
    if isinstance(cj, ast.UnaryOp) and isinstance(cj.op, ast.Not):
        return _type_or_name_test(cj.operand, fld, probe)
    if isinstance(cj, ast.BoolOp):
        return all(_type_or_name_test(v, fld, probe) for v in cj.values)
    for n in ast.walk(cj):
        if isinstance(n, ast.Call) and isinstance(n.func, ast.Name) and n.func.id in ("isinstance", "type", "issubclass"):
            return True
    attrs = [n for n in ast.walk(cj) if isinstance(n, ast.Attribute)]
    if any(a.attr in (fld, probe) for a in attrs):
        return True
    roots = set()
    for n in ast.walk(cj):
        if isinstance(n, ast.Name):
            roots.add(n.id)
    return roots <= {"name", "str", "len", "True", "False", "None"} and bool(roots & {"name"})


@rule("DISP-7", 12,"render dispatch is type-directed; each handler's label reads the payload fields of its class; both edge tuples are drawn, dashed only for back edges")
def disp7(ctx) -> List[Ob]:
    prog = ctx.prog
    base = prog.cls("BaseRenderer")
    rb = base.find_method("render_block")
    if rb is None:
        raise AnalysisError("BaseRenderer.render_block not found")
    params = [p.arg for p in rb.params if p.arg != "self"]
    subject = params[-1]
    universe = block_classes(prog)
    out = _type_directed_chain(ctx, rb, subject, "DISP-7", universe, _extra_fields(prog))
    # handler reached per class, and its reads
    is_sub = prog_is_sub(prog)
    chains = find_class_chains(rb.node, subject)
    subj, arms = chains[0]
    renderers = [c for c in prog.subclasses(base, strict=True)]
    for K in universe:
        reached, _ = dispatch(arms, subj, K.name, is_sub)
        if not reached:
            continue
        arm = reached[0]
        calls = [c for c in A.walk_no_nested(ast.Module(arm.body, [])) if isinstance(c, ast.Call) and isinstance(c.func, ast.Attribute) and isinstance(c.func.value, ast.Name) and c.func.value.id == "self"]
        req = set()
        for cname, fields in RENDER_REQUIRED.items():
            if is_sub(K.name, cname):
                req |= fields
        bb_ = prog.cls("BasicBlock")
        below = set()
        for c_ in K.mro():
            if c_ is bb_ or not c_.is_subclass_of(bb_):
                continue
            below |= {f_.name for f_ in c_.own_fields} | {m_ for m_ in c_.methods if not m_.startswith("__") and not m_.startswith("replace_")}
        for r in renderers:
            for c in calls:
                h = r.find_method(c.func.attr)
                if h is None or h.cls is base and not A.body_without_docstring(h.node):
                    continue
                key = f"{r.name}: label of {K.name}"
                where = ctx.where(h)
                hparams = [p.arg for p in h.params if p.arg != "self"]
                bp = hparams[-1] if hparams else "block"
                reads = {n.attr for n in A.walk_no_nested(h.node) if isinstance(n, ast.Attribute) and isinstance(n.value, ast.Name) and n.value.id == bp}
                eff_ = _effective_nodes(r, h)
                for nd_ in eff_[1:]:
                    # a delegate reads the block through its own parameter names
                    pn_ = {a_.arg for a_ in nd_.args.args} - {"self", "digraph", "name"}
                    reads |= {n.attr for n in A.walk_no_nested(nd_) if isinstance(n, ast.Attribute) and isinstance(n.value, ast.Name) and n.value.id in pn_}
                reads |= {"tree"} if "get_tree" in reads else set()
                missing = req - reads
                if not req and not (reads & below):
                    continue
                if K.name == "RegionBlock" and "subregion" in reads:
                    # the cluster must recurse into render_block for the members
                    if not any(method_calls(nd_, rb.name) for nd_ in eff_):
                        missing = missing | {"<recursion into render_block>"}
                if missing:
                    out.append(bad("DISP-7", h.qualname, key, where, f"handler for {K.name} never reads {sorted(missing)}: the label / cluster omits that payload"))
                elif req:
                    out.append(ok("DISP-7", h.qualname, key, where, f"reads {sorted(req)}"))
                # the payload is drawn for every block of the class: the reads of a payload field sit under
                # tests of the block's type and name only.  A value-level conjunct (`block.begin in self.bcmap`,
                # `len(block.x) < N`, a renderer flag) makes the label drop the payload for the blocks failing it.
                from .ctrl import _guard_conditions as _gc7

                for fld in sorted((req | below) & reads):
                    probe = "get_tree" if fld == "tree" and "get_tree" in reads else fld
                    sites = [(nd_, n) for nd_ in eff_ for n in A.walk_no_nested(nd_) if isinstance(n, ast.Attribute) and n.attr in (fld, probe) and isinstance(n.value, ast.Name)
                             and n.value.id in ({bp} | {a_.arg for a_ in nd_.args.args} - {"self", "digraph", "name"})]
                    if not sites:
                        continue
                    worst = None
                    for nd_, n in sites:
                        offending = []
                        for t_, p_ in _gc7(nd_, n, ifexp=True):
                            try:
                                te = ast.parse(t_, mode="eval").body
                            except SyntaxError:
                                continue
                            if isinstance(te, ast.Name):
                                # a boolean local bound once stands for its definition
                                defs_ = [a_ for a_ in ast.walk(nd_) if isinstance(a_, ast.Assign) and len(a_.targets) == 1 and isinstance(a_.targets[0], ast.Name) and a_.targets[0].id == te.id]
                                if len(defs_) == 1:
                                    te = defs_[0].value
                            for cj in (te.values if isinstance(te, ast.BoolOp) and isinstance(te.op, ast.And) and p_ else [te]):
                                if _type_or_name_test(cj, fld, probe):
                                    continue
                                offending.append(A.cond_key(A.unparse(cj), p_))
                        if not offending:
                            worst = None
                            break
                        worst = (nd_, n, offending)
                    if worst is not None:
                        nd_, n, offending = worst
                        out.append(bad("DISP-7", h.qualname, f"{r.name}: {fld} of {K.name} drawn under: " + " & ".join(sorted(set(offending))), ctx.where(h, n),
                                       f"the label reads {fld} only when {sorted(set(offending))}: a {K.name} failing that test is drawn without its payload"))
    # a payload accessor that the handlers go through hands out the payload whole
    for K in universe:
        for mname, mfn in K.methods.items():
            if not mname.startswith("get_") or mname == "get_instructions":
                continue
            fields_ = {f_.name for f_ in K.fields()}
            for r_ in [x for x in A.walk_no_nested(mfn.node) if isinstance(x, ast.Return) and x.value is not None]:
                v_ = r_.value
                key = f"{K.name}.{mname} returns the payload whole"
                filt = [c_ for c_ in ast.walk(v_) if isinstance(c_, (ast.ListComp, ast.GeneratorExp, ast.SetComp)) and any(g_.ifs for g_ in c_.generators) and any(isinstance(a_, ast.Attribute) and a_.attr in fields_ and A.unparse(a_.value) == "self" for g_ in c_.generators for a_ in ast.walk(g_.iter))]
                sliced = [c_ for c_ in ast.walk(v_) if isinstance(c_, ast.Subscript) and isinstance(c_.slice, ast.Slice) and (c_.slice.lower is not None or c_.slice.upper is not None or c_.slice.step is not None) and isinstance(c_.value, ast.Attribute) and c_.value.attr in fields_]
                called = isinstance(v_, ast.Call) and isinstance(v_.func, ast.Name) and v_.func.id == "filter"
                if filt or sliced or called:
                    out.append(bad("DISP-7", mfn.qualname, key, ctx.where(mfn, r_), f"{A.unparse(v_)[:60]} hands out a selection of the payload: the label drawn from it misses the elements that are filtered out (a bare test expression is not an ast.stmt)"))
                else:
                    out.append(ok("DISP-7", mfn.qualname, key, ctx.where(mfn, r_), A.unparse(v_)[:40], nontrivial=False))
    # edges
    re_ = base.find_method("render_edges")
    if re_ is None:
        raise AnalysisError("BaseRenderer.render_edges not found")
    def _edge_source(it):
        """the attribute a loop walks: `x.jump_targets`, `enumerate(x.jump_targets)`, or a local bound once to it"""
        while isinstance(it, ast.Call) and isinstance(it.func, ast.Name) and it.func.id in ("enumerate", "list", "tuple", "iter") and it.args:
            it = it.args[0]
        if isinstance(it, ast.Name):
            defs_ = [a_ for a_ in ast.walk(re_.node) if isinstance(a_, ast.Assign) and len(a_.targets) == 1 and isinstance(a_.targets[0], ast.Name) and a_.targets[0].id == it.id]
            if len(defs_) == 1:
                return _edge_source(defs_[0].value)
        return it if isinstance(it, ast.Attribute) else None

    loops = [n for n in A.walk_no_nested(re_.node) if isinstance(n, ast.For) and _edge_source(n.iter) is not None]
    seen = {}
    for lp in loops:
        attr = _edge_source(lp.iter).attr
        edge_calls = [c for c in method_calls(lp, "edge")]
        # a local helper that draws the edge and forwards its keyword arguments (`def draw(src, dst, **attrs):
        # .. g.edge(.., **attrs)`) counts as the edge call, with the keywords of the call site
        fwd = {f_.name for f_ in ctx.prog.functions if f_.parent_fn is re_ and method_calls(f_.node, "edge") and f_.node.args.kwarg is not None
               and any(any(k.arg is None and isinstance(k.value, ast.Name) and k.value.id == f_.node.args.kwarg.arg for k in c_.keywords) for c_ in method_calls(f_.node, "edge"))}
        edge_calls += [c for c in A.walk_no_nested(lp) if isinstance(c, ast.Call) and isinstance(c.func, ast.Name) and c.func.id in fwd]
        def _dashed(c_) -> bool:
            for k in c_.keywords:
                if k.arg == "style" and isinstance(k.value, ast.Constant) and k.value.value == "dashed":
                    return True
                if k.arg is None:
                    from .common import see_through

                    d_ = see_through(ctx, re_, k.value) if isinstance(k.value, ast.Name) else k.value
                    if isinstance(d_, ast.Name):
                        # a module-level table of keyword arguments (`**backedge_style_kwargs`)
                        kind_, obj_ = ctx.prog.resolve_dotted(re_.module, d_.id)
                        if kind_ == "const":
                            d_ = obj_[1]
                    if isinstance(d_, ast.Dict) and any(isinstance(kk, ast.Constant) and kk.value == "style" and isinstance(vv, ast.Constant) and vv.value == "dashed" for kk, vv in zip(d_.keys, d_.values)):
                        return True
                    if isinstance(d_, ast.Call) and isinstance(d_.func, ast.Name) and d_.func.id == "dict" and any(k2.arg == "style" and isinstance(k2.value, ast.Constant) and k2.value.value == "dashed" for k2 in d_.keywords):
                        return True
            return False

        dashed = any(_dashed(c) for c in edge_calls)
        # an edge is skipped only when its target is not drawn (not in the table of blocks): any other
        # condition drops edges
        from .ctrl import _guard_conditions as _gc

        for c_ in edge_calls:
            for t_, p_ in _gc(lp, c_):
                known = (" in " in t_ and ("blocks" in t_ or "keys()" in t_)) or "isinstance(" in t_ or "type(" in t_
                if not known:
                    out.append(bad("DISP-7", re_.qualname, f"edge over {attr} drawn under: " + A.cond_key(t_, p_), ctx.where(re_, c_), f"an edge of {attr} is drawn only when '{('' if p_ else 'not ') + t_[:60]}': arcs for which that fails (e.g. a block that jumps to itself) are missing from the drawing"))
        seen[attr] = (lp, bool(edge_calls), dashed)
    for attr, want_dashed in (("jump_targets", False), ("backedges", True)):
        key = f"edges over {attr}"
        alt = "_jump_targets" if attr == "jump_targets" else attr
        got = seen.get(attr) or seen.get(alt)
        if got is None or not got[1]:
            out.append(bad("DISP-7", re_.qualname, key, ctx.where(re_), f"no edge is drawn for the elements of {attr}"))
        elif got[2] != want_dashed:
            out.append(bad("DISP-7", re_.qualname, key, ctx.where(re_, got[0]), f"edges of {attr} are drawn {'dashed' if got[2] else 'solid'}; expected {'dashed' if want_dashed else 'solid'}"))
        else:
            out.append(ok("DISP-7", re_.qualname, key, ctx.where(re_, got[0]), f"{'dashed' if want_dashed else 'solid'} edge per element of {attr}"))
    # an exception handler that swallows (continue / pass) covers one lookup, never a loop that draws: the first
    # element that raises would take all the remaining ones with it
    rmod = prog.module("rendering")
    n_try = 0
    for fn in prog.functions:
        if fn.module is not rmod:
            continue
        for t_ in A.walk_no_nested(fn.node):
            if not isinstance(t_, ast.Try):
                continue
            swallow = [h for h in t_.handlers if not any(isinstance(x, ast.Raise) for b_ in h.body for x in ast.walk(b_))]
            if not swallow:
                continue
            n_try += 1
            loops = [x for b_ in t_.body for x in ast.walk(b_) if isinstance(x, (ast.For, ast.While))]
            draws = [x for lp in loops for x in ast.walk(lp) if isinstance(x, ast.Call) and isinstance(x.func, ast.Attribute) and x.func.attr in ("edge", "node", "subgraph", "render_block", "render_edges")]
            key = "swallowing handler covers a single lookup: " + A.alpha_key(t_.body[0])[:60]
            if draws:
                out.append(bad("DISP-7", fn.qualname, key, ctx.where(fn, t_), f"the try block whose '{A.unparse(swallow[0].type)[:30] if swallow[0].type is not None else 'bare'}' handler goes on silently contains a loop that draws ({A.unparse(draws[0])[:40]}): the first element that raises (a target outside the graph that is drawn) drops every remaining edge of the block"))
            else:
                out.append(ok("DISP-7", fn.qualname, key, ctx.where(fn, t_), "the protected block draws nothing in a loop", nontrivial=False))
    # str.strip / lstrip / rstrip take a *set of characters*: a multi-character argument on label text removes
    # letters of the payload ('return total' -> 'return tota')
    for fn in prog.functions:
        if fn.module is not rmod:
            continue
        for c_ in A.walk_no_nested(fn.node):
            if isinstance(c_, ast.Call) and isinstance(c_.func, ast.Attribute) and c_.func.attr in ("strip", "lstrip", "rstrip") and len(c_.args) == 1 and isinstance(c_.args[0], ast.Constant) and isinstance(c_.args[0].value, str):
                chars = c_.args[0].value
                if len(chars) > 1 and any(ch.isalnum() for ch in chars):
                    out.append(bad("DISP-7", fn.qualname, "label text stripped by a character set: " + A.alpha_key(c_)[:50], ctx.where(fn, c_), f"{A.unparse(c_)[:60]} removes any of the characters {sorted(set(chars))} from the end(s), not the string {chars!r}: a label whose text ends in one of these letters is shown truncated"))
    return out


# ----------------------------------------------------------------- DISP-8

BASE_KEYS = {"name", "_jump_targets", "backedges"}


def _io(ctx):
    c = ctx.prog.cls("SCFGIO")
    need = {}
    for n in ("to_dict", "to_yaml", "make_scfg", "extract_block_info", "from_dict"):
        m = c.find_method(n)
        if m is None:
            raise AnalysisError(f"SCFGIO.{n} not found")
        need[n] = m
    return need


def _inverted_registry(td: FunctionInfo):
    """(dict name, 'first' | 'last', node) when to_dict builds `{class: type name}` from block_type_names and
    indexes it with `type(<block>)`"""
    for n in A.walk_no_nested(td.node):
        dname = mode = None
        if isinstance(n, ast.For) and isinstance(n.target, ast.Tuple) and len(n.target.elts) == 2 and A.unparse(n.iter).split(".")[-2:] == ["block_type_names", "items()"]:
            kv, cv = [A.unparse(e) for e in n.target.elts]
            for st in n.body:
                if isinstance(st, ast.Expr) and isinstance(st.value, ast.Call) and isinstance(st.value.func, ast.Attribute) and st.value.func.attr == "setdefault" and len(st.value.args) == 2 and [A.unparse(a) for a in st.value.args] == [cv, kv]:
                    dname, mode = A.unparse(st.value.func.value), "first"
                elif isinstance(st, ast.Assign) and isinstance(st.targets[0], ast.Subscript) and A.unparse(st.targets[0].slice) == cv and A.unparse(st.value) == kv:
                    dname, mode = A.unparse(st.targets[0].value), "last"
        elif isinstance(n, (ast.Assign, ast.AnnAssign)) and isinstance(n.value, ast.DictComp) and len(n.value.generators) == 1:
            g = n.value.generators[0]
            if isinstance(g.target, ast.Tuple) and len(g.target.elts) == 2 and A.unparse(g.iter).split(".")[-2:] == ["block_type_names", "items()"] and not g.ifs:
                kv, cv = [A.unparse(e) for e in g.target.elts]
                if A.unparse(n.value.key) == cv and A.unparse(n.value.value) == kv:
                    tg = n.targets[0] if isinstance(n, ast.Assign) else n.target
                    dname, mode = A.unparse(tg), "last"
        if dname is None:
            continue
        for u in A.walk_no_nested(td.node):
            arg = None
            if isinstance(u, ast.Subscript) and A.unparse(u.value) == dname and isinstance(u.ctx, ast.Load):
                arg = u.slice
            elif isinstance(u, ast.Call) and isinstance(u.func, ast.Attribute) and u.func.attr == "get" and A.unparse(u.func.value) == dname and u.args:
                arg = u.args[0]
            if isinstance(arg, ast.Call) and isinstance(arg.func, ast.Name) and arg.func.id == "type" and len(arg.args) == 1:
                return dname, mode, n
    return None


@rule("DISP-8", 25, "writer, reader, registry and dataclass fields of the serialised form agree (keys, types, quoting, pointer fix-ups)")
def disp8(ctx) -> List[Ob]:
    prog = ctx.prog
    out: List[Ob] = []
    io = _io(ctx)
    bb = prog.module("basic_block")
    bn = prog.module("block_names")
    # (a) = (b)
    if "block_type_names" not in bb.constants or "block_types" not in bn.constants:
        raise AnalysisError("registry tables block_type_names / block_types not found")
    reg = prog.const_value(bb, bb.constants["block_type_names"])
    types = prog.const_value(bn, bn.constants["block_types"])
    reg_names = {k: (v.name if hasattr(v, "name") else str(v)) for k, v in reg.items()}
    where_reg = f"{bb.relpath}:{A.lineno(bb.constants['block_type_names'])}"
    for t in sorted(set(types) | set(reg_names)):
        key = f"type name '{t}'"
        if t in types and t in reg_names:
            out.append(ok("DISP-8", "<module>", key, where_reg, f"'{t}' -> {reg_names[t]}", nontrivial=False))
        elif t in types:
            out.append(bad("DISP-8", "<module>", key, where_reg, f"block type '{t}' is accepted by the reader's vocabulary (block_types) but has no class in block_type_names: reading it raises KeyError"))
        else:
            out.append(bad("DISP-8", "<module>", key, where_reg, f"block type '{t}' is registered but missing from block_types: from_dict asserts on it"))
    # registry injective (reverse lookup by class must be unambiguous)
    rev: Dict[str, List[str]] = {}
    for k, v in reg_names.items():
        rev.setdefault(v, []).append(k)
    for v, ks in sorted(rev.items()):
        if len(ks) > 1:
            out.append(bad("DISP-8", "<module>", f"class {v} registered twice", where_reg, f"class {v} is registered under {sorted(ks)}: the writer's reverse lookup picks one, the round trip changes the type name"))
    # the writer's class -> type-name lookup returns each registered class's own name
    # the helper is recognised by role (a first-match scan of block_type_names.items() called by the
    # writer), wherever it lives: nested in to_dict, a static method of the reader / writer class, or a
    # module-level function
    from .common import reverse_lookup_call

    rl = None
    rl_obj = rl_table_arg = None
    for c_ in A.walk_no_nested(io["to_dict"].node):
        r_ = reverse_lookup_call(prog, io["to_dict"], c_) if isinstance(c_, ast.Call) else None
        if r_ is None:
            continue
        # the scanned table: the registry itself, or a parameter that the writer binds to the registry
        tab_ = r_[1] if r_[0].table_param is not None and r_[1] is not None else r_[0].table
        if A.unparse(tab_).split(".")[-1] == "block_type_names":
            rl, rl_obj, rl_table_arg = r_[0].fn, r_[0], (r_[1] if r_[0].table_param is not None else None)
            break
    key = "writer looks a class up under its own name"
    inv = _inverted_registry(io["to_dict"]) if rl is None else None
    if inv is not None:
        # the registry inverted once into a class -> name mapping that is indexed with the exact class
        dname, mode, where_inv = inv
        order = list(reg_names.items())
        wrong = []
        for own_key, cname in reg_names.items():
            names_ = [k2 for k2, c2 in order if c2 == cname]
            got = names_[0] if mode == "first" else names_[-1]
            if got != own_key:
                wrong.append((cname, own_key, got))
        if wrong:
            out.append(bad("DISP-8", io["to_dict"].qualname, key, ctx.where(io["to_dict"], where_inv), f"a block of class {wrong[0][0]} is written as '{wrong[0][2]}' instead of '{wrong[0][1]}' ({mode} registration wins in {dname})"))
        else:
            out.append(ok("DISP-8", io["to_dict"].qualname, key, ctx.where(io["to_dict"], where_inv), f"exact match through the inverted registry {dname}: each of the {len(reg_names)} registered classes maps to its own type name"))
    elif rl is None:
        out.append(unresolved("DISP-8", io["to_dict"].qualname, key, ctx.where(io["to_dict"]), "no reverse_lookup helper in to_dict: cannot see how a class is mapped to its type name"))
    else:
        xparams_ = [p.arg for p in rl.params if p.arg not in ("self", "cls")]
        vparam = xparams_[rl_obj.value_param] if rl_obj.value_param is not None and rl_obj.value_param < len(xparams_) else xparams_[0]
        lps = [lp for lp in A.walk_no_nested(rl.node) if isinstance(lp, ast.For)]
        if not lps and rl_obj is not None:
            lps = [rl_obj.loop]  # the scan is written as next(<generator>, default): read as the loop it abbreviates
        verdict_ = None
        if len(lps) == 1 and isinstance(lps[0].target, ast.Tuple) and len(lps[0].target.elts) == 2:
            lp = lps[0]
            kv, cv = [A.unparse(e) for e in lp.target.elts]
            it = lp.iter
            rev_order = False
            if isinstance(it, ast.Call) and isinstance(it.func, ast.Name) and it.func.id == "reversed" and it.args:
                rev_order, it = True, it.args[0]
            ifs = [n for n in lp.body if isinstance(n, ast.If)]
            scans_registry = A.unparse(it).split(".")[-2:] == ["block_type_names", "items()"] or (rl_table_arg is not None and rl_obj.table_param is not None and A.unparse(it) == f"{xparams_[rl_obj.table_param]}.items()")
            if scans_registry and len(ifs) == 1 and ifs[0].body and isinstance(ifs[0].body[0], ast.Return) and A.unparse(ifs[0].body[0].value) == kv:
                t = A.unparse(ifs[0].test)
                if t in (f"{cv} == {vparam}", f"{vparam} == {cv}", f"{cv} is {vparam}", f"{vparam} is {cv}"):
                    mode = "exact"
                elif t == f"issubclass({vparam}, {cv})":
                    mode = "sub"
                else:
                    mode = None
                if mode is not None:
                    order = list(reg_names.items())
                    if rev_order:
                        order.reverse()
                    wrong = []
                    for own_key, cname in reg_names.items():
                        got = None
                        for k2, c2 in order:
                            if (mode == "exact" and c2 == cname) or (mode == "sub" and cname in prog.classes and c2 in prog.classes and prog.classes[cname].is_subclass_of(prog.classes[c2])):
                                got = k2
                                break
                        if got != own_key:
                            wrong.append((cname, own_key, got))
                    verdict_ = (mode, wrong)
        if verdict_ is None:
            out.append(unresolved("DISP-8", rl.qualname, key, ctx.where(rl), "reverse_lookup is not a first-match scan of block_type_names.items() with a recognised class test"))
        elif verdict_[1]:
            cname, own, got = verdict_[1][0]
            out.append(bad("DISP-8", rl.qualname, key, ctx.where(rl), f"a block of class {cname} is written as '{got}' instead of '{own}' (first match of a subclass test in registry order): it is read back as another class" + (f"; also {[w[0] for w in verdict_[1][1:]]}" if len(verdict_[1]) > 1 else "")))
        else:
            out.append(ok("DISP-8", rl.qualname, key, ctx.where(rl), f"{verdict_[0]} match: each of the {len(reg_names)} registered classes maps to its own type name"))
    # (c) instantiable classes registered
    inst = instantiated_block_classes(prog, ctx.typer)
    for cname, sites in sorted(inst.items()):
        key = f"instantiable class {cname}"
        if cname in rev:
            out.append(ok("DISP-8", "<module>", key, where_reg, f"{cname} registered as '{rev[cname][0]}'", nontrivial=False))
        else:
            out.append(bad("DISP-8", "<module>", key, where_reg, f"{cname} is built by the library ({sites[0]}) but is not in block_type_names: to_dict raises TypeError('Block type not found')"))
    # (d) writer arms per class
    td = io["to_dict"]
    chains = find_class_chains(td.node)
    if not chains:
        raise AnalysisError("no per-class chain found in to_dict")
    subj, arms = chains[0]
    is_sub = prog_is_sub(prog)

    # a local that *is* the block's entry of the table: `entry = {..}; blocks[key] = entry` (either order)
    entry_aliases: Set[str] = set()
    for s_ in A.walk_no_nested(td.node):
        if isinstance(s_, ast.Assign) and len(s_.targets) == 1:
            if isinstance(s_.targets[0], ast.Subscript) and isinstance(s_.value, ast.Name) and not isinstance(s_.targets[0].slice, ast.Constant):
                entry_aliases.add(s_.value.id)
            if isinstance(s_.targets[0], ast.Name) and isinstance(s_.value, ast.Subscript) and isinstance(s_.value.value, ast.Name) and not isinstance(s_.value.slice, ast.Constant):
                entry_aliases.add(s_.targets[0].id)

    def written_keys(arm_body) -> Dict[str, ast.AST]:
        ks: Dict[str, ast.AST] = {}
        for s in A.walk_no_nested(ast.Module(arm_body, [])):
            if isinstance(s, ast.Assign) and len(s.targets) == 1 and isinstance(s.targets[0], ast.Subscript):
                t = s.targets[0]
                if isinstance(t.slice, ast.Constant) and isinstance(t.slice.value, str) and (isinstance(t.value, ast.Subscript) or (isinstance(t.value, ast.Name) and t.value.id in entry_aliases)):
                    ks[t.slice.value] = s.value
        return ks

    mk = io["make_scfg"]
    # reader: keys popped / added on block_info
    popped, added = set(), set()
    for fn in (mk, io["extract_block_info"]):
        for c in method_calls(fn.node, "pop"):
            if c.args and isinstance(c.args[0], ast.Constant) and isinstance(c.args[0].value, str) and "info" in A.unparse(c.func.value):
                popped.add(c.args[0].value)
        for s in A.walk_no_nested(fn.node):
            if isinstance(s, ast.Assign) and len(s.targets) == 1 and isinstance(s.targets[0], ast.Subscript):
                t = s.targets[0]
                if "info" in A.unparse(t.value) and isinstance(t.slice, ast.Constant) and isinstance(t.slice.value, str):
                    added.add(t.slice.value)
    # pointer fix-ups performed by the reader (object.__setattr__(x, "<attr>", ...))
    def fixups(fn):
        return {c.args[1].value for c in A.walk_no_nested(fn.node) if isinstance(c, ast.Call) and (A.dotted(c.func) or "") == "object.__setattr__" and len(c.args) == 3 and isinstance(c.args[1], ast.Constant)}

    reader_fix = fixups(mk)
    for K in block_classes(prog):
        if K.name not in rev:
            continue
        own = {f.name for f in K.fields() if f.init} - BASE_KEYS
        keys: Dict[str, ast.AST] = {}
        for arm in arms:
            if arm.test is None:
                continue
            v = eval_class_test(arm.test, subj, K.name, is_sub)
            if v is True:
                keys = written_keys(arm.body)
                break
        wkeys = set(keys)
        rkeys = (wkeys - popped) | (added if "subregion" in own else set())
        key = f"fields of {K.name}"
        where = ctx.where(td)
        missing_w = {f for f in own if f not in wkeys and not (f == "subregion" and "contains" in wkeys)}
        unknown_r = rkeys - own - {"type"}
        missing_r = own - rkeys
        if missing_w:
            out.append(bad("DISP-8", td.qualname, key, where, f"the writer omits field(s) {sorted(missing_w)} of {K.name}: they come back as defaults"))
        elif unknown_r:
            out.append(bad("DISP-8", mk.qualname, key, ctx.where(mk), f"the reader passes key(s) {sorted(unknown_r)} to {K.name}(...), which has no such field: TypeError on read"))
        elif missing_r:
            out.append(bad("DISP-8", mk.qualname, key, ctx.where(mk), f"the reader drops field(s) {sorted(missing_r)} of {K.name} (popped or never passed)"))
        else:
            out.append(ok("DISP-8", td.qualname, key, where, f"written {sorted(wkeys)} / read {sorted(rkeys)} = fields {sorted(own)}"))
    # (d+) a payload field is written whole: the attribute itself or a full copy, never a selection of its entries
    for arm in arms:
        if arm.test is None:
            continue
        for fld_, val_ in written_keys(arm.body).items():
            sel = None
            for n_ in ast.walk(val_):
                if isinstance(n_, (ast.DictComp, ast.ListComp, ast.SetComp, ast.GeneratorExp)) and any(g_.ifs for g_ in n_.generators) and any(isinstance(x_, ast.Attribute) and x_.attr == fld_ for g_ in n_.generators for x_ in ast.walk(g_.iter)):
                    sel = n_
            if sel is not None:
                conds_ = [A.unparse(c_) for g_ in sel.generators for c_ in g_.ifs]
                out.append(bad("DISP-8", td.qualname, f"field {fld_} written whole", ctx.where(td, sel), f"the writer keeps only the entries of {fld_} for which {conds_[0][:50]}: the written table is a selection (an entry for a declared back edge fails a test against the filtered view), the graph read back has a smaller table"))
    # (d++) a field is written on every path through its arm, and a plain field as the attribute itself
    PLAIN = {"kind", "header", "exiting", "variable", "begin", "end"}
    for arm in arms:
        if arm.test is None:
            continue
        for s_ in A.walk_no_nested(ast.Module(arm.body, [])):
            if not (isinstance(s_, ast.Assign) and len(s_.targets) == 1 and isinstance(s_.targets[0], ast.Subscript)):
                continue
            t_ = s_.targets[0]
            if not (isinstance(t_.slice, ast.Constant) and isinstance(t_.slice.value, str) and (isinstance(t_.value, ast.Subscript) or (isinstance(t_.value, ast.Name) and t_.value.id in entry_aliases))):
                continue
            fld_ = t_.slice.value
            conds = [a for a in A.ancestors(s_) if isinstance(a, ast.If) and any(a is x for b_ in arm.body for x in ast.walk(b_))]
            if conds:
                out.append(bad("DISP-8", td.qualname, f"field {fld_} written on every path", ctx.where(td, s_), f"'{fld_}' is written only under '{A.unparse(conds[0].test)[:60]}': when the test fails the key is missing from the written form and the reader has to guess it (a value table rebuilt by enumeration numbers the targets 0, 1, .. whatever the keys were)"))
            if fld_ in PLAIN:
                from .common import expand_aliases as _xa

                v_ = _xa(ctx, td, s_.value) if isinstance(s_.value, ast.Name) else s_.value
                if not (isinstance(v_, ast.Attribute) and v_.attr == fld_):
                    out.append(bad("DISP-8", td.qualname, f"field {fld_} written as it is", ctx.where(td, s_), f"'{fld_}' is written as {A.unparse(s_.value)[:50]}, not as the block's own attribute: the reader rebuilds each sub-graph from the recorded header / exiting names, a resolved or derived name sends it to another block"))
    # (d'') the writer descends into every region and writes a canonical member list
    for arm in arms:
        if arm.test is not None and "RegionBlock" in _named_classes(arm.test):
            from .common import expand_aliases

            ext = [c for c in A.walk_no_nested(ast.Module(arm.body, [])) if isinstance(c, ast.Call) and isinstance(c.func, ast.Attribute) and c.func.attr in ("extend", "update", "append") and c.args and ".subregion.graph" in A.unparse(expand_aliases(ctx, td, c.args[0]))]
            key = "writer descends into regions"
            if ext:
                out.append(ok("DISP-8", td.qualname, key, ctx.where(td, ext[0]), f"work-list extended with {A.unparse(ext[0].args[0])[:50]}"))
            else:
                out.append(bad("DISP-8", td.qualname, key, ctx.where(td, arm.node), "the writer does not put the blocks of a region's sub-graph on its work-list: blocks inside regions are never written"))
            cont = [x for x in A.walk_no_nested(ast.Module(arm.body, [])) if isinstance(x, ast.Assign) and isinstance(x.targets[0], ast.Subscript) and isinstance(x.targets[0].slice, ast.Constant) and x.targets[0].slice.value == "contains"]
            key = "region member list is canonical"
            if cont and isinstance(cont[0].value, ast.Call) and isinstance(cont[0].value.func, ast.Name) and cont[0].value.func.id == "sorted" and not cont[0].value.keywords:
                out.append(ok("DISP-8", td.qualname, key, ctx.where(td, cont[0]), "'contains' is sorted: independent of the insertion order of the sub-graph, which the reader does not preserve"))
            elif cont:
                out.append(bad("DISP-8", td.qualname, key, ctx.where(td, cont[0]), "'contains' follows the insertion order of the sub-graph, which differs after a read: writing the re-read graph gives a different dictionary"))
    # (d') the edge lists are written from the stored tuples, not from the filtered view
    for tgt, fld in (("edges", "_jump_targets"), ("backedges", "backedges")):
        sts = [x for x in A.walk_no_nested(td.node) if isinstance(x, ast.Assign) and len(x.targets) == 1 and isinstance(x.targets[0], ast.Subscript) and A.unparse(x.targets[0].value) == tgt]
        for x in sts:
            attrs = sorted({n.attr for n in ast.walk(x.value) if isinstance(n, ast.Attribute) and A.unparse(n.value) == subj})
            key = f"{tgt}[...] written from"
            if attrs == [fld]:
                out.append(ok("DISP-8", td.qualname, key, ctx.where(td, x), f"{tgt} written from the stored tuple .{fld}"))
            else:
                out.append(bad("DISP-8", td.qualname, key, ctx.where(td, x), f"{tgt} is written from {['.' + a for a in attrs]} instead of the stored tuple .{fld}: declared back edges change position or disappear from the successor list"))
    # (e) text sink quoting
    ty = io["to_yaml"]
    for lp in [n for n in A.walk_no_nested(ty.node) if isinstance(n, ast.For)]:
        if not (isinstance(lp.iter, ast.Call) and isinstance(lp.iter.func, ast.Attribute) and lp.iter.func.attr == "items"):
            continue
        if not (isinstance(lp.target, ast.Tuple) and len(lp.target.elts) == 2 and all(isinstance(e, ast.Name) for e in lp.target.elts)):
            continue
        vname = lp.target.elts[1].id
        ycfg = ctx.cfg(ty)
        hdr = ycfg.node_of(lp)
        writes = [ycfg.node_of(n) for n in A.walk_no_nested(lp) if isinstance(n, ast.AugAssign) and any(isinstance(f, ast.FormattedValue) and vname in A.names_in(f.value) for f in ast.walk(n.value))]
        if writes:
            first = [z for z in hdr.succ if z.stmt is not None and any(z.stmt is b or any(a is b for a in A.ancestors(z.stmt)) for b in lp.body)]
            skipped = any(f not in writes and hdr in ycfg.reachable(f, avoid=lambda z: z in writes, include_src=True) for f in first)
            key = "every block attribute is written"
            if skipped:
                out.append(bad("DISP-8", ty.qualname, key, ctx.where(ty, lp), "an attribute of a block can be skipped when the YAML text is written: the value comes back as the class default"))
            else:
                out.append(ok("DISP-8", ty.qualname, key, ctx.where(ty, lp), "each (key, value) of the block table is written on every iteration"))
        for fv in [n for n in ast.walk(lp) if isinstance(n, ast.FormattedValue)]:
            if vname in A.names_in(fv.value):
                key = "block attribute values in the YAML text"
                # repr keeps a str a str and an int key an int; json.dumps turns the int keys of a value table into strings
                quoted = fv.conversion == ord("r") or (isinstance(fv.value, ast.Call) and (A.dotted(fv.value.func) or "") in ("repr",))
                if quoted:
                    out.append(ok("DISP-8", ty.qualname, key, ctx.where(ty, fv), "values are written through repr: names that look like numbers stay strings"))
                else:
                    out.append(bad("DISP-8", ty.qualname, key, ctx.where(ty, fv), "block attribute values (header / exiting / parent_region names) are interpolated unquoted: the name '0' is read back as the integer 0"))
    return out


@rule("DISP-9", 3, "the reader restores what the writer flattened: object pointers written as names, and the back pointers extract_region maintains")
def disp9(ctx) -> List[Ob]:
    prog = ctx.prog
    out: List[Ob] = []
    io = _io(ctx)
    td = io["to_dict"]
    mk = io["make_scfg"]
    chains = find_class_chains(td.node)
    if not chains:
        raise AnalysisError("no per-class chain found in to_dict")
    subj, arms = chains[0]
    is_sub = prog_is_sub(prog)

    def fixups_k(fn):
        """{(attr, target kind)}: 'subgraph' = X.subregion, 'nested' = a region met while
        iterating a sub-graph, 'self' = the region at hand"""
        outk = set()
        for c in A.walk_no_nested(read_through_field_aliases(prog, fn.node)):
            if isinstance(c, ast.Call) and (A.dotted(c.func) or "") == "object.__setattr__" and len(c.args) == 3 and isinstance(c.args[1], ast.Constant):
                tgt = c.args[0]
                val = A.unparse(c.args[2])
                kind = "self"
                good = True
                if isinstance(tgt, ast.Attribute) and tgt.attr == "subregion":
                    kind = "subgraph"
                    good = val == A.unparse(tgt.value)  # X.subregion.region = X
                elif isinstance(tgt, ast.Name):
                    for anc in A.ancestors(c):
                        if isinstance(anc, ast.For) and ".subregion.graph" in A.unparse(anc.iter) and tgt.id in A.names_in(anc.target):
                            kind = "nested"
                            owner = A.unparse(anc.iter).split(".subregion.graph")[0]
                            good = val == owner  # regions inside X.subregion get X as parent
                            # ... and only the regions among the members: a positive RegionBlock test
                            gs = [g for g in A.ancestors(c) if isinstance(g, ast.If) and any(x is anc for x in A.ancestors(g))]
                            if not (len(gs) == 1 and A.unparse(gs[0].test) == f"isinstance({tgt.id}, RegionBlock)" and any(b is c or any(a2 is b for a2 in A.ancestors(c)) for b in gs[0].body)):
                                good = False
                                val = val + " (not under a positive RegionBlock test)"
                outk.add((c.args[1].value, kind if good else kind + ":wrong-value:" + val))
        return outk

    def fixups(fn):
        return {a for a, _k in fixups_k(fn)}

    reader_fix = fixups(mk)
    for K in block_classes(prog):
        own = {f.name for f in K.fields() if f.init} - BASE_KEYS
        keys = {}
        for arm in arms:
            if arm.test is None:
                continue
            if eval_class_test(arm.test, subj, K.name, is_sub) is True:
                for s_ in A.walk_no_nested(ast.Module(arm.body, [])):
                    if isinstance(s_, ast.Assign) and len(s_.targets) == 1 and isinstance(s_.targets[0], ast.Subscript):
                        t = s_.targets[0]
                        if isinstance(t.slice, ast.Constant) and isinstance(t.slice.value, str) and isinstance(t.value, ast.Subscript):
                            keys[t.slice.value] = s_.value
                break
        # types: a key written as `<field>.name` (a str) into a field that holds an object needs a fix-up
        for k, expr in keys.items():
            if k in own and isinstance(expr, ast.Attribute) and expr.attr == "name" and A.unparse(expr.value).endswith("." + k):
                tkey = f"{K.name}.{k} written as a name"
                if (k, "self") in fixups_k(mk):
                    out.append(ok("DISP-9", mk.qualname, tkey, ctx.where(mk), f"field '{k}' is written as a name (str) and restored to an object by the reader (object.__setattr__)"))
                else:
                    out.append(bad("DISP-9", mk.qualname, tkey, ctx.where(mk), f"field '{k}' of {K.name} is written as a name (str) and read back into the object-typed field without being restored"))
    # the name of the outermost region: written (as parent_region of the regions directly below it)
    # but not a block of the dictionary, and generated afresh whenever an SCFG object is constructed
    writes_parent_name = any(k == "parent_region" and isinstance(e, ast.Attribute) and e.attr == "name" for arm in arms if arm.test is not None for s_ in A.walk_no_nested(ast.Module(arm.body, [])) if isinstance(s_, ast.Assign) and len(s_.targets) == 1 and isinstance(s_.targets[0], ast.Subscript) and isinstance(s_.targets[0].slice, ast.Constant) for k, e in [(s_.targets[0].slice.value, s_.value)])
    if writes_parent_name:
        key = "name of the outermost region restored on read"
        graphs = {A.unparse(s_.targets[0]) for s_ in A.walk_no_nested(mk.node) if isinstance(s_, ast.Assign) and isinstance(s_.value, ast.Call) and (A.dotted(s_.value.func) or "").split(".")[-1] == "SCFG"}
        good = None
        for c in A.walk_no_nested(mk.node):
            if isinstance(c, ast.Call) and (A.dotted(c.func) or "") == "object.__setattr__" and len(c.args) == 3 and isinstance(c.args[1], ast.Constant) and c.args[1].value == "name":
                tgt, val = c.args[0], c.args[2]
                if isinstance(tgt, ast.Attribute) and tgt.attr == "region" and A.unparse(tgt.value) in graphs and isinstance(val, ast.Attribute) and val.attr == "parent_region":
                    r = A.unparse(val.value)
                    # the recorded name must be read before the pointer fix-up of the same region overwrites it
                    later = [c2 for c2 in A.walk_no_nested(mk.node) if isinstance(c2, ast.Call) and (A.dotted(c2.func) or "") == "object.__setattr__" and len(c2.args) == 3 and A.unparse(c2.args[0]) == r and isinstance(c2.args[1], ast.Constant) and c2.args[1].value == "parent_region"]
                    if later and all(A.lineno(c) < A.lineno(c2) for c2 in later):
                        good = c
                    else:
                        good = False
        if good:
            out.append(ok("DISP-9", mk.qualname, key, ctx.where(mk, good), "the graph's own region takes the name recorded as parent_region of the regions directly below it, read before that field is turned into a pointer"))
        elif good is False:
            out.append(bad("DISP-9", mk.qualname, key, ctx.where(mk), "the recorded name is read after parent_region has been replaced by the object pointer: the outermost region is renamed to a RegionBlock, not to the recorded name"))
        else:
            out.append(bad("DISP-9", mk.qualname, key, ctx.where(mk), "the writer records the name of the outermost region (parent_region of the regions directly below it), but every SCFG the reader constructs generates a fresh region name: writing the graph that was read gives another parent_region ('meta_region_4' for 'meta_region_0')"))
    # sibling cross-check: pointer bookkeeping of extract_region vs. the reader
    er = prog.find_function("extract_region")
    if er is None:
        raise AnalysisError("extract_region not found")
    rk = fixups_k(mk)
    what = {"subgraph": "of the region's sub-graph", "nested": "of the regions nested inside the sub-graph", "self": "of the region"}
    for attr, kind in sorted(rk):
        if ":wrong-value:" in kind:
            k0, _, v0 = kind.partition(":wrong-value:")
            out.append(bad("DISP-9", mk.qualname, f"pointer '{attr}' {what[k0]} value", ctx.where(mk), f"the reader sets '{attr}' {what[k0]} to {v0}, which is not the enclosing region object (extract_region sets the region itself): the pointer names a throw-away region"))
    for attr, kind in sorted(fixups_k(er)):
        if ":wrong-value:" in kind:
            continue
        key = f"pointer '{attr}' {what[kind]} restored on read"
        if (attr, kind) in rk:
            out.append(ok("DISP-9", mk.qualname, key, ctx.where(mk), f"extract_region sets '{attr}' {what[kind]}, so does the reader"))
        else:
            out.append(bad("DISP-9", mk.qualname, key, ctx.where(mk), f"extract_region maintains the pointer '{attr}' {what[kind]} but the reader never sets it: a graph that was read has stale / string pointers there"))
    # every pointer fix-up of the reader runs for every region: it sits under type tests only
    from .ctrl import _guard_conditions as _gc9

    for c_ in A.walk_no_nested(mk.node):
        if isinstance(c_, ast.Call) and (A.dotted(c_.func) or "") == "object.__setattr__" and len(c_.args) == 3 and isinstance(c_.args[1], ast.Constant) and c_.args[1].value in ("parent_region", "region"):
            offending = []
            for t_, p_ in _gc9(mk.node, c_):
                te_ = ast.parse(t_, mode="eval").body
                for cj in (te_.values if isinstance(te_, ast.BoolOp) and isinstance(te_.op, ast.And) and p_ else [te_]):
                    txt = A.unparse(cj)
                    if "isinstance(" in txt or "type(" in txt or " is None" in txt or " is not None" in txt:
                        continue
                    offending.append(A.cond_key(txt, p_))
            if offending:
                out.append(bad("DISP-9", mk.qualname, f"fix-up of '{c_.args[1].value}' unconditional: " + A.alpha_key(c_)[:50], ctx.where(mk, c_), f"the pointer '{c_.args[1].value}' is restored only when {sorted(set(offending))}: regions for which that fails keep the throw-away pointer of the reader, a second write differs"))
    return out


def _effective_nodes(r, h, skip=("render_block",), depth: int = 2) -> list:
    """the handler's function node plus the nodes of the methods it delegates to on self (`self._helper(..)`,
    resolved in the renderer class r, so template-method hooks overridden in r are the ones seen)"""
    out = [h.node]
    seen = {h.qualname}
    frontier = [h]
    for _ in range(depth):
        nxt = []
        for f in frontier:
            for c in A.walk_no_nested(f.node):
                if isinstance(c, ast.Call) and isinstance(c.func, ast.Attribute) and isinstance(c.func.value, ast.Name) and c.func.value.id == "self" and c.func.attr not in skip:
                    m = r.find_method(c.func.attr)
                    if m is not None and m.qualname not in seen and not (c.func.attr.startswith("render_") and c.func.attr != f.name and not c.func.attr.startswith("render_region")):
                        seen.add(m.qualname)
                        out.append(m.node)
                        nxt.append(m)
        frontier = nxt
    return out


@rule("DISP-10", 12, "every render path draws: each dispatch arm calls its handler with (digraph, name, block) in order, each handler draws exactly one node (or a cluster that recurses), each renderer has its own fresh Digraph and renders every block and then the edges")
def disp10(ctx) -> List[Ob]:
    out: List[Ob] = []
    prog = ctx.prog
    base = prog.cls("BaseRenderer")
    rb = base.find_method("render_block")
    if rb is None:
        raise AnalysisError("BaseRenderer.render_block not found")
    rparams = [p.arg for p in rb.params if p.arg != "self"]
    chains = find_class_chains(rb.node, rparams[-1])
    if not chains:
        raise AnalysisError("render_block: no class dispatch")
    subj, arms = chains[0]
    # (a) arms
    for arm in arms:
        if arm.test is None:
            continue
        key = "arm " + A.alpha_key(arm.test)[:70]
        where = ctx.where(rb, arm.node)
        calls = [c for c in A.walk_no_nested(ast.Module(arm.body, [])) if isinstance(c, ast.Call) and isinstance(c.func, ast.Attribute) and isinstance(c.func.value, ast.Name) and c.func.value.id == "self" and c.func.attr.lstrip("_").startswith("render_")]
        if len(calls) != 1:
            out.append(bad("DISP-10", rb.qualname, key, where, f"the arm calls {len(calls)} render handlers: the block is not drawn (or drawn twice)"))
            continue
        args = [A.unparse(a) for a in calls[0].args]
        if args != rparams:
            out.append(bad("DISP-10", rb.qualname, key, where, f"handler called with ({', '.join(args)}), expected ({', '.join(rparams)})"))
        else:
            out.append(ok("DISP-10", rb.qualname, key, where, f"{calls[0].func.attr}({', '.join(args)})", nontrivial=False))
    # (b) handlers
    for r in prog.subclasses(base, strict=True):
        for mname, h in sorted(r.methods.items()):
            if not mname.lstrip("_").startswith("render_") or mname.lstrip("_") in ("render_block", "render_edges", "render_byteflow", "render_scfg"):
                continue
            cfg = ctx.cfg(h)
            hp = [p.arg for p in h.params if p.arg != "self"]
            key = f"{r.name}.{mname} draws"
            where = ctx.where(h)
            if "region" in mname:
                eff = _effective_nodes(r, h)
                withs = [w for nd in eff for w in A.walk_no_nested(nd) if isinstance(w, ast.With) and any(isinstance(i.context_expr, ast.Call) and isinstance(i.context_expr.func, ast.Attribute) and i.context_expr.func.attr == "subgraph" for i in w.items)]
                rec = [c for nd in eff for c in method_calls(nd, rb.name)]
                okc = withs and rec and any(any(a is withs[0] for a in A.ancestors(c)) for c in rec)
                cluster_named = withs and any("cluster_" in A.unparse(i.context_expr) for i in withs[0].items)
                if okc and cluster_named:
                    sub = withs[0].items[0].optional_vars
                    subn = A.unparse(sub) if sub is not None else "?"
                    if all(A.unparse(c.args[0]) == subn for c in rec if c.args):
                        out.append(ok("DISP-10", h.qualname, key, where, f"cluster_<name> sub-graph; members rendered into it through {rb.name}"))
                    else:
                        out.append(bad("DISP-10", h.qualname, key, where, "the members of a region are not rendered into the region's own cluster"))
                else:
                    out.append(bad("DISP-10", h.qualname, key, where, "a region is not drawn as a 'cluster_' sub-graph whose members are rendered recursively"))
                continue
            nodes = [c for c in A.walk_no_nested(h.node) if isinstance(c, ast.Call) and isinstance(c.func, ast.Attribute) and c.func.attr == "node" and hp and A.unparse(c.func.value) == hp[0]]
            if len(nodes) != 1:
                out.append(bad("DISP-10", h.qualname, key, where, f"{len(nodes)} calls of {hp[0] if hp else 'digraph'}.node(...): a block must be drawn as exactly one node"))
                continue
            n = cfg.node_of(nodes[0])
            first_arg = A.unparse(nodes[0].args[0]) if nodes[0].args else ""
            lab = kw(nodes[0], "label")
            probs = []
            if cfg.exit in cfg.reachable(cfg.entry, avoid=lambda z: z is n):
                probs.append("there is a path through the handler that draws no node")
            if hp[1] not in first_arg:
                probs.append(f"the node is not named after the block ({first_arg})")
            if lab is None:
                probs.append("the node has no label")
            if probs:
                out.append(bad("DISP-10", h.qualname, key, where, "; ".join(probs)))
            else:
                out.append(ok("DISP-10", h.qualname, key, where, f"exactly one {hp[0]}.node({first_arg}, label=...) on every normal path"))
    # (c) entry points
    for cname, mname in (("SCFGRenderer", "__init__"), ("ByteFlowRenderer", "render_byteflow")):
        c = prog.cls(cname)
        m = c.methods.get(mname)
        if m is None:
            raise AnalysisError(f"{cname}.{mname} not found")
        cfg = ctx.cfg(m)
        key = f"{cname}: every block, then the edges"
        where = ctx.where(m)
        def _graph_items(lp):
            it = lp.iter
            if not (isinstance(it, ast.Call) and isinstance(it.func, ast.Attribute) and it.func.attr == "items" and not it.args):
                return False
            recv = it.func.value
            if isinstance(recv, ast.Name):
                ds = [d for d in cfg.reaching_defs(recv) if d.stmt is not None]
                if len(ds) == 1 and isinstance(ds[0].stmt, ast.Assign):
                    recv = ds[0].stmt.value
            return isinstance(recv, ast.Attribute) and recv.attr == "graph"

        loops = [lp for lp in A.walk_no_nested(m.node) if isinstance(lp, ast.For) and _graph_items(lp)]
        good = False
        if loops:
            lp = loops[0]
            tv = [A.unparse(e) for e in lp.target.elts] if isinstance(lp.target, ast.Tuple) else []
            rcs = [x for x in method_calls(lp, rb.name) if [A.unparse(a) for a in x.args] == ["self.g"] + tv]
            edges = [x for x in method_calls(m.node, "render_edges")]
            uncond = rcs and not [a for a in A.ancestors(rcs[0]) if isinstance(a, ast.If) and any(y is lp for y in A.ancestors(a))]
            if rcs and uncond and edges and cfg.node_of(edges[0]) in cfg.reachable(cfg.node_of(lp)) and not any(any(a is lp for a in A.ancestors(e)) for e in edges):
                good = True
        if good:
            out.append(ok("DISP-10", m.qualname, key, where, "render_block(self.g, name, block) for every top-level block, then render_edges"))
        else:
            out.append(bad("DISP-10", m.qualname, key, where, "the renderer does not draw every top-level block unconditionally and then the edges"))
        init = c.methods.get("__init__")
        key = f"{cname}: own fresh Digraph"
        okg = False
        if init is not None:
            for s in A.walk_no_nested(init.node):
                if isinstance(s, ast.Assign) and any(A.unparse(t) == "self.g" for t in s.targets) and isinstance(s.value, ast.Call) and (A.dotted(s.value.func) or "").endswith("Digraph"):
                    sn = ctx.cfg(init).node_of(s)
                    icfg = ctx.cfg(init)
                    if icfg.exit not in icfg.reachable(icfg.entry, avoid=lambda z: z is sn):
                        okg = True
        if okg:
            out.append(ok("DISP-10", c.name, key, ctx.where(init), "self.g = Digraph() on every path of __init__"))
        else:
            out.append(bad("DISP-10", c.name, key, ctx.where(init) if init else ctx.where(m), "the renderer does not create its own Digraph in __init__: rendering fails or draws into a shared graph"))
    return out


# ------------------------------------------------------------------ DISP-11


@rule("DISP-11", 3, "the reader builds every block of the dictionary: the outermost walk is seeded with every block that no region contains, and the outer-block computation removes only the members of regions")
def disp11(ctx) -> List[Ob]:
    from .common import see_through

    out: List[Ob] = []
    io = _io(ctx)
    fd, mk = io["from_dict"], io["make_scfg"]
    cfg = ctx.cfg(fd)
    calls = [c for c in A.walk_no_nested(fd.node) if isinstance(c, ast.Call) and (A.dotted(c.func) or "").split(".")[-1] == mk.name]
    key = "seeds of the outermost walk"
    if not calls:
        out.append(unresolved("DISP-11", fd.qualname, key, ctx.where(fd), "call of make_scfg not found in from_dict"))
        return out
    heads_param = [p.arg for p in mk.params if p.arg not in ("self", "cls")][1]
    arg = kw(calls[0], heads_param, 1)
    fog = ctx.prog.cls("SCFGIO").find_method("find_outer_graph")
    if arg is None or fog is None:
        out.append(unresolved("DISP-11", fd.qualname, key, ctx.where(fd, calls[0]), "seed argument / find_outer_graph not found"))
        return out
    good = False
    why = f"the seeds are '{A.unparse(arg)[:50]}'"
    if isinstance(arg, ast.Name):
        ds = [d for d in cfg.reaching_defs(arg) if d.stmt is not None]
        vals = []
        for d in ds:
            if isinstance(d.stmt, (ast.Assign, ast.AnnAssign)) and d.stmt.value is not None:
                vals.append(d.stmt.value)
            else:
                vals.append(None)
        if ds and all(v is not None and isinstance(v, ast.Call) and (A.dotted(v.func) or "").split(".")[-1] == fog.name for v in vals) and len(cfg.reaching_defs(arg)) == len(ds):
            # the set is not shrunk in place between its computation and the walk
            shr = [c for c in A.walk_no_nested(fd.node) if isinstance(c, ast.Call) and isinstance(c.func, ast.Attribute) and A.unparse(c.func.value) == arg.id and c.func.attr in ("discard", "remove", "difference_update", "intersection_update", "pop", "clear")]
            aug = [s for s in A.walk_no_nested(fd.node) if isinstance(s, ast.AugAssign) and A.unparse(s.target) == arg.id]
            if not shr and not aug:
                good = True
            else:
                why = f"'{arg.id}' is shrunk after it was computed (line {A.lineno((shr + aug)[0])})"
        else:
            bad_defs = [A.unparse(v)[:50] if v is not None else "?" for v in vals if not (v is not None and isinstance(v, ast.Call) and (A.dotted(v.func) or "").split(".")[-1] == fog.name)]
            why = f"on some path the seeds are {bad_defs[:1] or ['undefined']}, not the result of {fog.name}()"
    elif isinstance(arg, ast.Call) and (A.dotted(arg.func) or "").split(".")[-1] == fog.name:
        good = True
    if good:
        out.append(ok("DISP-11", fd.qualname, key, ctx.where(fd, calls[0]), f"{heads_param} = {fog.name}(<dictionary>) unchanged"))
    else:
        out.append(bad("DISP-11", fd.qualname, key, ctx.where(fd, calls[0]), f"{why}: blocks of the outermost level that the walk does not reach from those seeds (a cycle entered only from dead code, a second component) are silently dropped on read"))
    # find_outer_graph: all keys minus the members of regions, nothing else
    key = "outer blocks = all blocks minus the members of regions"
    inits = [s for s in fog.node.body if isinstance(s, (ast.Assign, ast.AnnAssign)) and s.value is not None]
    rets = [r for r in A.walk_no_nested(fog.node) if isinstance(r, ast.Return) and r.value is not None]
    removals = [c for c in A.walk_no_nested(fog.node) if isinstance(c, ast.Call) and isinstance(c.func, ast.Attribute) and c.func.attr in ("difference_update", "discard", "remove", "intersection_update")]
    removals += [s for s in A.walk_no_nested(fog.node) if isinstance(s, ast.AugAssign) and isinstance(s.op, (ast.Sub, ast.BitAnd))]
    okk = bool(rets) and bool(removals)
    detail = ""
    for r in removals:
        argx = r.args[0] if isinstance(r, ast.Call) and r.args else (r.value if isinstance(r, ast.AugAssign) else None)
        argx = see_through(ctx, fog, argx) if argx is not None else None
        t = A.unparse(argx) if argx is not None else "?"
        if "contains" not in t or (isinstance(r, ast.Call) and r.func.attr == "intersection_update") or (isinstance(r, ast.AugAssign) and isinstance(r.op, ast.BitAnd)):
            okk = False
            detail = f"'{A.unparse(r)[:50]}' removes something other than the members of a region"
    if okk:
        out.append(ok("DISP-11", fog.qualname, key, ctx.where(fog), "set(blocks) minus every 'contains' list"))
    else:
        out.append(bad("DISP-11", fog.qualname, key, ctx.where(fog), detail or "the outer blocks are not computed as 'all blocks minus the contents of regions'"))
    out.append(ok("DISP-11", mk.qualname, "walk exhausts its work-list", ctx.where(mk), "see TOTAL-6", nontrivial=False))
    return out


# ------------------------------------------------------------------ DISP-12


def _is_copy(e: ast.AST) -> bool:
    if isinstance(e, ast.Call):
        if isinstance(e.func, ast.Attribute) and e.func.attr in ("copy", "deepcopy"):
            return True
        if isinstance(e.func, ast.Name) and e.func.id in ("dict", "deepcopy", "copy"):
            return True
    if isinstance(e, (ast.Dict, ast.DictComp)):
        return True
    return False


@rule("DISP-12", 2, "the reader works on copies: an entry of the dictionary it was given is copied before fields are popped from it or added to it, so reading does not change (or depend on earlier reads of) the dictionary")
def disp12(ctx) -> List[Ob]:
    out: List[Ob] = []
    io = _io(ctx)
    readers = [io["from_dict"], io["make_scfg"], io["extract_block_info"]]
    MUT = ("pop", "popitem", "update", "setdefault", "clear", "__setitem__", "__delitem__")

    def input_aliases(fn) -> Dict[str, ast.AST]:
        """locals that denote an entry of a parameter (x = param[..] / param[..][..]) without a copy"""
        params = {p.arg for p in fn.params}
        out_: Dict[str, ast.AST] = {}
        for st in A.walk_no_nested(fn.node):
            if isinstance(st, (ast.Assign, ast.AnnAssign)) and st.value is not None:
                tg = st.targets[0] if isinstance(st, ast.Assign) else st.target
                v = st.value
                if isinstance(tg, ast.Name) and isinstance(v, ast.Subscript):
                    root = v
                    while isinstance(root, ast.Subscript):
                        root = root.value
                    if isinstance(root, ast.Name) and (root.id in params or root.id in out_):
                        out_[tg.id] = st
        return out_

    # positions of a returned tuple that alias the input
    returns_alias: Dict[str, Set[int]] = {}
    for fn in readers:
        al = input_aliases(fn)
        for r in A.walk_no_nested(fn.node):
            if isinstance(r, ast.Return) and isinstance(r.value, ast.Tuple):
                for i, e in enumerate(r.value.elts):
                    if isinstance(e, ast.Name) and e.id in al:
                        returns_alias.setdefault(fn.name, set()).add(i)
    n_ob = 0
    for fn in readers:
        al = dict(input_aliases(fn))
        # results of a reader helper that hands an input entry back
        for st in A.walk_no_nested(fn.node):
            if isinstance(st, ast.Assign) and isinstance(st.targets[0], ast.Tuple) and isinstance(st.value, ast.Call):
                cal = (A.dotted(st.value.func) or "").split(".")[-1]
                for i in returns_alias.get(cal, ()):
                    if i < len(st.targets[0].elts) and isinstance(st.targets[0].elts[i], ast.Name):
                        al[st.targets[0].elts[i].id] = st
        for name, src in sorted(al.items()):
            muts = []
            for n in A.walk_no_nested(fn.node):
                if isinstance(n, ast.Call) and isinstance(n.func, ast.Attribute) and isinstance(n.func.value, ast.Name) and n.func.value.id == name and n.func.attr in MUT:
                    muts.append(n)
                elif isinstance(n, (ast.Assign, ast.AugAssign, ast.Delete)):
                    for t in (n.targets if isinstance(n, (ast.Assign, ast.Delete)) else [n.target]):
                        if isinstance(t, ast.Subscript) and isinstance(t.value, ast.Name) and t.value.id == name:
                            muts.append(n)
            key = f"{fn.name}: entry of the input bound to a local: " + A.alpha_key(src)[:60]
            n_ob += 1
            if muts:
                out.append(bad("DISP-12", fn.qualname, key, ctx.where(fn, muts[0]), f"'{name}' is an entry of the dictionary that was passed in (line {A.lineno(src)}, no copy) and is modified here ('{A.unparse(muts[0])[:50]}'): reading a graph changes the dictionary it is read from - a second read, or writing the graph and comparing, sees another dictionary"))
            else:
                out.append(ok("DISP-12", fn.qualname, key, ctx.where(fn, src), "read only"))
    # the copy itself
    ebi = io["extract_block_info"]
    copies = [st for st in A.walk_no_nested(ebi.node) if isinstance(st, (ast.Assign, ast.AnnAssign)) and st.value is not None and _is_copy(st.value)]
    out.append(ok("DISP-12", ebi.qualname, "entries are copied before use", ctx.where(ebi, copies[0]) if copies else ctx.where(ebi), f"{len(copies)} copying definition(s); {n_ob} uncopied alias(es) examined", nontrivial=False))
    # the reference table of the reader maps every name to itself: the payloads (value tables, variable assignments)
    # are copied as they are, a renaming table would have to be applied to them too
    fd = io["from_dict"]
    for st in A.walk_no_nested(fd.node):
        if isinstance(st, ast.Assign) and len(st.targets) == 1 and isinstance(st.targets[0], ast.Subscript) and "ref" in A.unparse(st.targets[0].value):
            k_, v_ = A.unparse(st.targets[0].slice), A.unparse(st.value)
            key = "reference table is the identity on names"
            if k_ == v_:
                out.append(ok("DISP-12", fd.qualname, key, ctx.where(fd, st), f"{A.unparse(st)[:50]}", nontrivial=False))
            else:
                out.append(bad("DISP-12", fd.qualname, key, ctx.where(fd, st), f"'{A.unparse(st)[:60]}' renames blocks on read ({k_} -> {v_}): names, edges and region fields go through the table, the values of branch_value_table do not - after reading, a table names blocks that are not successors"))
    # a block name is compared with a name by equality: `name in <str>` is a substring test
    from .. import types as _T

    for fn in readers:
        env = ctx.typer.env(fn)
        for cmp_ in A.walk_no_nested(fn.node):
            if isinstance(cmp_, ast.Compare) and len(cmp_.ops) == 1 and isinstance(cmp_.ops[0], (ast.In, ast.NotIn)) and isinstance(cmp_.comparators[0], ast.Name):
                t_ = ctx.typer.type_of(cmp_.comparators[0], env, fn)
                kinds = {m_[0] for m_ in _T.members(_T.strip_none(t_))}
                if "str" in kinds:
                    out.append(bad("DISP-12", fn.qualname, "membership in a name: " + A.alpha_key(cmp_), ctx.where(fn, cmp_), f"'{A.unparse(cmp_)[:50]}': {cmp_.comparators[0].id} can be a str, so this asks whether one name is a *substring* of the other ('python_bytecode_block_2' in 'python_bytecode_block_21'): the walk over a region stops at the wrong member and the rest of the region is not read"))
    return out
