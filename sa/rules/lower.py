"""Engine LOWER - effects of the source front end (DESIGN 5.8)."""
from __future__ import annotations

import ast
from typing import Dict, List, Optional, Set

from .. import astutil as A
from ..domains import chain_arms
from ..model import AnalysisError, FunctionInfo
from ..report import Ob, bad, ok, unresolved
from . import rule
from .common import find_class_chains, kw, method_calls, see_through
from .disp import BACK, FRONT, _codegen, _dispatcher

# Python's evaluation order of the child fields of the expression classes
EVAL_ORDER = {
    "Compare": ["left", "comparators"],
    "BinOp": ["left", "right"],
    "Call": ["func", "args", "keywords"],
    "Subscript": ["value", "slice"],
    "Attribute": ["value"],
    "UnaryOp": ["operand"],
    "BoolOp": ["values"],
    "IfExp": ["test", "body", "orelse"],
    "Tuple": ["elts"],
    "List": ["elts"],
    "Set": ["elts"],
    "Dict": ["keys", "values"],
    "Starred": ["value"],
    "JoinedStr": ["values"],
    "FormattedValue": ["value"],
    "NamedExpr": ["value"],
    "Slice": ["lower", "upper", "step"],
}
# fields holding several operands that are evaluated left to right
MULTI = {"comparators", "args", "keywords", "elts", "values", "keys"}


def _emitters(ctx) -> Set[str]:
    """methods of the front end that may append to the current block or open blocks, transitively"""
    front = ctx.prog.cls(FRONT)
    direct = set()
    for m in front.methods.values():
        txt = A.unparse(m.node)
        if ".instructions.append(" in txt or "self.add_block(" in txt:
            direct.add(m.name)
    changed = True
    while changed:
        changed = False
        for m in front.methods.values():
            if m.name in direct:
                continue
            for c in A.walk_no_nested(m.node):
                if isinstance(c, ast.Call) and isinstance(c.func, ast.Attribute) and isinstance(c.func.value, ast.Name) and c.func.value.id == "self" and c.func.attr in direct:
                    direct.add(m.name)
                    changed = True
                    break
    return direct


def _handle_expression(ctx) -> FunctionInfo:
    m = ctx.prog.cls(FRONT).find_method("handle_expression")
    if m is None:
        raise AnalysisError("AST2SCFGTransformer.handle_expression not found")
    return m


# children that Python evaluates only under a condition (or not at the point of the expression)
CONDITIONAL = {
    "IfExp": {"body", "orelse"},
    "BoolOp": {"values"},
    "Lambda": {"body"},
    "ListComp": {"elt", "generators"},
    "SetComp": {"elt", "generators"},
    "DictComp": {"key", "value", "generators"},
    "GeneratorExp": {"elt", "generators"},
}


def _processed_fields(arm_body: List[ast.stmt], subj: str, emitters: Set[str]) -> Dict[str, ast.AST]:
    """fields of the subject node that the arm rebuilds from an emitting call;
    the key '*' means: every field (generic setattr over the node's fields)"""
    out: Dict[str, ast.AST] = {}
    for s in A.walk_no_nested(ast.Module(arm_body, [])):
        if isinstance(s, ast.Call) and isinstance(s.func, ast.Name) and s.func.id == "setattr" and len(s.args) == 3 and A.unparse(s.args[0]) == subj:
            if any(isinstance(c, ast.Call) and isinstance(c.func, ast.Attribute) and c.func.attr in emitters for c in ast.walk(s.args[2])):
                if isinstance(s.args[1], ast.Constant):
                    out[str(s.args[1].value)] = s
                else:
                    out["*"] = s
    for s in A.walk_no_nested(ast.Module(arm_body, [])):
        # for x in node.<field>: ... emitting(x...) ...   (children processed through a loop)
        if isinstance(s, ast.For) and isinstance(s.iter, ast.Attribute) and A.unparse(s.iter.value) == subj:
            if any(isinstance(c, ast.Call) and isinstance(c.func, ast.Attribute) and c.func.attr in emitters for c in ast.walk(s)):
                out.setdefault(s.iter.attr, s)
        if isinstance(s, ast.Assign):
            for t in s.targets:
                if isinstance(t, ast.Attribute) and A.unparse(t.value) == subj:
                    if any(isinstance(c, ast.Call) and isinstance(c.func, ast.Attribute) and c.func.attr in emitters for c in ast.walk(s.value)):
                        out[t.attr] = s
    return out


@rule("LOWER-1", 3, "hoisting the statements of a sub-expression must not move its evaluation before a sibling that Python evaluates earlier")
def lower1(ctx) -> List[Ob]:
    out: List[Ob] = []
    he = _handle_expression(ctx)
    em = _emitters(ctx)
    params = [p.arg for p in he.params if p.arg != "self"]
    chains = find_class_chains(he.node, params[0])
    if not chains:
        raise AnalysisError("handle_expression: no class dispatch found")
    subj = chains[0][0]
    # the dispatch may be one chain or several guarded blocks in sequence (`if BoolOp: .. return` then a chain
    # for the rest): every arm of every chain over the parameter counts
    arms = []
    for _s, arms_ in chains:
        for a in arms_:
            # (a guard sequence and the chain that follows it are reported as two chains that share arms)
            if not any(a.node is b.node and a.test is b.test for b in arms):
                arms.append(a)
    for arm in arms:
        if arm.test is None:
            continue
        classes = [n.attr for n in ast.walk(arm.test) if isinstance(n, ast.Attribute) and isinstance(n.value, ast.Name) and n.value.id == "ast"]
        for cls in classes:
            if cls == "BoolOp":
                continue  # LOWER-2
            order = EVAL_ORDER.get(cls)
            proc = _processed_fields(arm.body, subj, em)
            key = f"arm ast.{cls}"
            where = ctx.where(he, arm.node)
            if not proc:
                out.append(ok("LOWER-1", he.qualname, key, where, "no child is lowered through an emitting function", nontrivial=False))
                continue
            if order is None and cls in ("expr", "AST", "keyword", "expr_context") and "*" in proc:
                # a generic walk over the fields of every expression class: it also descends into what Python
                # evaluates conditionally or in another scope, unless the arm names those classes to leave them alone
                named = {n.attr for n in ast.walk(ast.Module(arm.body, [])) if isinstance(n, ast.Attribute) and isinstance(n.value, ast.Name) and n.value.id == "ast"}
                left = sorted(c_ for c_ in CONDITIONAL if c_ not in named and c_ != "BoolOp")
                if left:
                    out.append(bad("LOWER-1", he.qualname, key, where, f"the arm for ast.{cls} lowers every field of every node class generically, including {', '.join('ast.' + c_ + '.' + '/'.join(sorted(CONDITIONAL[c_])) for c_ in left)}: an and/or found there is hoisted out of the scope that binds its names (NameError, or one value for every element) or runs although Python would not evaluate it"))
                    continue
            if order is None:
                out.append(unresolved("LOWER-1", he.qualname, key, where, f"evaluation order of ast.{cls} unknown to the checker"))
                continue
            if "*" in proc:
                proc = {f: proc["*"] for f in order}
            in_order = [f for f in order if f in proc]
            by_line = sorted((f for f in proc if f in order), key=lambda f: A.lineno(proc[f]))
            key = f"arm ast.{cls}: hoists {','.join(by_line)}"
            hazards = []
            if by_line != in_order and "*" not in _processed_fields(arm.body, subj, em):
                hazards.append(f"children are hoisted in the order {by_line} but Python evaluates them in the order {in_order}")
            for f in proc:
                if f in CONDITIONAL.get(cls, ()):
                    hazards.append(f"'{f}' of ast.{cls} is evaluated only conditionally, but its statements are hoisted into the enclosing block and run unconditionally")
            for f in proc:
                if f not in order:
                    continue
                earlier = order[: order.index(f)]
                if earlier:
                    hazards.append(f"'{f}' is hoisted although '{earlier[0]}' is evaluated before it and stays in place")
                elif f in MULTI:
                    hazards.append(f"the operands in '{f}' are hoisted one after the other while earlier operands stay in place")
                elif len(order) > 1 and any(g in proc for g in order[order.index(f) + 1:]):
                    pass
            if len([f for f in proc if f in order]) > 1 or any(f in MULTI for f in proc):
                pass
            if hazards:
                out.append(bad("LOWER-1", he.qualname, key, where, f"ast.{cls}: " + "; ".join(hazards) + ": statements emitted for a later operand run before an earlier operand is evaluated", hazards))
            else:
                out.append(ok("LOWER-1", he.qualname, key, where, f"only the first-evaluated child of ast.{cls} is lowered"))
    return out


@rule("LOWER-2", 2, "an operand of and/or that Python evaluates conditionally is lowered only inside the block guarded by the preceding operand")
def lower2(ctx) -> List[Ob]:
    out: List[Ob] = []
    he = _handle_expression(ctx)
    em = _emitters(ctx)
    params = [p.arg for p in he.params if p.arg != "self"]
    chains_ = find_class_chains(he.node, params[0])
    if not chains_:
        raise AnalysisError("handle_expression: no class dispatch found")
    subj = chains_[0][0]
    arms = [a for _s, arms_ in chains_ for a in arms_]
    boolarm = next((a for a in arms if a.test is not None and "BoolOp" in A.unparse(a.test)), None)
    if boolarm is None:
        raise AnalysisError("handle_expression: no BoolOp arm")
    # every call of an emitting function inside the arm whose argument reaches values[i>=1]
    for sub in chain_arms(boolarm.body[0]) if boolarm.body and isinstance(boolarm.body[0], ast.If) else []:
        label = A.unparse(sub.test) if sub.test is not None else "else"
        key = f"BoolOp arm ({label})"
        where = ctx.where(he, sub.node)
        early = []
        for c in A.walk_no_nested(ast.Module(sub.body, [])):
            if isinstance(c, ast.Call) and isinstance(c.func, ast.Attribute) and c.func.attr in em and c.func.attr != "handle_bool_op":
                for a in c.args:
                    txt = A.unparse(a)
                    comp = next((x for x in A.ancestors(c) if isinstance(x, (ast.ListComp, ast.GeneratorExp))), None)
                    if comp is not None and any(f"{subj}.values" == A.unparse(g.iter) for g in comp.generators):
                        early.append(f"{A.unparse(comp)[:60]} lowers every operand, including the conditional ones, before the guarded block exists")
                    elif f"{subj}.values[" in txt and not txt.endswith("[0]") and ".op" not in txt:
                        early.append(f"{A.unparse(c)[:60]} lowers a conditional operand early")
        if early:
            out.append(bad("LOWER-2", he.qualname, key, where, early[0] + ": an operand that must run only if the first one allows it runs unconditionally and first", early))
        else:
            out.append(ok("LOWER-2", he.qualname, key, where, "conditional operands are handed unprocessed to handle_bool_op"))
    # and/or nodes that the lowering builds itself: while an arm exists that lowers its operands before the
    # guard (the finding above), a built node whose operand at index >= 1 is itself an and/or must be handed
    # to handle_bool_op (which lowers that operand inside the guarded block), never back to the arity dispatch
    eager = any(o.state == "violation" and o.rule == "LOWER-2" for o in out)
    for c in A.walk_no_nested(ast.Module(boolarm.body, [])):
        if not (isinstance(c, ast.Call) and isinstance(c.func, ast.Attribute) and c.func.attr in em and c.args):
            continue
        built = c.args[0]
        if isinstance(built, ast.Name):
            built = see_through(ctx, he, built) or built
        if not (isinstance(built, ast.Call) and (A.dotted(built.func) or "") == "ast.BoolOp" and len(built.args) >= 2 and isinstance(built.args[1], (ast.List, ast.Tuple))):
            continue
        ops = built.args[1].elts
        nested_later = []
        for o_ in ops[1:]:
            v_ = see_through(ctx, he, o_) if isinstance(o_, ast.Name) else o_
            if isinstance(v_, ast.Call) and (A.dotted(v_.func) or "") == "ast.BoolOp":
                nested_later.append(A.unparse(o_)[:40])
        key = "built and/or node -> " + c.func.attr + ": " + A.alpha_key(built)[:80]
        where = ctx.where(he, c)
        if nested_later and c.func.attr != "handle_bool_op" and eager:
            out.append(bad("LOWER-2", he.qualname, key, where, f"an and/or node built by the lowering has the and/or node {nested_later[0]} as a later operand and is sent back through the arity dispatch: it reaches the arm that lowers every operand before the guard exists, so the later half of a chain is always evaluated"))
        else:
            out.append(ok("LOWER-2", he.qualname, key, where, "built and/or node with a nested later operand goes to handle_bool_op" if nested_later else "no nested and/or among the later operands"))
    # inside handle_bool_op: values[1] is lowered after the guarded block was opened
    hb = ctx.prog.cls(FRONT).find_method("handle_bool_op")
    if hb is None:
        raise AnalysisError("handle_bool_op not found")
    cfg = ctx.cfg(hb)
    for c in A.walk_no_nested(hb.node):
        if isinstance(c, ast.Call) and isinstance(c.func, ast.Attribute) and c.func.attr in em and c.args and ".values[1]" in A.unparse(c.args[0]):
            key = A.alpha_key(A.enclosing_stmt(c))
            where = ctx.where(hb, c)
            n = cfg.node_of(c)
            opens = [z for z in cfg.nodes if z.stmt is not None and any(isinstance(k, ast.Call) and isinstance(k.func, ast.Attribute) and k.func.attr == "add_block" for k in z.walk())]
            if any(cfg.dominates(z, n) for z in opens):
                out.append(ok("LOWER-2", hb.qualname, key, where, "second operand lowered after the guarded block was opened"))
            else:
                out.append(bad("LOWER-2", hb.qualname, key, where, "the second operand is lowered before the block that guards it is opened: it is evaluated unconditionally"))
    return out


@rule("LOWER-3", 2, "the loop stack brackets exactly the loop body: pushed before the body, popped before the else clause")
def lower3(ctx) -> List[Ob]:
    out: List[Ob] = []
    front = ctx.prog.cls(FRONT)
    for mname in ("handle_while", "handle_for"):
        m = front.find_method(mname)
        if m is None:
            raise AnalysisError(f"{FRONT}.{mname} not found")
        cfg = ctx.cfg(m)
        node_p = [p.arg for p in m.params if p.arg != "self"][0]
        push = [cfg.node_of(c) for c in method_calls(m.node, "append") if "loop_stack" in A.unparse(c.func.value)]
        pop = [cfg.node_of(c) for c in method_calls(m.node, "pop") if "loop_stack" in A.unparse(c.func.value)]
        body = [cfg.node_of(c) for c in method_calls(m.node, "codegen") if c.args and A.unparse(c.args[0]) == f"{node_p}.body"]
        orelse = [cfg.node_of(c) for c in method_calls(m.node, "codegen") if c.args and A.unparse(c.args[0]) == f"{node_p}.orelse"]
        key = f"{mname}: loop stack bracket"
        where = ctx.where(m)
        if len(push) != 1 or len(pop) != 1 or len(body) != 1 or len(orelse) != 1:
            out.append(bad("LOWER-3", m.qualname, key, where, f"expected one push, one pop, one body lowering and one else lowering; found {len(push)}/{len(pop)}/{len(body)}/{len(orelse)}"))
            continue
        pu, po, bo, el = push[0], pop[0], body[0], orelse[0]
        probs = []
        if not cfg.dominates(pu, bo):
            probs.append("the body is lowered without the loop being on the stack: break/continue bind to an outer loop or to nothing")
        if po in cfg.reachable(pu) and bo not in cfg.reachable(pu, avoid=lambda z: z is po):
            probs.append("the stack is popped before the body is lowered")
        if not cfg.dominates(po, el):
            probs.append("the else clause is lowered while the loop is still on the stack: a break in the else clause binds to this loop instead of the enclosing one")
        if cfg.exit in cfg.reachable(pu, avoid=lambda z: z is po):
            probs.append("there is a path on which the loop is never popped")
        # the sealing of the body's last block happens before the pop (it needs the loop's indices)
        seals = [cfg.node_of(c) for c in method_calls(m.node, "seal_block")]
        between = [s for s in seals if s in cfg.reachable(bo, avoid=lambda z: z is po)]
        if not between:
            probs.append("the last block of the body is sealed after the loop was popped: its continue/break targets belong to the outer loop")
        if probs:
            out.append(bad("LOWER-3", m.qualname, key, where, "; ".join(probs)))
        else:
            out.append(ok("LOWER-3", m.qualname, key, where, "push -> body -> seal -> pop -> else on every path"))
        # the targets on the stack are the loop's own: `continue` goes where the end of the body goes (the block the
        # body's last block is sealed to), `break` to the block that is opened last (the loop's exit)
        key2 = f"{mname}: continue / break targets are the loop's head / exit"
        pcall = pu.stmt.value if isinstance(pu.stmt, ast.Expr) else None
        li = pcall.args[0] if isinstance(pcall, ast.Call) and pcall.args else None
        if isinstance(li, ast.Name):
            from .common import see_through

            li = see_through(ctx, m, li) or li
        seal_calls = [c for c in method_calls(m.node, "seal_block") if cfg.node_of(c) in between and c.args]
        adds = [c for c in method_calls(m.node, "add_block") if c.args]
        if isinstance(li, ast.Call) and len(li.args) >= 2 and seal_calls and adds:
            head_t, exit_t = A.unparse(li.args[0]), A.unparse(li.args[1])
            back_t = A.unparse(seal_calls[0].args[0])
            last_add = sorted(adds, key=lambda c: A.lineno(c))[-1]
            last_t = A.unparse(last_add.args[0])
            p2 = []
            if head_t != back_t:
                p2.append(f"`continue` is sent to {head_t} but the end of the body goes to {back_t}: a taken continue skips (or repeats) what the regular back edge runs - with an and/or test the operands are not evaluated again")
            if exit_t != last_t:
                p2.append(f"`break` is sent to {exit_t} but the loop's exit block is {last_t}")
            if p2:
                out.append(bad("LOWER-3", m.qualname, key2, ctx.where(m, pu.stmt), "; ".join(p2)))
            else:
                out.append(ok("LOWER-3", m.qualname, key2, ctx.where(m, pu.stmt), f"continue -> {head_t} (= the sealing target of the body), break -> {exit_t} (= the block opened last)"))
        else:
            out.append(unresolved("LOWER-3", m.qualname, key2, where, "cannot read the indices pushed on the loop stack"))
    return out


@rule("LOWER-4", 6, "only pass/break/continue are pruned as no-ops; every simple statement is placed in a block exactly once; blocks get one or two successors")
def lower4(ctx) -> List[Ob]:
    out: List[Ob] = []
    prog = ctx.prog
    astcfg = prog.cls("ASTCFG")
    pn = astcfg.find_method("prune_noops")
    if pn is None:
        raise AnalysisError("ASTCFG.prune_noops not found")
    allowed = {"Pass", "Break", "Continue"}
    tuples = [s for s in A.walk_no_nested(pn.node) if isinstance(s, ast.Assign) and isinstance(s.value, ast.Tuple) and all((A.dotted(e) or "").startswith("ast.") for e in s.value.elts)]
    used = set()
    for c in A.walk_no_nested(pn.node):
        if isinstance(c, ast.Call) and isinstance(c.func, ast.Name) and c.func.id == "isinstance" and len(c.args) == 2:
            a = c.args[1]
            if isinstance(a, ast.Name):
                for s in tuples:
                    if s.targets[0].id == a.id:
                        used |= {(A.dotted(e) or "").split(".")[-1] for e in s.value.elts}
            elif isinstance(a, ast.Tuple):
                used |= {(A.dotted(e) or "").split(".")[-1] for e in a.elts}
            else:
                d = A.dotted(a)
                if d:
                    used.add(d.split(".")[-1])
    key = "classes pruned as no-ops"
    if not used:
        out.append(unresolved("LOWER-4", pn.qualname, key, ctx.where(pn), "cannot read which node classes are pruned"))
    elif used <= allowed:
        out.append(ok("LOWER-4", pn.qualname, key, ctx.where(pn), f"pruned classes {sorted(used)}"))
    else:
        out.append(bad("LOWER-4", pn.qualname, key, ctx.where(pn), f"statements of class {sorted(used - allowed)} are dropped as no-ops: reachable statements disappear from the graph"))
    # simple-statement arms of the dispatcher append exactly once on every path
    disp_fn, subj, arms, hier = _dispatcher(ctx)
    cfg = ctx.cfg(disp_fn)
    for arm in arms:
        if arm.test is None:
            continue
        appends = [c for c in method_calls(ast.Module(arm.body, []), "append") if isinstance(c.func.value, ast.Attribute) and c.func.value.attr == "instructions"]
        handlers = [c for c in A.walk_no_nested(ast.Module(arm.body, [])) if isinstance(c, ast.Call) and isinstance(c.func, ast.Attribute) and c.func.attr.lstrip("_").startswith("handle_") and c.func.attr.lstrip("_") != "handle_expression"]
        label = A.unparse(arm.test)[:60]
        key = f"dispatcher arm {A.alpha_key(arm.test)[:80]}"
        where = ctx.where(disp_fn, arm.node)
        if handlers and not appends:
            out.append(ok("LOWER-4", disp_fn.qualname, key, where, f"compound statement delegated to {handlers[0].func.attr}", nontrivial=False))
            continue
        good = len(appends) == 1 and appends[0].args and A.unparse(appends[0].args[0]) == subj
        if good:
            an = cfg.node_of(appends[0])
            first = cfg.node_of(arm.body[0])
            # on every path through the arm the append is executed
            good = first is an or (cfg.exit not in cfg.reachable(first, avoid=lambda z: z is an, include_src=True))
        if good:
            out.append(ok("LOWER-4", disp_fn.qualname, key, where, "the statement is appended to the current block exactly once"))
        else:
            out.append(bad("LOWER-4", disp_fn.qualname, key, where, f"arm ({label}) does not append its statement exactly once on every path ({len(appends)} append(s)): the statement is dropped or duplicated"))
    # arity census of set_jump_targets
    front = prog.cls(FRONT)
    n1 = n2 = 0
    for m in list(front.methods.values()) + list(prog.cls("WritableASTBlock").methods.values()):
        for c in method_calls(m.node, "set_jump_targets"):
            k = len(c.args)
            star = any(isinstance(a, ast.Starred) for a in c.args)
            key = "set_jump_targets " + A.alpha_key(c)
            if star or k not in (1, 2):
                out.append(bad("LOWER-4", m.qualname, key, ctx.where(m, c), f"a block is given {k if not star else 'a variable number of'} successors: input blocks must have one or two ordered successors"))
            else:
                n1 += k == 1
                n2 += k == 2
    out.append(ok("LOWER-4", FRONT, "set_jump_targets arity census", ctx.where(front.methods["__init__"]) if "__init__" in front.methods else "", f"{n1} call sites with one successor, {n2} with two"))
    ctx.stats["LOWER-4.arity"] = {"one": n1, "two": n2}
    return out


def _norm_pred(e: ast.AST, subj: str) -> str:
    class R(ast.NodeTransformer):
        def visit_Name(self, n):
            return ast.Name(id="B", ctx=n.ctx) if n.id == subj else n

    return " ".join(A.unparse(R().visit(ast.parse(A.unparse(e), mode="eval").body)).split())


@rule("LOWER-5", 2, "the linear walks of the code generator skip exactly the regions that are emitted from their head block (branch regions)")
def lower5(ctx) -> List[Ob]:
    out: List[Ob] = []
    back = ctx.prog.cls(BACK)
    tr = back.find_method("transform")
    cg = _codegen(ctx)
    preds = []
    # (1) explicit loops over the region view (top level in transform, per region in codegen or a helper
    #     nested in it): `if <pred>: continue` or its normal form `if not <pred>: <emit>`
    def _view_iter(f_, it_: ast.AST) -> bool:
        if "concealed_region_view" in A.unparse(it_):
            return True
        for n_ in ast.walk(it_):
            if isinstance(n_, ast.Name):
                v_ = see_through(ctx, f_, n_)
                if v_ is not None and v_ is not n_ and "concealed_region_view" in A.unparse(v_):
                    return True
        return False

    def _in_backend(f_) -> bool:
        # a method of the back-end class, or a function nested in one (the per-region walk may live in
        # codegen, in a closure of it, or in a method of its own)
        while f_ is not None:
            if f_.cls is back and f_.parent_fn is None:
                return True
            f_ = f_.parent_fn
        return False

    walkers = [tr] + [f for f in ctx.prog.functions if f is not tr and _in_backend(f)]
    for f in walkers:
        for lp in [n for n in A.walk_no_nested(f.node) if isinstance(n, ast.For)]:
            if not _view_iter(f, lp.iter):
                continue
            names = [x.id for x in ast.walk(lp.target) if isinstance(x, ast.Name)]
            who_ = "transform" if f is tr else f.qualname
            for s in lp.body:
                if isinstance(s, ast.If) and s.body and isinstance(s.body[0], ast.Continue):
                    preds.append((who_, _norm_pred(s.test, names[-1]), ctx.where(f, s)))
                elif isinstance(s, ast.If) and not s.orelse and s is lp.body[-1] and isinstance(s.test, ast.UnaryOp) and isinstance(s.test.op, ast.Not) and method_calls(ast.Module(s.body, []), "codegen"):
                    # canonical form of the guard clause: `if not <pred>: <emit>`
                    preds.append((who_, _norm_pred(s.test.operand, names[-1]), ctx.where(f, s)))
    # (2) per-region view: comprehension with `if not (<pred>)`
    for f in ctx.prog.functions:
        if f is not tr and _in_backend(f):
            for comp in [n for n in A.walk_no_nested(f.node) if isinstance(n, (ast.GeneratorExp, ast.ListComp))]:
                for g in comp.generators:
                    if _view_iter(f, g.iter) and isinstance(g.target, ast.Name):
                        for cond in g.ifs:
                            if isinstance(cond, ast.UnaryOp) and isinstance(cond.op, ast.Not):
                                preds.append((f.qualname, _norm_pred(cond.operand, g.target.id), ctx.where(f, comp)))
                            else:
                                preds.append((f.qualname, "not (" + _norm_pred(cond, g.target.id) + ")", ctx.where(f, comp)))
    if len(preds) < 2:
        raise AnalysisError(f"expected two linear walks over the region view, found {len(preds)}")
    ref = "type(B) is RegionBlock and B.kind == 'branch'"
    for who, p, where in preds:
        key = f"skip predicate of {who}"
        if p == preds[0][1] and ("'branch'" in p and "RegionBlock" in p):
            out.append(ok("LOWER-5", who, key, where, f"skips {p}"))
        elif p != preds[0][1]:
            out.append(bad("LOWER-5", who, key, where, f"this walk skips '{p}' but the other skips '{preds[0][1]}': a region is emitted twice or not at all"))
        else:
            out.append(bad("LOWER-5", who, key, where, f"the walks skip '{p}', not the branch regions ({ref}): branch regions are emitted from their head *and* linearly, or other regions are dropped"))
    return out


@rule("LOWER-6", 2, "pruning never removes the entry block")
def lower6(ctx) -> List[Ob]:
    out: List[Ob] = []
    prog = ctx.prog
    front = prog.cls(FRONT)
    init = front.find_method("__init__")
    if init is None:
        raise AnalysisError("front end __init__ not found")
    first = [c for c in method_calls(init.node, "add_block") if c.args and isinstance(c.args[0], ast.Constant)]
    if not first:
        raise AnalysisError("cannot find the genesis block (first add_block(<const>))")
    entry = str(first[0].args[0].value)
    astcfg = prog.cls("ASTCFG")
    for m in astcfg.methods.values():
        cfg = ctx.cfg(m)
        dels = [c for c in method_calls(m.node, "pop") if A.unparse(c.func.value) == "self"]
        dels += [d for d in A.walk_no_nested(m.node) if isinstance(d, ast.Delete) and any(isinstance(t, ast.Subscript) and A.unparse(t.value) == "self" for t in d.targets)]
        for d in dels:
            key = f"{m.name}: " + A.alpha_key(A.enclosing_stmt(d) or d)
            where = ctx.where(m, d)
            dn = cfg.node_of(d)
            kexpr = d.args[0] if isinstance(d, ast.Call) and d.args else None
            kname = A.unparse(kexpr) if kexpr is not None else None
            reason = None
            # (a) explicit exclusion of the entry key that skips the deletion
            for z in cfg.nodes:
                if z.kind == "if" and kname and kname in A.unparse(z.stmt.test) and repr(entry) in A.unparse(z.stmt.test).replace('"', "'"):
                    t = z.stmt.test
                    eq = isinstance(t, ast.Compare) and isinstance(t.ops[0], ast.Eq)
                    ne = isinstance(t, ast.Compare) and isinstance(t.ops[0], ast.NotEq)
                    if eq and z.stmt.body and isinstance(z.stmt.body[-1], (ast.Continue, ast.Return)) and cfg.dominates(z, dn):
                        reason = f"'{A.unparse(t)}' skips the entry before the deletion"
                    if ne and any(a is z.stmt for a in A.ancestors(d)):
                        reason = f"deletion only under '{A.unparse(t)}'"
            # (b) deletion of what is not in a set seeded with the entry key
            if reason is None:
                for anc in A.ancestors(d):
                    if isinstance(anc, ast.If) and isinstance(anc.test, ast.Compare) and isinstance(anc.test.ops[0], ast.NotIn):
                        R = A.unparse(anc.test.comparators[0])
                        # R grows from a work-list seeded with the entry
                        seeds = [s for s in A.walk_no_nested(m.node) if isinstance(s, (ast.Assign, ast.AnnAssign)) and s.value is not None and repr(entry) in A.unparse(s.value).replace('"', "'")]
                        adds = [c for c in method_calls(m.node, "add") if A.unparse(c.func.value) == R]
                        if seeds and adds:
                            reason = f"only blocks outside '{R}' are deleted and '{R}' is the closure of a work-list seeded with the entry {entry!r}"
            # (b') the same, with the filter in the iterable: for k in [k for k in self if k not in R]: pop(k)
            if reason is None and kname:
                for anc in A.ancestors(d):
                    comp_site = isinstance(anc, (ast.SetComp, ast.ListComp)) and len(anc.generators) == 1 and not anc.generators[0].ifs and A.unparse(anc.generators[0].target) == kname
                    if isinstance(anc, ast.For) and A.unparse(anc.target) == kname or comp_site:
                        # (the deletions may also be spelt as the elements of a display: {self.pop(k) for k in doomed})
                        it_ = anc.generators[0].iter if comp_site else anc.iter
                        if comp_site:
                            anc = A.enclosing_stmt(anc) or anc
                        if isinstance(it_, ast.Call) and isinstance(it_.func, ast.Name) and it_.func.id in ("list", "tuple", "sorted") and it_.args:
                            it_ = it_.args[0]
                        if isinstance(it_, ast.Name):
                            ds_ = [x for x in cfg.reaching_defs(anc, it_.id) if x.stmt is not None]
                            vals_ = [x.stmt.value for x in ds_ if isinstance(x.stmt, (ast.Assign, ast.AnnAssign)) and x.stmt.value is not None]
                            it_ = vals_[0] if len(ds_) == 1 and len(vals_) == 1 else it_
                        if isinstance(it_, (ast.ListComp, ast.GeneratorExp, ast.SetComp)) and len(it_.generators) == 1:
                            g_ = it_.generators[0]
                            tv_ = A.unparse(g_.target)
                            for c_ in g_.ifs:
                                if isinstance(c_, ast.Compare) and len(c_.ops) == 1 and isinstance(c_.ops[0], ast.NotIn) and A.unparse(c_.left) == tv_ and A.unparse(it_.elt) == tv_:
                                    R = A.unparse(c_.comparators[0])
                                    seeds = [s_ for s_ in A.walk_no_nested(m.node) if isinstance(s_, (ast.Assign, ast.AnnAssign)) and s_.value is not None and repr(entry) in A.unparse(s_.value).replace('"', "'")]
                                    adds = [c2 for c2 in method_calls(m.node, "add") if A.unparse(c2.func.value) == R]
                                    if seeds and adds:
                                        reason = f"only blocks outside '{R}' are deleted (filter in the iterable) and '{R}' is the closure of a work-list seeded with the entry {entry!r}"
            # (b'') the deletions as the elements of a display that filters by itself: {self.pop(k) for k in self if k not in R}
            if reason is None and kname:
                for anc in A.ancestors(d):
                    if isinstance(anc, (ast.SetComp, ast.ListComp)) and len(anc.generators) == 1 and A.unparse(anc.generators[0].target) == kname:
                        for c_ in anc.generators[0].ifs:
                            if isinstance(c_, ast.Compare) and len(c_.ops) == 1 and isinstance(c_.ops[0], ast.NotIn) and A.unparse(c_.left) == kname:
                                R = A.unparse(c_.comparators[0])
                                seeds = [s_ for s_ in A.walk_no_nested(m.node) if isinstance(s_, (ast.Assign, ast.AnnAssign)) and s_.value is not None and repr(entry) in A.unparse(s_.value).replace('"', "'")]
                                adds = [c2 for c2 in method_calls(m.node, "add") if A.unparse(c2.func.value) == R]
                                if seeds and adds:
                                    reason = f"only blocks outside '{R}' are deleted (filter of the display) and '{R}' is the closure of a work-list seeded with the entry {entry!r}"
            # (a') the same exclusion anywhere in the conditions under which the deletion runs
            if reason is None and kname:
                from .ctrl import _guard_conditions

                eqs = {f"{kname} == {entry!r}", f"{entry!r} == {kname}"}
                nes = {f"{kname} != {entry!r}", f"{entry!r} != {kname}"}
                for t_, pol_ in _guard_conditions(m.node, A.enclosing_stmt(d) or d):
                    try:
                        e_ = ast.parse(t_, mode="eval").body
                    except SyntaxError:
                        continue
                    while isinstance(e_, ast.UnaryOp) and isinstance(e_.op, ast.Not):
                        e_, pol_ = e_.operand, not pol_
                    parts_or = [A.unparse(v_).replace('"', "'") for v_ in e_.values] if isinstance(e_, ast.BoolOp) and isinstance(e_.op, ast.Or) else [A.unparse(e_).replace('"', "'")]
                    parts_and = [A.unparse(v_).replace('"', "'") for v_ in e_.values] if isinstance(e_, ast.BoolOp) and isinstance(e_.op, ast.And) else [A.unparse(e_).replace('"', "'")]
                    if not pol_ and eqs & set(parts_or):
                        reason = f"the deletion runs only when '{t_[:50]}' is false, which excludes the entry"
                    if pol_ and nes & set(parts_and):
                        reason = f"the deletion runs only under '{t_[:50]}'"
            if reason:
                out.append(ok("LOWER-6", m.qualname, key, where, reason))
            else:
                out.append(bad("LOWER-6", m.qualname, key, where, f"the deletion can remove the entry block {entry!r}: the graph is left without a block that has no predecessor (restructuring asserts in find_head)"))
    return out


def _arm_for(ctx, cg, cls_name: str):
    params = [p.arg for p in cg.params if p.arg != "self"]
    chains = find_class_chains(cg.node, params[0])
    if not chains:
        raise AnalysisError("codegen: no class dispatch")
    for a in chains[0][1]:
        if a.test is not None and cls_name in A.unparse(a.test):
            return a, params[0]
    return None, params[0]


@rule("LOWER-7", 2, "the return value travels through one reserved variable: the name assigned at a return statement is the name the synthetic return block returns")
def lower7(ctx) -> List[Ob]:
    out: List[Ob] = []
    cg = _codegen(ctx)
    parm, subj = _arm_for(ctx, cg, "PythonASTBlock")
    rarm, _ = _arm_for(ctx, cg, "SyntheticReturn")
    if parm is None or rarm is None:
        raise AnalysisError("codegen: arms for PythonASTBlock / SyntheticReturn not found")
    written = set()
    for c in A.walk_no_nested(ast.Module(parm.body, [])):
        if isinstance(c, ast.Call) and (A.dotted(c.func) or "") == "ast.Assign" and c.args:
            tg = c.args[0]
            for n in ast.walk(tg):
                if isinstance(n, ast.Call) and (A.dotted(n.func) or "") == "ast.Name" and n.args and isinstance(n.args[0], ast.Constant):
                    # only the assignment that stores a Return's value
                    stmt_txt = A.unparse(A.enclosing_stmt(c) or c)
                    if ".value" in stmt_txt or "val" in stmt_txt:
                        written.add(n.args[0].value)
    read = set()
    for c in A.walk_no_nested(ast.Module(rarm.body, [])):
        if isinstance(c, ast.Call) and (A.dotted(c.func) or "") == "ast.Return" and c.args:
            for n in ast.walk(c.args[0]):
                if isinstance(n, ast.Call) and (A.dotted(n.func) or "") == "ast.Name" and n.args and isinstance(n.args[0], ast.Constant):
                    read.add(n.args[0].value)
    key = "return variable written"
    if len(written) == 1:
        out.append(ok("LOWER-7", cg.qualname, key, ctx.where(cg, parm.node), f"return statements assign {sorted(written)[0]}"))
    else:
        out.append(unresolved("LOWER-7", cg.qualname, key, ctx.where(cg, parm.node), f"cannot identify the variable a return statement assigns ({sorted(written)})"))
        return out
    key = "return variable read"
    if read == written:
        out.append(ok("LOWER-7", cg.qualname, key, ctx.where(cg, rarm.node), f"the synthetic return block returns {sorted(read)[0]}"))
    elif not read:
        out.append(bad("LOWER-7", cg.qualname, key, ctx.where(cg, rarm.node), "the synthetic return block does not return the reserved return-value variable"))
    else:
        out.append(bad("LOWER-7", cg.qualname, key, ctx.where(cg, rarm.node), f"return statements assign {sorted(written)} but the synthetic return block returns {sorted(read)}: every function returns an unbound / stale variable"))
    return out


@rule("LOWER-8", 3, "the loop flag of a generated while loop: one name per nesting level, set before the loop, tested by the loop, and written by that loop's latch")
def lower8(ctx) -> List[Ob]:
    out: List[Ob] = []
    cg = _codegen(ctx)
    cfg = ctx.cfg(cg)
    larm, subj = _arm_for(ctx, cg, "SyntheticExitingLatch")
    rarm, _ = _arm_for(ctx, cg, "RegionBlock")
    if larm is None or rarm is None:
        raise AnalysisError("codegen: arms for RegionBlock / SyntheticExitingLatch not found")

    def fstrings(body):
        found = [(s, A.unparse(s.value), s.value) for s in A.walk_no_nested(ast.Module(body, [])) if isinstance(s, ast.Assign) and isinstance(s.value, ast.JoinedStr)]
        # the name built where it is used: ast.Name(f"..")
        for c_ in A.walk_no_nested(ast.Module(body, [])):
            if isinstance(c_, ast.Call) and (A.dotted(c_.func) or "") == "ast.Name" and c_.args and isinstance(c_.args[0], ast.JoinedStr):
                st_ = A.enclosing_stmt(c_)
                if st_ is not None and not any(f_[2] is c_.args[0] for f_ in found) and not any(f_[1] == A.unparse(c_.args[0]) and f_[0] is st_ for f_ in found):
                    found.append((st_, A.unparse(c_.args[0]), c_.args[0]))
        return found

    lf, rf = fstrings(larm.body), fstrings(rarm.body)
    key = "same flag skeleton in loop and latch"
    if len(lf) == 1 and len(rf) == 1 and lf[0][1] == rf[0][1]:
        out.append(ok("LOWER-8", cg.qualname, key, ctx.where(cg, rf[0][0]), f"both build {rf[0][1]}"))
    elif len(lf) == 1 and len(rf) == 1:
        out.append(bad("LOWER-8", cg.qualname, key, ctx.where(cg, lf[0][0]), f"the loop tests {rf[0][1]} but its latch assigns {lf[0][1]}: the generated while loop never terminates or exits at once"))
        return out
    else:
        out.append(unresolved("LOWER-8", cg.qualname, key, ctx.where(cg), "cannot find the loop flag names"))
        return out
    counter = None
    for n in ast.walk(rf[0][2]):
        if isinstance(n, ast.FormattedValue):
            counter = A.unparse(n.value)
    # loop arm: counter incremented before the flag name is built and before the body is generated
    inc = [s for s in A.walk_no_nested(ast.Module(rarm.body, [])) if isinstance(s, ast.AugAssign) and A.unparse(s.target) == counter and isinstance(s.op, ast.Add)]
    key = "loop arm: level counter pushed before name and body"
    body_calls = [c for c in A.walk_no_nested(ast.Module(rarm.body, [])) if isinstance(c, ast.Call) and ((isinstance(c.func, ast.Name) and c.func.id == "codegen_view") or (isinstance(c.func, ast.Attribute) and c.func.attr in ("codegen_view", "codegen")))]
    # the push dominates the flag name; the body is never generated on a path that pushes afterwards (a body call
    # shared by all kinds sits behind the push of the loop kind, it is not dominated by it)
    inc_n = cfg.node_of(inc[0]) if inc else None
    body_after = [b for b in body_calls if inc_n is not None and cfg.node_of(b) in cfg.reachable(inc_n)]
    body_before = [b for b in body_calls if inc_n is not None and inc_n in cfg.reachable(cfg.node_of(b))]
    if inc and cfg.dominates(inc_n, cfg.node_of(rf[0][0])) and (body_after or not body_calls) and not body_before:
        out.append(ok("LOWER-8", cg.qualname, key, ctx.where(cg, inc[0]), f"{counter} += 1, then the name, then the body"))
    else:
        out.append(bad("LOWER-8", cg.qualname, key, ctx.where(cg, rarm.node), f"the nesting counter {counter} is not advanced before the flag name is built: nested loops share one flag"))
    # latch arm: the name is built before the counter is popped
    dec = [s for s in A.walk_no_nested(ast.Module(larm.body, [])) if isinstance(s, ast.AugAssign) and A.unparse(s.target) == counter and isinstance(s.op, ast.Sub)]
    key = "latch arm: level counter popped after the name"
    if dec and cfg.dominates(cfg.node_of(lf[0][0]), cfg.node_of(dec[0])) and len(dec) == len(inc) == 1:
        out.append(ok("LOWER-8", cg.qualname, key, ctx.where(cg, dec[0]), f"name built with the current level, then {counter} -= 1"))
    else:
        out.append(bad("LOWER-8", cg.qualname, key, ctx.where(cg, larm.node), f"the latch does not pop the nesting counter {counter} exactly once after using it: a loop that follows, or encloses, gets another loop's flag"))
    # every other place that builds the flag name writes the flag of the innermost open loop, i.e. acts as that
    # loop's latch: it has to pop the level as well
    skeleton = rf[0][1]
    known = {id(lf[0][0]), id(rf[0][0])}
    for s_ in A.walk_no_nested(cg.node):
        if isinstance(s_, ast.Assign) and isinstance(s_.value, ast.JoinedStr) and A.unparse(s_.value) == skeleton and id(s_) not in known:
            key = "further writer of the loop flag: " + A.alpha_key(s_)
            sn = cfg.node_of(s_)
            decs = [d_ for d_ in A.walk_no_nested(cg.node) if isinstance(d_, ast.AugAssign) and A.unparse(d_.target) == counter and isinstance(d_.op, ast.Sub)]
            popped = any(cfg.dominates(sn, cfg.node_of(d_)) and cfg.exit not in cfg.reachable(sn, avoid=lambda z, dn=cfg.node_of(d_): z is dn) for d_ in decs)
            if popped:
                out.append(ok("LOWER-8", cg.qualname, key, ctx.where(cg, s_), f"builds the flag name, then {counter} -= 1 on every path"))
            else:
                out.append(bad("LOWER-8", cg.qualname, key, ctx.where(cg, s_), f"this arm builds the flag name of the innermost open loop (it ends that loop) but does not pop the nesting counter {counter}: the latch of the enclosing loop then writes another loop's flag and the enclosing loop never terminates"))
    return out


@rule("LOWER-9", 3, "a source block is emitted whole and once: all its statements, with the last one replaced by the construct built from it")
def lower9(ctx) -> List[Ob]:
    out: List[Ob] = []
    cg = _codegen(ctx)
    parm, subj = _arm_for(ctx, cg, "PythonASTBlock")
    if parm is None:
        raise AnalysisError("codegen: no PythonASTBlock arm")
    tree = f"{subj}.tree"
    for r in [n for n in A.walk_no_nested(ast.Module(parm.body, [])) if isinstance(n, ast.Return) and n.value is not None]:
        v = r.value
        key = "return " + A.alpha_key(v)
        where = ctx.where(cg, r)
        txt = A.unparse(v)
        if txt == tree:
            out.append(ok("LOWER-9", cg.qualname, key, where, "all statements of the block"))
            continue
        star = isinstance(v, ast.List) and len(v.elts) == 2 and isinstance(v.elts[0], ast.Starred) and A.unparse(v.elts[0].value) == f"{tree}[:-1]"
        if star or (isinstance(v, ast.BinOp) and isinstance(v.op, ast.Add) and A.unparse(v.left) == f"{tree}[:-1]" and isinstance(v.right, ast.List) and len(v.right.elts) == 1):
            # the appended construct must be built from the block's last node
            el = v.elts[1] if star else v.right.elts[0]
            src_ok = False
            cfg = ctx.cfg(cg)
            seen = set()
            work = [el]
            while work:
                e = work.pop()
                if f"{tree}[-1]" in A.unparse(e):
                    src_ok = True
                    break
                for n in ast.walk(e):
                    if isinstance(n, ast.Name) and n.id not in seen:
                        seen.add(n.id)
                        for d in cfg.reaching_defs(r, n.id):
                            if d.stmt is not None and isinstance(d.stmt, (ast.Assign, ast.AnnAssign)) and getattr(d.stmt, "value", None) is not None:
                                work.append(d.stmt.value)
            if src_ok:
                out.append(ok("LOWER-9", cg.qualname, key, where, "all statements but the last, plus the construct built from the last"))
            else:
                out.append(bad("LOWER-9", cg.qualname, key, where, "the block's last statement is dropped: the construct appended in its place is not built from it"))
            continue
        out.append(bad("LOWER-9", cg.qualname, key, where, f"a source block is emitted as {txt[:60]}: not all of its statements exactly once"))
    return out


@rule("LOWER-10", 1, "the value of a return statement may be absent: the generated assignment substitutes None for it")
def lower10(ctx) -> List[Ob]:
    out: List[Ob] = []
    cg = _codegen(ctx)
    parm, subj = _arm_for(ctx, cg, "PythonASTBlock")
    if parm is None:
        raise AnalysisError("codegen: no PythonASTBlock arm")
    cfg = ctx.cfg(cg)
    # the arm guarded by `type(<tree>[-1]) is ast.Return`
    for st in A.walk_no_nested(ast.Module(parm.body, [])):
        if not isinstance(st, ast.If):
            continue
        for arm in chain_arms(st):
            if arm.test is None or "ast.Return" not in A.unparse(arm.test):
                continue
            assigns = [c for c in A.walk_no_nested(ast.Module(arm.body, [])) if isinstance(c, ast.Call) and (A.dotted(c.func) or "") == "ast.Assign"]
            for c in assigns:
                val = c.args[1] if len(c.args) > 1 else kw(c, "value")
                key = "return value of a bare return"
                where = ctx.where(cg, c)
                if val is None:
                    out.append(unresolved("LOWER-10", cg.qualname, key, where, "assignment without a value"))
                    continue

                def nullable_ok(e: ast.AST) -> bool:
                    # `X if v is None else v` / `v if v is not None else X` with X a constructed node
                    if isinstance(e, ast.IfExp) and isinstance(e.test, ast.Compare) and isinstance(e.test.comparators[0], ast.Constant) and e.test.comparators[0].value is None:
                        return True
                    if isinstance(e, ast.BoolOp) and isinstance(e.op, ast.Or):
                        return True
                    if isinstance(e, ast.Call) and (A.dotted(e.func) or "").startswith("ast."):
                        return True
                    if isinstance(e, ast.Name):
                        defs = [d for d in cfg.reaching_defs(c, e.id) if d.stmt is not None]
                        return bool(defs) and all(isinstance(d.stmt, ast.Assign) and nullable_ok(d.stmt.value) for d in defs)
                    return False

                if nullable_ok(val):
                    out.append(ok("LOWER-10", cg.qualname, key, where, "a missing value is replaced by a constructed None constant"))
                else:
                    out.append(bad("LOWER-10", cg.qualname, key, where, f"the assignment's value is {A.unparse(val)[:50]}, which is None for a bare 'return': the generated tree has Assign(value=None) and cannot be unparsed or compiled"))
    if not out:
        out.append(unresolved("LOWER-10", cg.qualname, "return value of a bare return", ctx.where(cg), "no return-handling arm found"))
    return out


@rule("LOWER-11", 2, "the code generator keeps no state between two transform() calls: every attribute its helpers write is re-initialised by transform()")
def lower11(ctx) -> List[Ob]:
    out: List[Ob] = []
    back = ctx.prog.cls(BACK)
    tr = back.find_method("transform")
    if tr is None:
        raise AnalysisError("SCFG2ASTTransformer.transform not found")
    cfg = ctx.cfg(tr)
    init_in_transform = {}
    for s in A.walk_no_nested(tr.node):
        if isinstance(s, ast.Assign):
            for t in s.targets:
                if isinstance(t, ast.Attribute) and isinstance(t.value, ast.Name) and t.value.id == "self":
                    init_in_transform.setdefault(t.attr, s)
    # attributes written by any method / nested function of the class
    written = {}
    for fn in ctx.prog.functions:
        if not (fn.cls is back or (fn.parent_fn is not None and (fn.parent_fn.cls is back or (fn.parent_fn.parent_fn is not None and fn.parent_fn.parent_fn.cls is back)))):
            continue
        for n in A.walk_no_nested(fn.node):
            tg = []
            if isinstance(n, ast.Assign):
                tg = n.targets
            elif isinstance(n, ast.AugAssign):
                tg = [n.target]
            for t in tg:
                base = t
                while isinstance(base, ast.Subscript):
                    base = base.value
                if isinstance(base, ast.Attribute) and isinstance(base.value, ast.Name) and base.value.id == "self":
                    written.setdefault(base.attr, (fn, n))
            if isinstance(n, ast.Call) and isinstance(n.func, ast.Attribute) and n.func.attr in ("append", "pop", "add", "update", "setdefault", "extend", "clear") and isinstance(n.func.value, ast.Attribute) and isinstance(n.func.value.value, ast.Name) and n.func.value.value.id == "self":
                written.setdefault(n.func.value.attr, (fn, n))
    # the first use of a helper in transform
    helper_calls = [cfg.node_of(c) for c in A.walk_no_nested(tr.node) if isinstance(c, ast.Call) and isinstance(c.func, ast.Attribute) and isinstance(c.func.value, ast.Name) and c.func.value.id == "self"]
    for attr, (fn, n) in sorted(written.items()):
        key = f"state self.{attr}"
        where = ctx.where(fn, n)
        st = init_in_transform.get(attr)
        if st is None:
            out.append(bad("LOWER-11", fn.qualname, key, where, f"self.{attr} is written during code generation but never re-initialised by transform(): what one call leaves there is seen by the next call on the same transformer"))
            continue
        sn = cfg.node_of(st)
        if all(h is None or cfg.dominates(sn, h) or h is sn for h in helper_calls):
            out.append(ok("LOWER-11", fn.qualname, key, where, f"self.{attr} is re-initialised at the start of transform()"))
        else:
            out.append(bad("LOWER-11", fn.qualname, key, where, f"self.{attr} is initialised in transform() only after code generation has started"))
    return out


@rule("LOWER-19", 1, "a front-end counter that numbers generated names (the and/or temporaries) is advanced before anything that can allocate from it again: every re-entrant lowering call of the method runs after the advance, and the name is built from the advanced value")
def lower19(ctx) -> List[Ob]:
    out: List[Ob] = []
    front = ctx.prog.cls(FRONT)
    n = 0
    for m in front.methods.values():
        cfg = ctx.cfg(m)
        advs = [s for s in A.walk_no_nested(m.node) if isinstance(s, ast.AugAssign) and isinstance(s.op, ast.Add) and isinstance(s.target, ast.Attribute) and A.unparse(s.target.value) == "self" and s.target.attr.endswith("_index") and s.target.attr != "block_index"]
        for adv in advs:
            n += 1
            cnt = A.unparse(adv.target)
            key = f"{m.name}: {cnt} advanced before re-entrant lowering"
            an = cfg.node_of(adv)
            reentrant = [c for c in A.walk_no_nested(m.node) if isinstance(c, ast.Call) and isinstance(c.func, ast.Attribute) and A.unparse(c.func.value) == "self" and (c.func.attr.startswith("handle_") or c.func.attr == "codegen")]
            early = [c for c in reentrant if an is not None and cfg.node_of(c) is not None and not cfg.dominates(an, cfg.node_of(c))]
            # names built from the counter: f-strings reading it; reads before the advance must not be used for names
            reads_before = [x for x in A.walk_no_nested(m.node) if isinstance(x, ast.Attribute) and A.unparse(x) == cnt and isinstance(x.ctx, ast.Load) and an is not None and cfg.node_of(x) is not None and not cfg.dominates(an, cfg.node_of(x)) and cfg.node_of(x) is not an]
            if early:
                out.append(bad("LOWER-19", m.qualname, key, ctx.where(m, early[0]), f"{A.unparse(early[0])[:50]} runs before {cnt} is advanced: a nested and/or that is lowered there is given the same number, the two temporaries clobber each other"))
            elif reads_before:
                out.append(bad("LOWER-19", m.qualname, key, ctx.where(m, reads_before[0]), f"{cnt} is read for a name before it is advanced"))
            else:
                out.append(ok("LOWER-19", m.qualname, key, ctx.where(m, adv), f"{cnt} += .. dominates every re-entrant call and every read"))
    if n == 0:
        raise AnalysisError("LOWER-19: no name counter found in the front end")
    return out


@rule("LOWER-12", 5, "front-end block indices are fresh: every handler reserves the indices self.block_index .. +n-1 it names and then advances the counter by at least n before anything else can allocate")
def lower12(ctx) -> List[Ob]:
    out: List[Ob] = []
    front = ctx.prog.cls(FRONT)
    CNT = "self.block_index"

    def offset(e: ast.AST, aliases: Set[str]) -> Optional[Tuple[str, int]]:
        """(base, k) when e is <counter> + k or <snapshot> + k"""
        if A.unparse(e) == CNT:
            return ("cnt", 0)
        if isinstance(e, ast.Name) and e.id in aliases:
            return ("snap", 0)
        if isinstance(e, ast.BinOp) and isinstance(e.op, ast.Add) and isinstance(e.right, ast.Constant) and isinstance(e.right.value, int):
            b = offset(e.left, aliases)
            if b is not None:
                return (b[0], b[1] + e.right.value)
        if isinstance(e, ast.BinOp) and isinstance(e.op, ast.Add) and isinstance(e.left, ast.Constant) and isinstance(e.left.value, int):
            b = offset(e.right, aliases)
            if b is not None:
                return (b[0], b[1] + e.left.value)
        return None

    def offsets_of(value: ast.AST, aliases: Set[str]) -> Optional[List[Tuple[str, int]]]:
        """offsets named by the right-hand side of an index assignment"""
        o = offset(value, aliases)
        if o is not None:
            return [o]
        if isinstance(value, (ast.Tuple, ast.List)) and value.elts:
            os_ = [offset(x, aliases) for x in value.elts]
            return os_ if all(x is not None for x in os_) else None  # type: ignore[return-value]
        v = value
        if isinstance(v, ast.Call) and isinstance(v.func, ast.Name) and v.func.id in ("tuple", "list") and len(v.args) == 1:
            v = v.args[0]
        if isinstance(v, ast.Call) and isinstance(v.func, ast.Name) and v.func.id == "range" and len(v.args) == 2:
            lo, hi = offset(v.args[0], aliases), offset(v.args[1], aliases)
            if lo is not None and hi is not None and lo[0] == hi[0] and hi[1] >= lo[1]:
                return [(lo[0], k) for k in range(lo[1], hi[1])]
        return None

    def classify(st: ast.stmt, aliases: Set[str]):
        if isinstance(st, ast.AugAssign) and isinstance(st.op, ast.Add) and A.unparse(st.target) == CNT and isinstance(st.value, ast.Constant) and isinstance(st.value.value, int):
            return ("adv", st.value.value)
        if isinstance(st, (ast.Assign, ast.AnnAssign)) and st.value is not None:
            tg = st.targets[0] if isinstance(st, ast.Assign) else st.target
            if A.unparse(tg) == CNT:
                o = offset(st.value, aliases)
                if o is not None:
                    return ("adv", o[1])
                return None
            if isinstance(tg, ast.Name) and A.unparse(st.value) == CNT:
                return ("snap", tg.id)
            if isinstance(tg, (ast.Name, ast.Tuple, ast.List)) and all(isinstance(x, ast.Name) for x in (tg.elts if isinstance(tg, (ast.Tuple, ast.List)) else [tg])):
                os_ = offsets_of(st.value, aliases)
                if os_ is not None:
                    return ("read", os_)
        return None

    for mname, m in sorted(front.methods.items()):
        reads = [n for n in A.walk_no_nested(m.node) if isinstance(n, ast.Attribute) and A.unparse(n) == CNT]
        if not reads:
            continue
        writes = [n for n in reads if isinstance(n.ctx, ast.Store)]
        handled: Set[int] = set()
        for seq_owner in A.walk_no_nested(m.node):
            for fld in ("body", "orelse", "finalbody"):
                seq = getattr(seq_owner, fld, None)
                if not isinstance(seq, list):
                    continue
                i = 0
                while i < len(seq):
                    aliases: Set[str] = set()
                    c0 = classify(seq[i], aliases)
                    if c0 is None:
                        i += 1
                        continue
                    # a run of index statements: snapshot(s), reads, one advance, reads through the snapshot
                    j = i
                    offs: List[int] = []
                    advs: List[int] = []
                    snaps: List[str] = []
                    used_as_base: Set[str] = set()
                    while j < len(seq):
                        c = classify(seq[j], aliases)
                        if c is None:
                            break
                        if c[0] == "snap":
                            if advs:
                                break
                            aliases.add(c[1])
                            snaps.append(c[1])
                        elif c[0] == "adv":
                            if advs:
                                break
                            advs.append(c[1])
                            used_as_base |= {x.id for x in ast.walk(seq[j]) if isinstance(x, ast.Name) and x.id in aliases}
                        else:
                            if advs and any(b == "cnt" for b, _k in c[1]):
                                break  # a read of the advanced counter belongs to the next reservation
                            offs += [k for _b, k in c[1]]
                            used_as_base |= {x.id for x in ast.walk(seq[j].value) if isinstance(x, ast.Name) and x.id in aliases}
                        handled.update(id(x) for x in ast.walk(seq[j]))
                        j += 1
                    # `head_index = self.block_index` names index 0 itself unless the name is only the base of
                    # later index arithmetic (`first = self.block_index; a, b = first, first + 1`)
                    offs = [0 for a_ in snaps if a_ not in used_as_base] + offs
                    st = seq[i]
                    where = ctx.where(m, st)
                    if offs or advs:
                        key = f"reserve {len(offs)} indices"
                        n_adv = advs[0] if advs else None
                        if sorted(offs) != list(range(len(offs))):
                            out.append(bad("LOWER-12", m.qualname, key, where, f"the reserved offsets {offs} are not the distinct values 0..{len(offs) - 1}: two blocks of this construct share an index"))
                        elif n_adv is None:
                            out.append(bad("LOWER-12", m.qualname, key, where, "the counter is not advanced right after the indices are read: the next construct lowered (a nested statement or expression) is given the same indices"))
                        elif n_adv < len(offs):
                            out.append(bad("LOWER-12", m.qualname, key, where, f"{len(offs)} indices are reserved but the counter advances by {n_adv}: the last index is handed out again"))
                        else:
                            out.append(ok("LOWER-12", m.qualname, key, where, f"offsets {offs}, then {CNT} += {n_adv}"))
                    i = max(j, i + 1)
        for r in reads:
            if id(r) in handled:
                continue
            st = r
            while not isinstance(st, ast.stmt):
                st = A.parent(st)
            # the initialisation in __init__ / transform
            if isinstance(st, (ast.Assign, ast.AnnAssign)) and isinstance(r.ctx, ast.Store) and isinstance(st.value, ast.Constant) and isinstance(st.value.value, int) and st.value.value >= 1:
                out.append(ok("LOWER-12", m.qualname, "counter initialised", ctx.where(m, st), f"starts at {st.value.value} (0 is the entry block)", nontrivial=False))
                continue
            if not writes:
                # a method that only looks at the counter (repr, debugging aids) cannot hand an index out twice
                out.append(ok("LOWER-12", m.qualname, "read-only use: " + A.alpha_key(st)[:60], ctx.where(m, st), "the method never writes the counter", nontrivial=False))
                continue
            out.append(bad("LOWER-12", m.qualname, "other use: " + A.alpha_key(st)[:80], ctx.where(m, st), f"'{A.unparse(st)[:70]}' uses the block counter outside the reserve-then-advance idiom"))
    return out


# ------------------------------------------------------------------ LOWER-13


def _template_of(ctx, fn, arg: ast.AST):
    """the f-string behind `ast.parse(<x>).body`: (JoinedStr | Constant str) or None"""
    e = arg
    for _ in range(4):
        if isinstance(e, ast.Attribute) and e.attr == "body":
            e = e.value
        elif isinstance(e, ast.Call) and (A.dotted(e.func) or "") in ("ast.parse", "textwrap.dedent", "dedent") and e.args:
            e = e.args[0]
        elif isinstance(e, ast.Name):
            ds = [d for d in ctx.cfg(fn).reaching_defs(e) if d.stmt is not None]
            if len(ds) != 1 or not isinstance(ds[0].stmt, ast.Assign):
                return None
            e = ds[0].stmt.value
        else:
            break
    if isinstance(e, ast.Call) and (A.dotted(e.func) or "") in ("textwrap.dedent", "dedent") and e.args:
        e = e.args[0]
    if isinstance(e, ast.JoinedStr) or (isinstance(e, ast.Constant) and isinstance(e.value, str)):
        return e
    return None


def _symbolic_source(t: ast.AST):
    """template text with every {name} replaced by the identifier __ph_name__"""
    if isinstance(t, ast.Constant):
        return t.value, set()
    parts, phs = [], set()
    for v in t.values:
        if isinstance(v, ast.Constant):
            parts.append(v.value)
        elif isinstance(v, ast.FormattedValue) and isinstance(v.value, ast.Name):
            parts.append(f"__ph_{v.value.id}__")
            phs.add(v.value.id)
        else:
            return None, set()
    return "".join(parts), phs


@rule("LOWER-13", 3, "the statements a loop lowering injects do not disturb the loop target: it is written only with elements of the iterable, and exhaustion is recognised by identity with a private object, never by comparing an element with a constant")
def lower13(ctx) -> List[Ob]:
    import textwrap

    out: List[Ob] = []
    front = ctx.prog.cls(FRONT)
    hf = front.methods.get("handle_for")
    if hf is None:
        raise AnalysisError("AST2SCFGTransformer.handle_for not found")
    # which local holds the text of the loop target?
    target_locals = set()
    for s in A.walk_no_nested(hf.node):
        if isinstance(s, ast.Assign) and isinstance(s.targets[0], ast.Name) and isinstance(s.value, ast.Call) and (A.dotted(s.value.func) or "") == "ast.unparse" and s.value.args and A.unparse(s.value.args[0]).endswith(".target"):
            target_locals.add(s.targets[0].id)
    if not target_locals:
        out.append(unresolved("LOWER-13", hf.qualname, "loop target text", ctx.where(hf), "cannot see how the text of the loop target is obtained (expected ast.unparse(node.target))"))
        return out
    # is the lowering restricted to plain-name targets?
    name_only = any(isinstance(s, ast.If) and "isinstance" in A.unparse(s.test) and ".target" in A.unparse(s.test) and "ast.Name" in A.unparse(s.test) and s.body and isinstance(s.body[-1], ast.Raise) for s in A.walk_no_nested(hf.node))
    templates = []
    for c in method_calls(hf.node, "codegen"):
        if c.args and "ast.parse" in A.unparse(c.args[0]) or (c.args and isinstance(c.args[0], ast.Name)):
            t = _template_of(ctx, hf, c.args[0])
            if t is not None:
                templates.append((c, t))
    # a template that is chosen per path (`if ..: code = f".." else: code = f".."`): every variant must assign the
    # same names - what a later template reads has to be there on every path
    for c in method_calls(hf.node, "codegen"):
        if not c.args:
            continue
        e = c.args[0]
        for _ in range(3):
            if isinstance(e, ast.Attribute) and e.attr == "body":
                e = e.value
            elif isinstance(e, ast.Call) and (A.dotted(e.func) or "") in ("ast.parse", "textwrap.dedent", "dedent") and e.args:
                e = e.args[0]
        if not isinstance(e, ast.Name):
            continue
        ds = [d for d in ctx.cfg(hf).reaching_defs(c, e.id) if d.stmt is not None and isinstance(d.stmt, (ast.Assign, ast.AugAssign))]
        if len(ds) < 2:
            continue
        variants = []

        def _text_of(v):
            if isinstance(v, ast.Call) and (A.dotted(v.func) or "") in ("textwrap.dedent", "dedent") and v.args:
                v = v.args[0]
            if not (isinstance(v, ast.JoinedStr) or (isinstance(v, ast.Constant) and isinstance(v.value, str))):
                return None
            return _symbolic_source(v)[0]

        for d in ds:
            if isinstance(d.stmt, ast.AugAssign):
                # code += f".."  (a statement appended on one path): the text so far plus the appended text
                bases = [b for b in ctx.cfg(hf).reaching_defs(d.stmt, e.id) if b.stmt is not None and b.stmt is not d.stmt]
                tb = _text_of(bases[0].stmt.value) if len(bases) == 1 and isinstance(bases[0].stmt, ast.Assign) and isinstance(d.stmt.op, ast.Add) else None
                ta = _text_of(d.stmt.value)
                text = (textwrap.dedent(tb) + "\n" + textwrap.dedent(ta)) if tb is not None and ta is not None else None
                if text is None:
                    variants = None
                    break
            else:
                text = _text_of(d.stmt.value)
                if text is None:
                    variants = None
                    break
            try:
                tr = ast.parse(textwrap.dedent(text)) if text is not None else None
            except SyntaxError:
                tr = None
            if tr is None:
                variants = None
                break
            variants.append((d, {A.unparse(t_) for st_ in tr.body if isinstance(st_, ast.Assign) for t_ in st_.targets}))
        key = "template variants of " + e.id
        if variants is None:
            out.append(unresolved("LOWER-13", hf.qualname, key, ctx.where(hf, c), "the injected source is chosen per path and one variant is not a plain template"))
        elif len({frozenset(a) for _d, a in variants}) > 1:
            import re as _re2

            allv = set().union(*[a for _d, a in variants])
            short = next((d, allv - a) for d, a in variants if allv - a)
            missing = sorted(_re2.sub(r"__ph_(\w+?)__", r"{\1}", x) for x in short[1])
            out.append(bad("LOWER-13", hf.qualname, key, ctx.where(hf, short[0].stmt), f"on one path the injected statements do not assign {missing}: the templates that follow read it (the header saves the target's value before the first element is fetched) - UnboundLocalError where the original loop runs, because what is 'already bound' was decided by the order of the source text, not by the paths of the program"))
        else:
            out.append(ok("LOWER-13", hf.qualname, key, ctx.where(hf, c), "every variant assigns the same names"))
    if len(templates) < 2:
        out.append(unresolved("LOWER-13", hf.qualname, "injected templates", ctx.where(hf), "fewer than two injected source templates recognised in handle_for"))
        return out
    sentinel_defaults = set()
    parsed = []
    for c, t in templates:
        text, phs = _symbolic_source(t)
        if text is None:
            out.append(unresolved("LOWER-13", hf.qualname, "template " + A.alpha_key(c)[:40], ctx.where(hf, c), "a template interpolates something other than plain local names"))
            continue
        try:
            tree = ast.parse(textwrap.dedent(text))
        except SyntaxError:
            out.append(unresolved("LOWER-13", hf.qualname, "template " + A.alpha_key(c)[:40], ctx.where(hf, c), "the template does not parse once its placeholders are replaced by identifiers"))
            continue
        parsed.append((c, tree))
    tph = {f"__ph_{n}__" for n in target_locals}
    for c, tree in parsed:
        for st in tree.body:
            if isinstance(st, ast.Assign) and isinstance(st.value, ast.Call) and isinstance(st.value.func, ast.Name) and st.value.func.id == "next" and len(st.value.args) == 2:
                sentinel_defaults.add(A.unparse(st.value.args[1]))
    n_obs = 0
    for c, tree in parsed:
        where = ctx.where(hf, c)
        for st in tree.body:
            import re as _re

            txt = _re.sub(r"__ph_(\w+?)__", r"{\1}", A.unparse(st))
            if isinstance(st, ast.Assign) and any(A.unparse(t) in tph for t in st.targets):
                n_obs += 1
                v = st.value
                if isinstance(v, ast.Constant):
                    out.append(bad("LOWER-13", hf.qualname, "target given a placeholder constant", where, f"'{txt}': the loop target is overwritten before the first element is known - a loop that runs zero times loses the previous binding of the target (or hides that it is unbound), and a tuple / list target cannot take the constant at all (TypeError in every such loop)"))
                elif isinstance(v, ast.Call) and isinstance(v.func, ast.Name) and v.func.id == "next" and len(v.args) == 2:
                    if name_only:
                        out.append(ok("LOWER-13", hf.qualname, "target receives the exhaustion default", where, f"'{txt}': targets other than a plain name are refused"))
                    else:
                        out.append(bad("LOWER-13", hf.qualname, "target receives the exhaustion default", where, f"'{txt}': on exhaustion the default of next() is stored into the loop target itself; a tuple, list, attribute or subscript target unpacks / stores the sentinel (error or visible side effect) instead of being left alone"))
                else:
                    out.append(ok("LOWER-13", hf.qualname, "target write " + A.alpha_key(st)[:50], where, f"'{txt}'", nontrivial=False))
            if isinstance(st, ast.Expr) and isinstance(st.value, ast.Compare) and len(st.value.ops) == 1:
                cmpn = st.value
                sides = [A.unparse(cmpn.left), A.unparse(cmpn.comparators[0])]
                if any(sd in sentinel_defaults for sd in sides):
                    n_obs += 1
                    const_side = next((x for x in (cmpn.left, cmpn.comparators[0]) if isinstance(x, ast.Constant)), None)
                    if isinstance(cmpn.ops[0], (ast.Eq, ast.NotEq)):
                        out.append(bad("LOWER-13", hf.qualname, "exhaustion recognised by equality", where, f"'{txt}': exhaustion is recognised by comparing the element with {'a constant' if const_side is not None else 'the sentinel'} using ==/!=: an element equal to it ends the loop early, and elements whose comparison does not give a bool (arrays) raise"))
                    elif const_side is not None and isinstance(const_side.value, (str, int, float, bytes, tuple)):
                        out.append(bad("LOWER-13", hf.qualname, "exhaustion recognised by identity with a literal", where, f"'{txt}': a literal can be an element of the iterable (interned strings, small integers)"))
                    else:
                        out.append(ok("LOWER-13", hf.qualname, "exhaustion test", where, f"'{txt}'"))
    if n_obs == 0:
        out.append(unresolved("LOWER-13", hf.qualname, "injected templates", ctx.where(hf), "no write of the loop target and no exhaustion test found in the templates"))
    return out


@rule("LOWER-14", 6, "the two successors of a front-end block are distinct blocks: handlers pass two different fresh indices, and the pruning that renames successors collapses a block whose two successors have become the same (keeping its test as an expression statement)")
def lower14(ctx) -> List[Ob]:
    out: List[Ob] = []
    front = ctx.prog.cls(FRONT)
    # (a) producers
    for mname, m in sorted(front.methods.items()):
        for c in method_calls(m.node, "set_jump_targets"):
            if len(c.args) == 2:
                a, b = A.unparse(c.args[0]), A.unparse(c.args[1])
                key = A.alpha_key(c)
                if a == b:
                    out.append(bad("LOWER-14", m.qualname, key, ctx.where(m, c), f"both successors are {a}"))
                else:
                    out.append(ok("LOWER-14", m.qualname, key, ctx.where(m, c), f"{a} / {b} (distinct reserved indices, LOWER-12)", nontrivial=False))
    # (b) the renaming pass
    sites = []
    for fn in ctx.prog.functions:
        if not fn.module.name.endswith("ast_transforms"):
            continue
        for st in A.walk_no_nested(fn.node):
            if isinstance(st, ast.Assign) and len(st.targets) == 1 and isinstance(st.targets[0], ast.Subscript) and fn.name.startswith("prune"):
                base_ = st.targets[0].value
                if isinstance(base_, ast.Name):
                    base_ = see_through(ctx, fn, base_) or base_
                if isinstance(base_, ast.Attribute) and base_.attr in ("jump_targets", "_jump_targets"):
                    sites.append((fn, st))
    fns = []
    for fn, st in sites:
        if fn not in fns:
            fns.append(fn)
    if not fns:
        out.append(unresolved("LOWER-14", "ASTCFG", "renaming pass", ctx.where(ctx.prog.cls("ASTCFG").node if False else front.methods["transform"]), "no pruning function that renames successors found"))
        return out
    for fn in fns:
        stores = [st for f2, st in sites if f2 is fn]
        X = A.unparse(stores[0].targets[0].value)
        key = "coinciding successors collapsed"
        where = ctx.where(fn, stores[-1])
        guards = []
        x_node = stores[0].targets[0].value
        x_alts = {X}
        if isinstance(x_node, ast.Name):
            st_ = see_through(ctx, fn, x_node)
            if st_ is not None:
                x_alts.add(A.unparse(st_))
        for g in A.walk_no_nested(fn.node):
            if isinstance(g, ast.If):
                t = A.unparse(g.test)
                if any(t in (f"{x}[0] == {x}[1]", f"{x}[1] == {x}[0]", f"len(set({x})) == 1", f"len(set({x})) < len({x})", f"len({x}) == 2 and {x}[0] == {x}[1]") for x in x_alts):
                    guards.append(g)
                    continue
                # `<arity test> and X[0] == X[1]`: the arity test (on len(X), or on a local that holds it) only says
                # that there are two successors to compare
                conj = g.test.values if isinstance(g.test, ast.BoolOp) and isinstance(g.test.op, ast.And) else []
                eqs = [c for c in conj if any(A.unparse(c) in (f"{x}[0] == {x}[1]", f"{x}[1] == {x}[0]") for x in x_alts)]
                rest = [c for c in conj if c not in eqs]

                def _arity(c) -> bool:
                    if not (isinstance(c, ast.Compare) and len(c.ops) == 1 and isinstance(c.ops[0], (ast.Eq, ast.GtE, ast.Gt)) and isinstance(c.comparators[0], ast.Constant) and c.comparators[0].value in (1, 2)):
                        return False
                    l_ = c.left
                    if isinstance(l_, ast.Name):
                        l_ = see_through(ctx, fn, l_) or l_
                    return any(A.unparse(l_) == f"len({x})" for x in x_alts)

                if len(eqs) == 1 and rest and all(_arity(c) for c in rest):
                    guards.append(g)
        if not guards:
            out.append(bad("LOWER-14", fn.qualname, key, where, f"{fn.name} renames successors but never checks whether the two successors of a block have become the same block: 'if c: pass' (both arms empty) yields a block with two identical successors, which restructuring cannot handle (AssertionError in extract_region)"))
            continue
        g = guards[0]
        last_store_line = max(A.lineno(s) for s in stores)
        body_txt = [A.unparse(s) for s in g.body]
        shrinks = any(t in (f"{x}.pop()", f"{x}.pop(1)", f"{x}.pop(-1)", f"del {x}[1]", f"del {x}[-1]", f"{x}[:] = {x}[:1]", f"del {x}[1:]") for t in body_txt for x in x_alts)
        def _wrapped_arg(s):
            a0 = s.value.args[0]
            if isinstance(a0, ast.Name):
                a0 = see_through(ctx, fn, a0) or a0  # `test = b.instructions[-1]; b.instructions[-1] = ast.Expr(test)`
            return A.unparse(a0)

        wraps = any(isinstance(s, ast.Assign) and A.unparse(s.targets[0]).endswith(".instructions[-1]") and isinstance(s.value, ast.Call) and (A.dotted(s.value.func) or "") == "ast.Expr" and s.value.args and _wrapped_arg(s) == A.unparse(s.targets[0]) for s in g.body)
        # the check sits in a loop that also contains the renames (the per-block loop; the renames may sit in an
        # inner loop over the positions)
        same_loop = any(isinstance(lp, ast.For) and any(a is lp for a in A.ancestors(g)) for lp in A.ancestors(stores[-1]))
        probs = []
        if A.lineno(g) < last_store_line:
            probs.append("the check runs before the last rename")
        if not same_loop:
            probs.append("the check is not made for every block that is renamed")
        if not shrinks:
            probs.append("the duplicate successor is not removed")
        if not wraps:
            probs.append("the branch test stays a bare expression in a block that no longer branches (the code generator emits block statements as they are)")
        if probs:
            out.append(bad("LOWER-14", fn.qualname, key, ctx.where(fn, g), "; ".join(probs)))
        else:
            out.append(ok("LOWER-14", fn.qualname, key, ctx.where(fn, g), f"if {A.unparse(g.test)}: one successor kept, test wrapped in ast.Expr"))
    return out


# ------------------------------------------------------------------ LOWER-15


_ARITY_PROPS: dict = {}


def _load_arity_props(ctx) -> None:
    """return expressions of `fallthrough` / `is_exiting` as PythonASTBlock inherits or overrides them"""
    _ARITY_PROPS.clear()
    c = ctx.prog.classes.get("PythonASTBlock")
    if c is None:
        return
    for nm in ("fallthrough", "is_exiting"):
        m = c.find_method(nm)
        if m is None:
            continue
        from .common import expanded_function as _xf

        body = A.body_without_docstring(_xf(m))  # locals that merely name self.backedges etc. are read through
        body = [b_ for b_ in body if not (isinstance(b_, ast.Assign) and len(b_.targets) == 1 and isinstance(b_.targets[0], ast.Name) and not any(isinstance(x, ast.Name) and x.id == b_.targets[0].id and isinstance(x.ctx, ast.Load) for r_ in body for x in ast.walk(r_)))]
        if len(body) == 1 and isinstance(body[0], ast.Return) and body[0].value is not None:
            v_ = body[0].value
            # `not self.jump_targets` and friends are evaluated by _eval_arity itself
            _ARITY_PROPS[nm] = v_
        else:
            _ARITY_PROPS[nm] = ast.Name(id="<unknown>", ctx=ast.Load())


def _eval_arity(test: ast.AST, subj: str, r: int, v: int):
    """three-valued evaluation of a code-generator arm test for a block with r raw and v visible successors"""
    t = A.unparse(test)
    if isinstance(test, ast.BoolOp):
        vals = [_eval_arity(x, subj, r, v) for x in test.values]
        if isinstance(test.op, ast.And):
            return False if False in vals else (None if None in vals else True)
        return True if True in vals else (None if None in vals else False)
    if isinstance(test, ast.UnaryOp) and isinstance(test.op, ast.Not):
        x = _eval_arity(test.operand, subj, r, v)
        return None if x is None else (not x)
    if t in (f"{subj}.fallthrough", f"{subj}.is_exiting"):
        # the property as the class of source blocks defines it (an override in PythonASTBlock counts), evaluated
        # on the same arities; the audited meaning when the definition is not a single evaluable return
        pd = _ARITY_PROPS.get(t.split(".")[-1])
        if pd is not None:
            x = _eval_arity(pd, "self", r, v)
            if x is not None:
                return x
            return None
        return (r == 1) if t.endswith(".fallthrough") else (v == 0)
    if t in (f"{subj}.jump_targets", f"{subj}._jump_targets"):
        return (v if "._" not in t else r) > 0
    # all(j in S.backedges for j in S._jump_targets): no visible successor;  any(j not in S.backedges for ..): some
    if isinstance(test, ast.Call) and isinstance(test.func, ast.Name) and test.func.id in ("all", "any") and len(test.args) == 1 and isinstance(test.args[0], (ast.GeneratorExp, ast.ListComp)) and len(test.args[0].generators) == 1:
        g_ = test.args[0].generators[0]
        el = test.args[0].elt
        if not g_.ifs and A.unparse(g_.iter) == f"{subj}._jump_targets" and isinstance(g_.target, ast.Name) and isinstance(el, ast.Compare) and len(el.ops) == 1 \
                and A.unparse(el.left) == g_.target.id and A.unparse(el.comparators[0]) == f"{subj}.backedges":
            if test.func.id == "all" and isinstance(el.ops[0], ast.In):
                return v == 0
            if test.func.id == "any" and isinstance(el.ops[0], ast.NotIn):
                return v > 0
    if t == f"{subj}.backedges":
        return r != v
    if isinstance(test, ast.Compare) and len(test.ops) == 1 and isinstance(test.comparators[0], ast.Constant) and isinstance(test.comparators[0].value, int):
        l = A.unparse(test.left)
        k = test.comparators[0].value
        n = None
        if l == f"len({subj}.jump_targets)":
            n = v
        elif l == f"len({subj}._jump_targets)":
            n = r
        elif l == f"len({subj}.backedges)":
            n = r - v
        if n is not None:
            op = test.ops[0]
            return {ast.Eq: n == k, ast.NotEq: n != k, ast.Lt: n < k, ast.LtE: n <= k, ast.Gt: n > k, ast.GtE: n >= k}.get(type(op))
    return None


@rule("LOWER-15", 3, "a source block that still has a visible successor besides a declared back edge (an original latch that also leaves the loop) is never emitted as straight-line code: the code generator turns its test into a construct or refuses")
def lower15(ctx) -> List[Ob]:
    out: List[Ob] = []
    cg = _codegen(ctx)
    fn = cg[0] if isinstance(cg, tuple) else cg
    subj = [p.arg for p in fn.params if p.arg != "self"][0]
    # the arm for source blocks (locals that merely name `block.jump_targets` etc. are read through)
    from .common import expanded_function as _xf15

    fx = _xf15(fn)
    A.set_parents(fx)
    top = None
    for st in A.walk_no_nested(fx):
        if isinstance(st, ast.If) and A.unparse(st.test) in (f"type({subj}) is PythonASTBlock", f"isinstance({subj}, PythonASTBlock)", f"type({subj}) == PythonASTBlock"):
            top = st
            break
    first_if = next((s_ for s_ in (top.body if top is not None else []) if isinstance(s_, ast.If)), None)
    if top is None or first_if is None or any(not isinstance(s_, (ast.Assign, ast.AnnAssign, ast.Expr)) for s_ in top.body[: top.body.index(first_if)]):
        out.append(unresolved("LOWER-15", fn.qualname, "source-block arms", ctx.where(fn), "the arm chain for PythonASTBlock was not found in the code generator"))
        return out
    arms = chain_arms(first_if)
    _load_arity_props(ctx)
    for (r, v) in ((0, 0), (1, 1), (1, 0), (2, 2), (2, 1)):
        key = f"block with {r} raw / {v} visible successors"
        reached = []
        for arm in arms:
            val = True if arm.test is None else _eval_arity(arm.test, subj, r, v)
            if val is False:
                continue
            reached.append(arm)
            if val is True:
                break
        kinds = []
        for arm in reached:
            body = arm.body
            rets = [s for s in A.walk_no_nested(ast.Module(body, [])) if isinstance(s, ast.Return)]
            if any(isinstance(s, ast.Raise) for s in body) and not rets:
                kinds.append("refused")
            elif rets and all(A.unparse(x.value) == f"{subj}.tree" for x in rets):
                kinds.append("plain")
            else:
                kinds.append("construct")
        where = ctx.where(fn, reached[0].node if reached else top)
        if not reached:
            out.append(bad("LOWER-15", fn.qualname, key, ctx.where(fn, top), "no arm of the code generator takes this block: nothing is returned"))
        elif (r, v) == (2, 1) and "plain" in kinds:
            out.append(bad("LOWER-15", fn.qualname, key, where, "a block whose second successor is a declared back edge (an original latch that also leaves the loop) can reach the arm that emits its statements unchanged: its branch test is dropped and the generated loop never updates its continue flag (it does not terminate)"))
        elif (r, v) == (2, 2) and "plain" in kinds:
            out.append(bad("LOWER-15", fn.qualname, key, where, "a branching block can reach the arm that emits its statements unchanged: both arms are lost"))
        else:
            out.append(ok("LOWER-15", fn.qualname, key, where, "/".join(kinds)))
    return out


# ------------------------------------------------------------------ LOWER-16


def _nonempty_list(ctx, fn, e: ast.AST, depth: int = 0) -> Optional[bool]:
    """True: the expression is a list with at least one element on every path; False: it can be empty by
    construction (an empty display); None: depends on what a recursive codegen call returns"""
    if isinstance(e, (ast.List, ast.Tuple)):
        return bool(e.elts)
    if isinstance(e, ast.BoolOp) and isinstance(e.op, ast.Or):
        vals = [_nonempty_list(ctx, fn, v, depth + 1) for v in e.values]
        return True if vals and vals[-1] is True else (None if None in vals else False)
    if isinstance(e, ast.Call) and isinstance(e.func, ast.Name) and e.func.id == "cast" and len(e.args) == 2:
        return _nonempty_list(ctx, fn, e.args[1], depth + 1)
    if isinstance(e, ast.BinOp) and isinstance(e.op, ast.Add):
        a, b = _nonempty_list(ctx, fn, e.left, depth + 1), _nonempty_list(ctx, fn, e.right, depth + 1)
        return True if True in (a, b) else (None if None in (a, b) else False)
    if isinstance(e, ast.Name) and depth < 3:
        v = see_through(ctx, fn, e)
        if v is not None and v is not e:
            r = _nonempty_list(ctx, fn, v, depth + 1)
            if r is False:
                # an empty display that is filled afterwards (append / extend / +=) is not empty by construction
                grown = any(isinstance(c, ast.Call) and isinstance(c.func, ast.Attribute) and c.func.attr in ("append", "extend", "insert") and isinstance(c.func.value, ast.Name) and c.func.value.id == e.id for c in ast.walk(fn.node))
                grown = grown or any(isinstance(a, ast.AugAssign) and isinstance(a.target, ast.Name) and a.target.id == e.id for a in ast.walk(fn.node))
                return None if grown else False
            return r
    return None


@rule("LOWER-16", 3, "the generated if / while statements have a body: a fill block emits a statement of its own (so an empty arm is never an empty suite), and no construct is built around an empty display")
def lower16(ctx) -> List[Ob]:
    out: List[Ob] = []
    cg = _codegen(ctx)
    arm, subj = _arm_for(ctx, cg, "SyntheticFill")
    key = "an empty arm (fill block) emits a statement"
    fill_emits = False
    if arm is not None:
        rets = [r for r in A.walk_no_nested(ast.Module(arm.body, [])) if isinstance(r, ast.Return)]
        verdicts = [_nonempty_list(ctx, cg, r.value) if r.value is not None else False for r in rets]
        fill_emits = bool(rets) and all(v is True for v in verdicts)
    if fill_emits:
        out.append(ok("LOWER-16", cg.qualname, key, ctx.where(cg, arm.node), f"returns {A.unparse(rets[0].value)[:40]}"))
    else:
        out.append(ok("LOWER-16", cg.qualname, key, ctx.where(cg), "a fill block emits nothing: every construct has to pad an empty suite itself (checked per construct)"))
    # every ast.If / ast.While built by the code generator and its nested helpers
    fns = [cg] + [f for f in ctx.prog.functions if f.parent_fn is cg]
    for f in fns:
        for c in A.walk_no_nested(f.node):
            if not (isinstance(c, ast.Call) and (A.dotted(c.func) or "") in ("ast.If", "ast.While")):
                continue
            body = kw(c, "body", 1)
            key = f"{(A.dotted(c.func) or '')}(...) body: " + (A.alpha_key(body)[:60] if body is not None else "?")
            if body is None:
                out.append(unresolved("LOWER-16", f.qualname, key, ctx.where(f, c), "body argument not found"))
                continue
            v = _nonempty_list(ctx, f, body)
            if v is False:
                out.append(bad("LOWER-16", f.qualname, key, ctx.where(f, c), f"the construct is built with an empty body ({A.unparse(body)[:40]})"))
            elif v is None and not fill_emits:
                out.append(bad("LOWER-16", f.qualname, key, ctx.where(f, c), f"the body is whatever the arm's blocks emit ({A.unparse(body)[:40]}) and a fill block emits nothing: an empty branch arm gives an `if` without a body here (the regenerated source does not compile); pad it (`... or [ast.Pass()]`) or let the fill emit a statement"))
            else:
                out.append(ok("LOWER-16", f.qualname, key, ctx.where(f, c), "non-empty display / padded" if v else "statements of the arm's region (non-empty: every arm holds a block that emits, fills included)"))
    return out


# ------------------------------------------------------------------ LOWER-17

# what the lowering may build itself: temporaries (Name / Assign with their contexts), the re-association of
# and/or chains, the implicit return, statement wrappers around a kept test, and parsed templates
_FRONT_BUILDS = {"Name", "Assign", "Load", "Store", "BoolOp", "And", "Or", "Del", "Return", "Expr", "Constant", "parse", "unparse", "dump", "fix_missing_locations", "copy_location", "Pass", "Module"}


@rule("LOWER-17", 5, "the lowering keeps the user's expressions: the only syntax nodes the front end builds itself are temporaries, the re-association of and/or chains, the implicit return and parsed templates - it never builds comparisons, unary / binary operations or calls in place of the user's")
def lower17(ctx) -> List[Ob]:
    out: List[Ob] = []
    mod = ctx.prog.module("ast_transforms")
    front = ctx.prog.cls(FRONT)
    fns = [f for f in ctx.prog.functions if f.module is mod and (f.cls is front or f.cls is ctx.prog.classes.get("ASTCFG") or f.cls is ctx.prog.classes.get("WritableASTBlock") or (f.cls is None and f.parent_fn is None and not f.name.startswith("SCFG2AST")))]
    back = ctx.prog.classes.get(BACK)
    for f in fns:
        if back is not None and f.cls is back:
            continue
        for n in A.walk_no_nested(f.node):
            if isinstance(n, ast.Call):
                d = A.dotted(n.func) or ""
                if d.startswith("ast.") and d.count(".") == 1:
                    what = d.split(".")[1]
                    key = f"builds ast.{what}"
                    if what in _FRONT_BUILDS or not what[:1].isupper():
                        out.append(ok("LOWER-17", f.qualname, key, ctx.where(f, n), "temporary / re-association / template", nontrivial=False))
                    else:
                        out.append(bad("LOWER-17", f.qualname, key, ctx.where(f, n), f"the front end builds an ast.{what} node of its own ({A.unparse(n)[:60]}): it replaces an expression of the user by one it considers equivalent (a complemented comparison is not, for unordered operands; an unchained comparison evaluates its middle operand at another time)"))
    # operator tables (`{ast.Lt: ast.GtE, ..}`) at module level of the front end are the same thing in data form
    for name, val in mod.constants.items():
        if isinstance(val, ast.Dict) and val.keys and all(k is not None and (A.dotted(k) or "").startswith("ast.") for k in val.keys) and all((A.dotted(v) or "").startswith("ast.") for v in val.values):
            out.append(bad("LOWER-17", "<module>", f"operator table {name}", f"{mod.relpath}:{A.lineno(val)}", f"module-level table {name} maps syntax node classes to other syntax node classes: the lowering rewrites the user's operators"))
    return out


@rule("LOWER-18", 1, "the if-cascade of a branching block has one arm per successor: the block whose code an arm holds is looked up from the block's jump targets, never from the entries of the value table (several control values may select one successor - its code would be generated once per value)")
def lower18(ctx) -> List[Ob]:
    out: List[Ob] = []
    cg = _codegen(ctx)
    scopes = [cg] + [f for f in ctx.prog.functions if f.parent_fn is cg]
    # names derived from the value table / from the jump targets, by a small fixpoint over assignments, loop
    # targets, comprehension targets and the parameters of the nested helpers (bound at their call sites)
    table, succ = set(), set()

    def mentions(e, names, attr):
        for n in ast.walk(e):
            if isinstance(n, ast.Attribute) and n.attr == attr:
                return True
            if isinstance(n, ast.Name) and n.id in names:
                return True
        return False

    for _ in range(6):
        before = (len(table), len(succ))
        for f in scopes:
            for n in A.walk_no_nested(f.node):
                pairs = []
                if isinstance(n, ast.Assign):
                    for t in n.targets:
                        pairs.append((t, n.value))
                elif isinstance(n, ast.For):
                    pairs.append((n.target, n.iter))
                elif isinstance(n, ast.comprehension):
                    pairs.append((n.target, n.iter))
                for t, v in pairs:
                    names = {x.id for x in ast.walk(t) if isinstance(x, ast.Name)}
                    # `reverse[target].append(value)`-style tables keyed by target are not successor sources
                    if mentions(v, table, "branch_value_table") and not mentions(v, set(), "jump_targets"):
                        table |= names
                    if mentions(v, succ, "jump_targets") and not mentions(v, set(), "branch_value_table"):
                        succ |= names
            # parameters of nested helpers
            for g in scopes[1:]:
                params = [p.arg for p in g.params]
                for f2 in scopes:
                    for c in A.walk_no_nested(f2.node):
                        if isinstance(c, ast.Call) and isinstance(c.func, ast.Name) and c.func.id == g.name:
                            for p_, a_ in zip(params, c.args):
                                if mentions(a_, table, "branch_value_table") and not mentions(a_, set(), "jump_targets"):
                                    table.add(p_)
                                if mentions(a_, succ, "jump_targets") and not mentions(a_, set(), "branch_value_table"):
                                    succ.add(p_)
        if (len(table), len(succ)) == before:
            break
    table -= succ & table if False else set()
    n = 0
    for f in scopes:
        for c in A.walk_no_nested(f.node):
            if not (isinstance(c, ast.Call) and isinstance(c.func, ast.Attribute) and c.func.attr == "lookup" and c.args):
                continue
            arg = c.args[0]
            names = {x.id for x in ast.walk(arg) if isinstance(x, ast.Name)}
            from_table = bool(names & table) or mentions(arg, set(), "branch_value_table")
            from_succ = bool(names & succ) or mentions(arg, set(), "jump_targets")
            if not (from_table or from_succ):
                continue
            n += 1
            key = "arm body looked up from: " + A.alpha_key(c)
            if from_table and not from_succ:
                out.append(bad("LOWER-18", f.qualname, key, ctx.where(f, c), f"{A.unparse(c)[:50]} takes the block of an arm from the entries of the value table: a successor selected by several control values gets one arm - and one copy of its whole region's code - per value"))
            else:
                out.append(ok("LOWER-18", f.qualname, key, ctx.where(f, c), "the arm's block comes from the jump targets (one arm per successor)"))
    if n == 0:
        out.append(unresolved("LOWER-18", cg.qualname, "arm body looked up from", ctx.where(cg), "no lookup of a successor found in the branching arm of codegen"))
    # the recursive cascade: the rest of the successors is the `orelse` of the test for the current one - a
    # recursion that is returned on its own consumes a successor without a test
    for g in scopes[1:]:
        recs = [c for c in A.walk_no_nested(g.node) if isinstance(c, ast.Call) and isinstance(c.func, ast.Name) and c.func.id == g.name]
        for c in recs:
            key = "rest of the cascade hangs under the test of the current successor: " + A.alpha_key(c)[:40]
            holder = None
            for a in A.ancestors(c):
                if isinstance(a, ast.keyword) and a.arg == "orelse":
                    holder = a
                    break
                if isinstance(a, ast.stmt):
                    break
            ok_ = holder is not None
            if not ok_:
                st = A.enclosing_stmt(c)
                if isinstance(st, ast.Assign) and len(st.targets) == 1 and isinstance(st.targets[0], ast.Name):
                    nm = st.targets[0].id
                    ok_ = any(isinstance(k, ast.keyword) and k.arg == "orelse" and nm in A.names_in(k.value) for k in ast.walk(g.node))
            if ok_:
                out.append(ok("LOWER-18", g.qualname, key, ctx.where(g, c), "the recursion is the else part of the generated if", nontrivial=False))
            else:
                out.append(bad("LOWER-18", g.qualname, key, ctx.where(g, c), f"'{A.unparse(A.enclosing_stmt(c) or c)[:60]}' goes on with the remaining successors without an if for the current one: the control values that select it fall through to the later arms (a `while .. else` left by `break` runs its else clause)"))
    return out


@rule("LOWER-21", 1, "only seal_block chooses between sealing inside and outside a loop (it consults the loop stack): no handler calls seal_inside_loop / seal_outside_loop itself")
def lower21(ctx) -> List[Ob]:
    out: List[Ob] = []
    front = ctx.prog.cls(FRONT)
    n = 0
    for f in ctx.prog.functions:
        if not f.module.name.endswith("ast_transforms"):
            continue
        for c in A.walk_no_nested(f.node):
            if isinstance(c, ast.Call) and isinstance(c.func, ast.Attribute) and c.func.attr in ("seal_inside_loop", "seal_outside_loop"):
                n += 1
                key = f"{f.name}: " + A.alpha_key(c)[:60]
                if f.name == "seal_block":
                    out.append(ok("LOWER-21", f.qualname, key, ctx.where(f, c), "chosen by seal_block from the loop stack", nontrivial=False))
                else:
                    out.append(bad("LOWER-21", f.qualname, key, ctx.where(f, c), f"{A.unparse(c)[:60]} seals the block without asking the loop stack: a `continue` / `break` that ends this statement list belongs to the enclosing loop, here it is wired as if there were none (or to the wrong loop) and the statement is pruned as a no-op"))
    if n == 0:
        out.append(unresolved("LOWER-21", front.name, "sealing sites", "numba_scfg:1", "no call of seal_inside_loop / seal_outside_loop found"))
    return out


@rule("LOWER-20", 1, "a front-end handler writes jump targets / statements to the block that is current when it does so: a local that captured `self.current_block` is not used after a call that can split or replace the current block (lowering an expression that contains and/or opens new blocks)")
def lower20(ctx) -> List[Ob]:
    out: List[Ob] = []
    front = ctx.prog.cls(FRONT)
    em = _emitters(ctx) | {"add_block", "codegen", "handle_expression", "handle_bool_op"}
    n = 0
    for mname, m in sorted(front.methods.items()):
        cfg = ctx.cfg(m)
        caps = [s_ for s_ in A.walk_no_nested(m.node) if isinstance(s_, ast.Assign) and len(s_.targets) == 1 and isinstance(s_.targets[0], ast.Name) and A.unparse(s_.value) == "self.current_block"]
        for cap in caps:
            v = cap.targets[0].id
            uses = []
            for x in A.walk_no_nested(m.node):
                if isinstance(x, ast.Attribute) and isinstance(x.value, ast.Name) and x.value.id == v and x.attr in ("set_jump_targets", "instructions", "jump_targets", "seal_outside_loop", "seal_inside_loop"):
                    uses.append(x)
            dn = cfg.node_of(cap)
            for u in uses:
                n += 1
                un = cfg.node_of(u)
                if dn is None or un is None:
                    continue
                if not any(d.stmt is cap for d in cfg.reaching_defs(u, v)):
                    continue
                key = f"{mname}: {v}.{u.attr} after the capture"
                where = ctx.where(m, u)

                def _opens(z) -> bool:
                    if z.stmt is None or z is dn or z is un:
                        return False
                    roots = [z.stmt.test] if z.kind in ("if", "while") else ([z.stmt.iter] if z.kind == "for" else [z.stmt])
                    return any(isinstance(c, ast.Call) and isinstance(c.func, ast.Attribute) and isinstance(c.func.value, ast.Name) and c.func.value.id == "self" and c.func.attr in em for r in roots for c in ast.walk(r))

                between = [z for z in cfg.reachable(dn) if _opens(z) and un in cfg.reachable(z)]
                if between:
                    call_txt = A.unparse(between[0].stmt)[:50]
                    out.append(bad("LOWER-20", m.qualname, key, where, f"{v} was read from self.current_block before '{call_txt}', which can open new blocks (an and/or in the lowered expression splits the block): {v}.{u.attr} then edits the block in front of the split - its branch is overwritten and the block that holds the lowered statements becomes unreachable"))
                else:
                    out.append(ok("LOWER-20", m.qualname, key, where, "no lowering call between the capture and the use"))
    out.append(ok("LOWER-20", front.name, "census of captured current blocks", ctx.where(front.methods["transform"]) if "transform" in front.methods else "numba_scfg:1", f"{n} use(s) of a captured self.current_block", nontrivial=False))
    return out

