"""Engine QUERY - the graph queries against their definitions (clauses of C13).

Only the queries whose definition is a set-builder over the blocks are checked
(head, headers/entries, exiting/exits, reachability seed and expansion).  The
vendored SCC routine and the dominator fix-point are algorithms: not decided."""
from __future__ import annotations

import ast
from typing import List

from .. import astutil as A
from ..model import AnalysisError
from ..report import Ob, bad, ok, unresolved
from . import rule
from .common import method_calls


def _scfg_method(ctx, name):
    m = ctx.prog.cls("SCFG").find_method(name)
    if m is None:
        raise AnalysisError(f"SCFG.{name} not found")
    return m


def _strip_order(e: ast.AST) -> str:
    """text of e without order-only wrappers (sorted / list / tuple / iter)"""
    while isinstance(e, ast.Call) and isinstance(e.func, ast.Name) and e.func.id in ("sorted", "list", "tuple", "iter") and len(e.args) == 1 and not e.keywords:
        e = e.args[0]
    return A.unparse(e)


def _loops(node):
    return [n for n in A.walk_no_nested(node) if isinstance(n, ast.For)]


def _query1_set_builder(ctx, m) -> Optional[List[Ob]]:
    """find_head in set-builder form:  T = {jt for b in graph.values() for jt in b.jump_targets};
    H = [n for n in graph if n not in T];  exactly one element of H is returned"""
    out: List[Ob] = []
    where = ctx.where(m)
    GR = ("self.graph.keys()", "self.graph", "self.graph.values()", "self.graph.items()", "self")
    T = H = None
    t_attr = None
    for s_ in A.walk_no_nested(m.node):
        if not (isinstance(s_, (ast.Assign, ast.AnnAssign)) and s_.value is not None):
            continue
        tg = s_.targets[0] if isinstance(s_, ast.Assign) else s_.target
        v = s_.value
        if isinstance(v, ast.Call) and isinstance(v.func, ast.Name) and v.func.id in ("set", "frozenset", "list", "tuple", "sorted") and len(v.args) == 1:
            v = v.args[0]
        if not isinstance(tg, ast.Name) or not isinstance(v, (ast.SetComp, ast.ListComp, ast.GeneratorExp)):
            continue
        gens = v.generators
        if len(gens) == 2 and _strip_order(gens[0].iter) in GR and isinstance(gens[1].iter, ast.Attribute) and gens[1].iter.attr in ("jump_targets", "_jump_targets") and A.unparse(v.elt) == A.unparse(gens[1].target) and not gens[0].ifs and not gens[1].ifs:
            T, t_attr = tg.id, gens[1].iter.attr
        elif len(gens) == 1 and _strip_order(gens[0].iter) in GR[:2] + ("self",) and A.unparse(v.elt) == A.unparse(gens[0].target) and len(gens[0].ifs) == 1:
            c = gens[0].ifs[0]
            if isinstance(c, ast.Compare) and len(c.ops) == 1 and isinstance(c.ops[0], ast.NotIn) and A.unparse(c.left) == A.unparse(gens[0].target):
                H = (tg.id, A.unparse(c.comparators[0]), s_)
    if T is None or H is None or H[1] != T:
        return None
    out.append(ok("QUERY-1", m.qualname, "candidates are all block names", where, f"{H[0]} ranges over every block name", nontrivial=False))
    key = "every forward target of every block is removed"
    if t_attr == "jump_targets":
        out.append(ok("QUERY-1", m.qualname, key, where, f"{T} = all forward targets of all blocks; a name is kept iff it is not in {T}"))
    else:
        out.append(bad("QUERY-1", m.qualname, key, where, "declared back edges count as predecessors (raw _jump_targets): a loop header that is the entry of a region is no longer its head"))
    key = "exactly one head"
    asserts = [a for a in A.walk_no_nested(m.node) if isinstance(a, ast.Assert) and f"len({H[0]}) == 1" in A.unparse(a.test)]
    unp = [a for a in A.walk_no_nested(m.node) if isinstance(a, ast.Assign) and isinstance(a.targets[0], (ast.Tuple, ast.List)) and len(a.targets[0].elts) == 1 and A.unparse(a.value) == H[0]]
    rets = [r for r in A.walk_no_nested(m.node) if isinstance(r, ast.Return) and r.value is not None]
    if (asserts or unp) and rets:
        out.append(ok("QUERY-1", m.qualname, key, where, "uniqueness checked (assert / single-target unpack), the remaining name returned"))
    elif rets:
        out.append(bad("QUERY-1", m.qualname, key, where, "a remaining candidate is returned without checking that it is the only one"))
    else:
        out.append(unresolved("QUERY-1", m.qualname, key, where, "cannot see what find_head returns"))
    return out


@rule("QUERY-1", 3, "the head is computed as: all block names, minus every (forward) jump target of every block; exactly one must remain")
def query1(ctx) -> List[Ob]:
    out: List[Ob] = []
    m = _scfg_method(ctx, "find_head")
    where = ctx.where(m)
    cands = None
    for s in A.walk_no_nested(m.node):
        if isinstance(s, ast.Assign) and isinstance(s.targets[0], ast.Name) and isinstance(s.value, ast.Call) and isinstance(s.value.func, ast.Name) and s.value.func.id == "set" and s.value.args and _strip_order(s.value.args[0]) in ("self.graph.keys()", "self.graph", "self"):
            cands = s.targets[0].id
    key = "candidates are all block names"
    if cands is None:
        sb = _query1_set_builder(ctx, m)
        if sb is not None:
            return sb
        out.append(unresolved("QUERY-1", m.qualname, key, where, "find_head is not written in the recognised form (candidate set of all names)"))
        return out
    out.append(ok("QUERY-1", m.qualname, key, where, f"{cands} = set(all names)", nontrivial=False))
    key = "every forward target of every block is removed"
    good = False
    why = None
    recognised = False
    for outer in _loops(m.node):
        if A.unparse(outer.iter) not in ("self.graph.keys()", "self.graph", "self.graph.values()", "self.graph.items()"):
            continue
        for inner in [n for n in A.walk_no_nested(outer) if isinstance(n, ast.For) and n is not outer]:
            it = inner.iter
            if isinstance(it, ast.Attribute) and it.attr in ("jump_targets", "_jump_targets"):
                rem = [c for c in A.walk_no_nested(inner) if isinstance(c, ast.Call) and isinstance(c.func, ast.Attribute) and A.unparse(c.func.value) == cands and c.func.attr in ("discard", "remove") and c.args and A.unparse(c.args[0]) == A.unparse(inner.target)]
                conds = [a for a in A.ancestors(rem[0]) if isinstance(a, (ast.If,)) and any(x is outer for x in A.ancestors(a))] if rem else []
                recognised = recognised or bool(rem)
                if rem and not conds and not [b for b in A.walk_no_nested(outer) if isinstance(b, (ast.Break, ast.Continue, ast.Return))]:
                    if it.attr == "jump_targets":
                        good = True
                    else:
                        why = "declared back edges count as predecessors (raw _jump_targets): a loop header that is the entry of a region is no longer its head"
                elif rem:
                    why = "a jump target is removed from the candidates only under a condition / the scan can stop early: a block with a predecessor can remain a candidate"
    if not good and not why:
        # the same in one call per block: <candidates>.difference_update(<block>.jump_targets)
        for outer in _loops(m.node):
            if A.unparse(outer.iter) not in ("self.graph.keys()", "self.graph", "self.graph.values()", "self.graph.items()"):
                continue
            for c in A.walk_no_nested(outer):
                if isinstance(c, ast.Call) and isinstance(c.func, ast.Attribute) and A.unparse(c.func.value) == cands and c.func.attr == "difference_update" and len(c.args) == 1 and isinstance(c.args[0], ast.Attribute):
                    conds = [a for a in A.ancestors(c) if isinstance(a, ast.If) and any(x is outer for x in A.ancestors(a))]
                    stops = [b for b in A.walk_no_nested(outer) if isinstance(b, (ast.Break, ast.Continue, ast.Return))]
                    if c.args[0].attr == "jump_targets" and not conds and not stops:
                        good = True
                    elif c.args[0].attr == "_jump_targets":
                        why = "declared back edges count as predecessors (raw _jump_targets): a loop header that is the entry of a region is no longer its head"
                    else:
                        why = "a jump target is removed from the candidates only under a condition / the scan can stop early: a block with a predecessor can remain a candidate"
    if good:
        out.append(ok("QUERY-1", m.qualname, key, where, "unconditional discard of each element of block.jump_targets for every block"))
    elif why:
        out.append(bad("QUERY-1", m.qualname, key, where, why))
    else:
        out.append(unresolved("QUERY-1", m.qualname, key, where, "find_head is not written in the recognised form (loop over all blocks discarding their jump targets)"))
    key = "exactly one head"
    asserts = [s for s in A.walk_no_nested(m.node) if isinstance(s, ast.Assert) and f"len({cands}) == 1" in A.unparse(s.test)]
    rets = [r for r in A.walk_no_nested(m.node) if isinstance(r, ast.Return) and r.value is not None and cands in A.names_in(r.value)]
    if asserts and rets:
        out.append(ok("QUERY-1", m.qualname, key, where, "uniqueness asserted, the remaining name returned"))
    elif rets:
        out.append(bad("QUERY-1", m.qualname, key, where, "a remaining candidate is returned without checking that it is the only one"))
    else:
        out.append(unresolved("QUERY-1", m.qualname, key, where, "cannot see what find_head returns"))
    return out


@rule("QUERY-2", 6, "headers/entries and exiting/exits of a block subset are computed by their set-builder definitions over all blocks outside / inside the subset")
def query2(ctx) -> List[Ob]:
    out: List[Ob] = []
    # ---- exiting / exits
    m = _scfg_method(ctx, "find_exiting_and_exits")
    sub = [p.arg for p in m.params if p.arg != "self"][0]
    where = ctx.where(m)
    from .common import expanded_function

    # locals that merely name a selector (`block = self.graph[inside]`) are read through
    mx = expanded_function(m)
    A.set_parents(mx)
    outer = [lp for lp in _loops(mx) if A.unparse(lp.iter) in (sub, f"sorted({sub})")]
    if not outer:
        out.append(unresolved("QUERY-2", m.qualname, "iterates the subset", where, "find_exiting_and_exits is not written in the recognised form (loop over the subset)"))
    else:
        lp = outer[0]
        v = A.unparse(lp.target)
        inner = [n for n in A.walk_no_nested(lp) if isinstance(n, ast.For) and n is not lp and A.unparse(n.iter) in (f"self.graph[{v}].jump_targets", f"self[{v}].jump_targets")]
        key = "outside targets of inside blocks"
        good = False
        if inner:
            jt = A.unparse(inner[0].target)
            for cond in [n for n in A.walk_no_nested(inner[0]) if isinstance(n, ast.If)]:
                if A.unparse(cond.test) == f"{jt} not in {sub}":
                    # both recordings are direct, unconditional statements of that branch
                    direct = [st.value for st in cond.body if isinstance(st, ast.Expr) and isinstance(st.value, ast.Call) and isinstance(st.value.func, ast.Attribute) and st.value.func.attr == "add"]
                    adds = {(A.unparse(c.func.value), A.unparse(c.args[0])) for c in direct if c.args}
                    names = {a for a, _ in adds}
                    if any(x == v for _, x in adds) and any(x == jt for _, x in adds) and len(names) == 2:
                        good = True
        alt_exiting_ok = False
        if not good and not inner:
            # the same through a collection: L = [jt for jt in <targets of v> if jt not in sub]; exits.update(L);
            # if L [or <v is exiting>]: exiting.add(v)
            for st_ in lp.body:
                if isinstance(st_, ast.Assign) and len(st_.targets) == 1 and isinstance(st_.targets[0], ast.Name) and isinstance(st_.value, (ast.ListComp, ast.SetComp)) and len(st_.value.generators) == 1:
                    g_ = st_.value.generators[0]
                    L = st_.targets[0].id
                    jt = A.unparse(g_.target)
                    if A.unparse(g_.iter) in (f"self.graph[{v}].jump_targets", f"self[{v}].jump_targets") and A.unparse(st_.value.elt) == jt and [A.unparse(c_) for c_ in g_.ifs] == [f"{jt} not in {sub}"]:
                        upd = [x for x in lp.body if isinstance(x, ast.Expr) and isinstance(x.value, ast.Call) and isinstance(x.value.func, ast.Attribute) and x.value.func.attr == "update" and x.value.args and A.unparse(x.value.args[0]) == L]
                        ifs_ = [x for x in lp.body if isinstance(x, ast.If) and not x.orelse and any(isinstance(y, ast.Expr) and isinstance(y.value, ast.Call) and isinstance(y.value.func, ast.Attribute) and y.value.func.attr == "add" and y.value.args and A.unparse(y.value.args[0]) == v for y in x.body)]
                        tests_ = set()
                        for x in ifs_:
                            tests_ |= {A.unparse(t_) for t_ in (x.test.values if isinstance(x.test, ast.BoolOp) and isinstance(x.test.op, ast.Or) else [x.test])}
                        if len(upd) == 1 and L in tests_ and tests_ <= {L, f"self.graph[{v}].is_exiting", f"self[{v}].is_exiting"}:
                            good = True
                            alt_exiting_ok = any("is_exiting" in t_ for t_ in tests_)
        if good:
            out.append(ok("QUERY-2", m.qualname, key, where, "for every target of an inside block that is not inside: the block is exiting, the target an exit"))
        elif inner:
            out.append(bad("QUERY-2", m.qualname, key, where, "exiting/exits do not follow the definition 'inside block with a (forward) target outside the subset, and that target'"))
        else:
            out.append(unresolved("QUERY-2", m.qualname, key, where, "inner loop over the forward targets of an inside block not found"))
        key = "inside blocks without target are exiting"
        ex = [n for n in lp.body if isinstance(n, ast.If) and ("is_exiting" in A.unparse(n.test) or A.unparse(n.test) in (f"not self.graph[{v}].jump_targets", f"not self[{v}].jump_targets")) and v in A.unparse(n.test) and method_calls(ast.Module(n.body, []), "add")]
        if ex or alt_exiting_ok:
            out.append(ok("QUERY-2", m.qualname, key, where, "a block without successors is exiting"))
        else:
            out.append(bad("QUERY-2", m.qualname, key, where, "inside blocks without any target (returns) are not counted as exiting"))
    rets = [r for r in A.walk_no_nested(m.node) if isinstance(r, ast.Return) and isinstance(r.value, ast.Tuple) and len(r.value.elts) == 2]
    key = "returns (exiting, exits)"
    if rets and all("exiting" in A.unparse(r.value.elts[0]) and "exit" in A.unparse(r.value.elts[1]) and "exiting" not in A.unparse(r.value.elts[1]) for r in rets):
        out.append(ok("QUERY-2", m.qualname, key, where, A.unparse(rets[0].value)[:60], nontrivial=False))
    elif rets:
        out.append(bad("QUERY-2", m.qualname, key, where, "the two results are not returned as (exiting blocks, exit blocks)"))
    else:
        out.append(unresolved("QUERY-2", m.qualname, key, where, "return value not recognised"))
    # ---- headers / entries
    m = _scfg_method(ctx, "find_headers_and_entries")
    sub = [p.arg for p in m.params if p.arg != "self"][0]
    where = ctx.where(m)
    outer = [lp for lp in _loops(m.node) if f"exclude_blocks({sub})" in A.unparse(lp.iter) or (isinstance(lp.iter, ast.Attribute) and "graph" in A.unparse(lp.iter))]
    key = "inside targets of outside blocks"
    good = False
    inter = None
    if outer:
        lp = outer[0]
        v = A.unparse(lp.target)
        for s in lp.body:
            if isinstance(s, ast.Assign) and isinstance(s.value, ast.Call) and isinstance(s.value.func, ast.Attribute) and s.value.func.attr == "intersection" and A.unparse(s.value.func.value) == sub and s.value.args and f"[{v}]" in A.unparse(s.value.args[0]) and "jump_targets" in A.unparse(s.value.args[0]):
                inter = A.unparse(s.targets[0])
        if inter:
            upd = [c for c in method_calls(lp, "update") if c.args and A.unparse(c.args[0]) == inter]
            ent = [n for n in lp.body if isinstance(n, ast.If) and A.unparse(n.test) == inter and any(c.args and A.unparse(c.args[0]) == v for c in method_calls(ast.Module(n.body, []), "add"))]
            # unconditional, or only under `if <the intersection>:` (updating with the empty set is a no-op)
            def _harmless(a: ast.If, node: ast.AST) -> bool:
                return A.unparse(a.test) in (inter, f"len({inter}) > 0", f"len({inter}) != 0", f"len({inter}) >= 1") and any(node is x or any(y is x for y in A.ancestors(node)) for x in a.body)

            uncond = upd and not [a for a in A.ancestors(upd[0]) if isinstance(a, ast.If) and any(x is lp for x in A.ancestors(a)) and not _harmless(a, upd[0])]
            good = bool(uncond and ent)
    if good:
        out.append(ok("QUERY-2", m.qualname, key, where, "headers += subset & targets(outside block); the outside block is an entry when that is non-empty"))
    elif outer and inter:
        out.append(bad("QUERY-2", m.qualname, key, where, "headers/entries do not follow the definition 'inside targets of outside blocks, and their sources' (conditional update, or the source is not recorded as entry)"))
    else:
        # the recognised computation, but only for some of the outside blocks: a filter in front of it
        filt = None
        if outer:
            lp = outer[0]
            v = A.unparse(lp.target)
            for s in lp.body:
                if isinstance(s, ast.If) and not s.orelse:
                    inside = [x for x in A.walk_no_nested(ast.Module(s.body, [])) if isinstance(x, ast.Call) and isinstance(x.func, ast.Attribute) and x.func.attr == "intersection" and A.unparse(x.func.value) == sub and x.args and f"[{v}]" in A.unparse(x.args[0]) and "jump_targets" in A.unparse(x.args[0])]
                    if inside and " in " not in A.unparse(s.test).replace(" not in ", " in ") or inside and sub not in A.unparse(s.test):
                        filt = s
        if filt is not None:
            out.append(bad("QUERY-2", m.qualname, key, ctx.where(m, filt), f"outside blocks are looked at only under '{A.unparse(filt.test)[:60]}': an outside block for which that fails but which has an arc into the subset (a latch whose only arcs are declared back edges is 'exiting' by the filtered view) is not an entry and its target not a header"))
        else:
            out.append(unresolved("QUERY-2", m.qualname, key, where, "find_headers_and_entries is not written in the recognised form"))
    ex = ctx.prog.cls("SCFG").find_method("exclude_blocks")
    key = "outside = every block not in the subset"
    if ex is not None:
        lps = _loops(ex.node)
        okx = lps and A.unparse(lps[0].iter) in ("self.graph", "self.graph.keys()") and any(isinstance(n, ast.If) and " not in " in A.unparse(n.test) for n in lps[0].body)
        if okx:
            out.append(ok("QUERY-2", ex.qualname, key, ctx.where(ex), "yields each graph key that is not excluded", nontrivial=False))
        else:
            out.append(bad("QUERY-2", ex.qualname, key, ctx.where(ex), "exclude_blocks does not yield every block outside the given set"))
    rets = [r for r in A.walk_no_nested(m.node) if isinstance(r, ast.Return) and isinstance(r.value, ast.Tuple) and len(r.value.elts) == 2]
    key = "returns (headers, entries)"
    if rets and all("header" in A.unparse(r.value.elts[0]) and "entr" in A.unparse(r.value.elts[1]) for r in rets):
        out.append(ok("QUERY-2", m.qualname, key, where, A.unparse(rets[0].value)[:60], nontrivial=False))
    elif rets:
        out.append(bad("QUERY-2", m.qualname, key, where, "the two results are not returned as (headers, entries)"))
    else:
        out.append(unresolved("QUERY-2", m.qualname, key, where, "return value not recognised"))
    return out


@rule("QUERY-3", 3, "reachability means a path of at least one edge: the search starts from the successors of the start block, answers yes exactly when the end block is taken from the work-list, and expands forward targets")
def query3(ctx) -> List[Ob]:
    out: List[Ob] = []
    m = _scfg_method(ctx, "is_reachable_dfs")
    params = [p.arg for p in m.params if p.arg != "self"]
    if len(params) != 2:
        raise AnalysisError("is_reachable_dfs: expected (begin, end)")
    begin, end = params
    where = ctx.where(m)
    seeds = [s for s in A.walk_no_nested(m.node) if isinstance(s, ast.Assign) and isinstance(s.targets[0], ast.Name) and begin in A.names_in(s.value)]
    # the visited set starts empty: the start block itself must be reachable again through a cycle
    pre = [s for s in seeds if isinstance(s.value, (ast.Set, ast.List)) or (isinstance(s.value, ast.Call) and isinstance(s.value.func, ast.Name) and s.value.func.id == "set")]
    visited_names = {A.unparse(c.func.value) for c in A.walk_no_nested(m.node) if isinstance(c, ast.Call) and isinstance(c.func, ast.Attribute) and c.func.attr == "add"}
    for s_ in pre:
        if A.unparse(s_.targets[0]) in visited_names:
            out.append(bad("QUERY-3", m.qualname, "visited set starts empty", ctx.where(m, s_), f"the visited set is initialised with {A.unparse(s_.value)}: the start block is treated as already visited, so a cycle back to it ('{begin}' reaches '{begin}') is not found"))
    seeds = [s for s in seeds if s not in pre or A.unparse(s.targets[0]) not in visited_names]
    key = "seeded with the successors of the start block"
    work = None
    if seeds and any(A.unparse(s.value) in (f"list(self.graph[{begin}].jump_targets)", f"list(self[{begin}].jump_targets)", f"deque(self.graph[{begin}].jump_targets)") for s in seeds):
        work = A.unparse(seeds[0].targets[0])
        out.append(ok("QUERY-3", m.qualname, key, where, f"{work} starts as the jump targets of {begin}: a path needs at least one edge"))
    elif seeds and any(A.unparse(s.value) in (f"[{begin}]", f"list(({begin},))", f"deque([{begin}])", f"{{{begin}}}") or "_jump_targets" in A.unparse(s.value) for s in seeds):
        work = A.unparse(seeds[0].targets[0])
        out.append(bad("QUERY-3", m.qualname, key, where, f"the search is seeded with {[A.unparse(s.value)[:40] for s in seeds]}: a block reaches itself without an edge, or declared back edges count as paths"))
    else:
        out.append(unresolved("QUERY-3", m.qualname, key, where, "the seeding of the search is not in a recognised form"))
    key = "positive answer exactly for the end block"
    trues = [r for r in A.walk_no_nested(m.node) if isinstance(r, ast.Return) and isinstance(r.value, ast.Constant) and r.value.value is True]
    goodt = bool(trues) and all(any(isinstance(a, ast.If) and end in A.names_in(a.test) and isinstance(a.test, ast.Compare) and isinstance(a.test.ops[0], ast.Eq) for a in A.ancestors(r)) for r in trues)
    # every popped block is compared with the end block: only already-visited blocks may be skipped before the comparison
    skipped_early = None
    for r in trues:
        arm_if = next((a for a in A.ancestors(r) if isinstance(a, ast.If) and end in A.names_in(a.test)), None)
        if arm_if is None:
            continue
        chain = [arm_if]
        cur = arm_if
        while True:
            par = A.parent(cur)
            if isinstance(par, ast.If) and par.orelse == [cur]:
                chain.append(par)
                cur = par
            else:
                break
        seq_owner = A.parent(cur)
        earlier = list(chain[1:])
        for fld in ("body", "orelse"):
            seq = getattr(seq_owner, fld, None)
            if isinstance(seq, list) and cur in seq:
                earlier += [s for s in seq[: seq.index(cur)] if isinstance(s, ast.If)]
        for e_if in earlier:
            if e_if.body and isinstance(e_if.body[-1], (ast.Continue, ast.Return)) and not any(x is r for st_ in e_if.body for x in ast.walk(st_)):
                t = e_if.test
                disj = t.values if isinstance(t, ast.BoolOp) and isinstance(t.op, ast.Or) else [t]
                for d in disj:
                    dt = A.unparse(d)
                    if isinstance(e_if.body[-1], ast.Return):
                        continue  # the exhausted-work-list exit
                    if not (isinstance(d, ast.Compare) and isinstance(d.ops[0], ast.In) and A.unparse(d.comparators[0]) in visited_names):
                        skipped_early = (e_if, dt)
    if skipped_early is not None:
        goodt = False
        out.append(bad("QUERY-3", m.qualname, key, ctx.where(m, skipped_early[0]), f"a popped block is skipped under '{skipped_early[1][:50]}' before it is compared with '{end}': an end block for which that holds (e.g. a target outside the sub-graph) is never reported reachable"))
    elif goodt:
        out.append(ok("QUERY-3", m.qualname, key, where, f"return True only under '<popped> == {end}'"))
    elif trues:
        out.append(bad("QUERY-3", m.qualname, key, where, "the positive answer is not tied to having reached the end block"))
    else:
        out.append(unresolved("QUERY-3", m.qualname, key, where, "no 'return True' found: not the recognised form"))
    key = "expansion along forward targets inside the graph"
    exts = [c for c in A.walk_no_nested(m.node) if isinstance(c, ast.Call) and isinstance(c.func, ast.Attribute) and c.func.attr in ("extend", "update") and work and A.unparse(c.func.value) == work]
    if exts and all(A.unparse(c.args[0]).endswith("].jump_targets") for c in exts):
        out.append(ok("QUERY-3", m.qualname, key, where, f"{A.unparse(exts[0].args[0])}"))
    elif exts:
        out.append(bad("QUERY-3", m.qualname, key, where, f"a visited block is expanded by {A.unparse(exts[0].args[0])[:50]}, not by its forward jump targets"))
    else:
        out.append(unresolved("QUERY-3", m.qualname, key, where, "expansion step not recognised"))
    return out


# ------------------------------------------------------------------ QUERY-4


def _fn(ctx, name):
    f = ctx.prog.find_function(name)
    if f is None:
        raise AnalysisError(f"{name} not found")
    return f


def _single_def_value(ctx, fn, name_node):
    ds = [d for d in ctx.cfg(fn).reaching_defs(name_node) if d.stmt is not None]
    if len(ds) == 1 and isinstance(ds[0].stmt, (ast.Assign, ast.AnnAssign)) and ds[0].stmt.value is not None:
        return ds[0].stmt.value
    return None


def _one_record_per_arm(ctx, fn, lp, c, nones, regs, res_names):
    """Abstract run of one iteration of the arm loop over its control-flow graph.  State: number of records
    appended so far (capped), whether the reachability test `c` has succeeded for some other successor, and
    the boolean flags assigned constants (or the test itself).  Returns None when on every path exactly one
    record is appended, the placeholder only after a success and the region only without one; else a reason."""
    if len(res_names) != 1 or not nones or not regs:
        return "the result does not get a placeholder (None) and a region record per successor"
    cfg = ctx.cfg(fn)
    head = cfg.node_of(lp)
    if head is None:
        return "arm loop not found in the control-flow graph"
    body_nodes = {id(n) for n in ast.walk(ast.Module(lp.body, []))}

    def in_body(nd) -> bool:
        return nd.stmt is not None and id(nd.stmt) in body_nodes

    def has_c(e) -> bool:
        return e is not None and any(x is c for x in ast.walk(e))

    def quantified(e) -> bool:
        # any(<.. c ..> for ..): false means that the test failed for every other successor
        return isinstance(e, ast.Call) and isinstance(e.func, ast.Name) and e.func.id == "any" and has_c(e)

    none_ids = {id(a) for a in nones}
    reg_ids = {id(a) for a in regs}
    problems = []
    finals = set()
    start = [s_ for s_ in head.succ if in_body(s_)]
    seen = set()
    work = [(s_, (0, False, ())) for s_ in start]
    steps = 0
    while work and steps < 20000:
        steps += 1
        nd, st = work.pop()
        if (nd.idx, st) in seen:
            continue
        seen.add((nd.idx, st))
        cnt, succ_, flags = st
        fl = dict(flags)
        if nd is head or not in_body(nd):
            finals.add((cnt, nd is head))
            continue
        s_ = nd.stmt
        nxt = list(nd.succ)
        if nd.kind == "if":
            t = s_.test
            neg = False
            while isinstance(t, ast.UnaryOp) and isinstance(t.op, ast.Not):
                t, neg = t.operand, not neg
            tsucc = nd.true_succ
            outs = []
            for m in nd.succ:
                if m in (cfg.raise_exit,):
                    continue
                is_true = m is tsucc
                val = is_true != neg  # truth of t on this edge
                ns, nf = succ_, dict(fl)
                if isinstance(t, ast.Name) and t.id in fl:
                    known = fl[t.id]
                    if known in (True, False) and known != val:
                        continue
                    if known == "S":
                        ns = ns or val
                elif has_c(t):
                    if val:
                        ns = True
                outs.append((m, (cnt, ns, tuple(sorted(nf.items(), key=str)))))
            work.extend(outs)
            continue
        if nd.kind == "stmt" and isinstance(s_, ast.Assign) and len(s_.targets) == 1 and isinstance(s_.targets[0], ast.Name):
            nm = s_.targets[0].id
            if isinstance(s_.value, ast.Constant) and isinstance(s_.value.value, bool):
                fl[nm] = s_.value.value
            elif has_c(s_.value):
                fl[nm] = "S"
            else:
                fl.pop(nm, None)
        if nd.kind == "stmt":
            for call in [x for x in ast.walk(s_) if isinstance(x, ast.Call)] if not isinstance(s_, (ast.FunctionDef, ast.ClassDef)) else []:
                if id(call) in none_ids:
                    cnt = min(cnt + 1, 2)
                    if not succ_:
                        problems.append("a placeholder is recorded on a path where no other successor was found to reach the arm")
                elif id(call) in reg_ids:
                    cnt = min(cnt + 1, 2)
                    if succ_:
                        problems.append("the region is recorded although another successor reaches the arm")
        st2 = (cnt, succ_, tuple(sorted(fl.items(), key=str)))
        for m in nxt:
            if m is cfg.raise_exit:
                continue
            work.append((m, st2))
    if steps >= 20000:
        return "the arm loop is too intricate to follow"
    if problems:
        return problems[0]
    bad_counts = sorted({cnt for cnt, _ in finals if cnt != 1})
    if bad_counts:
        return f"some path through one iteration appends {'no' if bad_counts[0] == 0 else 'more than one'} record"
    return None


@rule("QUERY-4", 3, "a branch arm is empty exactly when it is reachable from some other successor of the branching block (quantified over all of them); otherwise its region is the set of blocks dominated by the arm and not by the join")
def query4(ctx) -> List[Ob]:
    out: List[Ob] = []
    fn = _fn(ctx, "find_branch_regions")
    params = [p.arg for p in fn.params]
    where = ctx.where(fn)
    outer = None
    for lp in _loops(fn.node):
        it = lp.iter
        if isinstance(it, ast.Call) and isinstance(it.func, ast.Name) and it.func.id == "enumerate" and it.args:
            it = it.args[0]
        zipped = False
        if isinstance(it, ast.Call) and isinstance(it.func, ast.Name) and it.func.id == "zip" and it.args and isinstance(lp.target, ast.Tuple):
            # the arm walks the first sequence, something else is paired with it
            it, zipped = it.args[0], True
        src = it
        if isinstance(it, ast.Name):
            src = _single_def_value(ctx, fn, it) or it
        if isinstance(src, ast.Attribute) and src.attr in ("jump_targets", "_jump_targets") and not any(isinstance(a, ast.For) for a in A.ancestors(lp) if a is not fn.node and any(x is fn.node for x in A.ancestors(a))):
            outer = (lp, it, src, zipped)
            break
    key = "arms are the forward successors of the branching block"
    if outer is None:
        out.append(unresolved("QUERY-4", fn.qualname, key, where, "find_branch_regions is not written in the recognised form (loop over the successors of the branching block)"))
        return out
    lp, it, src, zipped = outer
    arm = A.unparse((lp.target.elts[0] if zipped else lp.target.elts[-1]) if isinstance(lp.target, ast.Tuple) else lp.target)
    if src.attr == "_jump_targets":
        out.append(bad("QUERY-4", fn.qualname, key, ctx.where(fn, lp), "the arms are taken from the raw successor list: a declared back edge becomes a branch arm"))
    else:
        out.append(ok("QUERY-4", fn.qualname, key, ctx.where(fn, lp), A.unparse(src), nontrivial=False))
    # the emptiness test
    key = "emptiness test quantifies over every other successor"
    calls = [c for c in ast.walk(lp) if isinstance(c, ast.Call) and isinstance(c.func, ast.Attribute) and c.func.attr == "is_reachable_dfs" and len(c.args) == 2]
    if not calls:
        out.append(unresolved("QUERY-4", fn.qualname, key, ctx.where(fn, lp), "no reachability test between arms found"))
    for c in calls:
        x, y = c.args
        wherec = ctx.where(fn, c)
        if A.unparse(y) != arm:
            out.append(bad("QUERY-4", fn.qualname, key, wherec, f"the test asks whether {A.unparse(y)} is reachable from {A.unparse(x)}: an arm is empty when *it* ({arm}) is reachable from another successor"))
            continue
        # x must range over the same successor sequence
        dom = None
        if isinstance(x, ast.Name):
            for a in A.ancestors(c):
                if isinstance(a, ast.For) and a is not lp and x.id in A.names_in(a.target):
                    dom = a.iter
                    break
                if isinstance(a, (ast.GeneratorExp, ast.ListComp, ast.SetComp)):
                    for g in a.generators:
                        if x.id in A.names_in(g.target):
                            dom = g.iter
                    if dom is not None:
                        break
                if a is lp:
                    break
        if dom is None:
            out.append(bad("QUERY-4", fn.qualname, key, wherec, f"the arm is compared with the single block {A.unparse(x)[:40]}, not with every other successor: with three or more successors an arm that another one runs into is given a region of its own"))
            continue
        if A.unparse(dom) != A.unparse(it):
            out.append(bad("QUERY-4", fn.qualname, key, wherec, f"the other successors range over {A.unparse(dom)[:40]}, not over the successor list {A.unparse(it)[:40]}"))
            continue
        # the comparison excludes the arm itself
        conj = None
        for a in A.ancestors(c):
            if isinstance(a, ast.BoolOp) and isinstance(a.op, ast.And):
                conj = a
                break
            if isinstance(a, (ast.If, ast.comprehension, ast.GeneratorExp)):
                break
        texts = {A.unparse(v) for v in conj.values} if conj is not None else set()
        # also an `if` filter of the comprehension
        for a in A.ancestors(c):
            if isinstance(a, (ast.GeneratorExp, ast.ListComp, ast.SetComp)):
                for g in a.generators:
                    texts |= {A.unparse(i) for i in g.ifs}
        if not ({f"{x.id} != {arm}", f"{arm} != {x.id}", f"{x.id} is not {arm}"} & texts):
            out.append(bad("QUERY-4", fn.qualname, key, wherec, f"the arm itself is not excluded ('{x.id} != {arm}'): an arm inside a cycle is reachable from itself and is wrongly treated as empty"))
            continue
        out.append(ok("QUERY-4", fn.qualname, key, wherec, f"is_reachable_dfs({x.id}, {arm}) for every {x.id} != {arm} in {A.unparse(it)[:30]}"))
        # one record per arm
        key2 = "one record per arm: placeholder or region"
        appends = [a for a in ast.walk(lp) if isinstance(a, ast.Call) and isinstance(a.func, ast.Attribute) and a.func.attr == "append" and a.args]
        nones = [a for a in appends if isinstance(a.args[0], ast.Constant) and a.args[0].value is None]
        res_names = {A.unparse(a.func.value) for a in nones}
        # the region record: a tuple (arm, members) or a record class built from them
        regs = [a for a in appends if A.unparse(a.func.value) in res_names and ((isinstance(a.args[0], ast.Tuple) and a.args[0].elts and A.unparse(a.args[0].elts[0]) == arm) or (isinstance(a.args[0], ast.Call) and a.args[0].args and A.unparse(a.args[0].args[0]) == arm))]
        verdict = _one_record_per_arm(ctx, fn, lp, c, nones, regs, res_names)
        if verdict is None:
            out.append(ok("QUERY-4", fn.qualname, key2, ctx.where(fn, nones[0]), "on every path through one iteration exactly one record is appended: None on the paths where some other successor reaches the arm, (arm, members) on the paths where none does"))
        else:
            out.append(bad("QUERY-4", fn.qualname, key2, ctx.where(fn, lp), verdict + ": the list no longer lines up with the successor positions"))
    # membership of the region
    key = "region = dominated by the arm and not by the join"
    end = params[2] if len(params) >= 3 else "end"
    mem = None
    for l2 in [n for n in ast.walk(lp) if isinstance(n, ast.For) and n is not lp]:
        if isinstance(l2.iter, ast.Call) and isinstance(l2.iter.func, ast.Attribute) and l2.iter.func.attr == "items" and isinstance(l2.target, ast.Tuple) and len(l2.target.elts) == 2:
            dsrc = l2.iter.func.value
            dval = _single_def_value(ctx, fn, dsrc) if isinstance(dsrc, ast.Name) else dsrc
            if isinstance(dval, ast.Call) and (A.dotted(dval.func) or "").endswith("_doms"):
                mem = (l2, dval)
    comp_mem = None
    if mem is None:
        # the same as a comprehension: {k for k, kd in doms.items() if <arm> in kd and <end> not in kd}
        for cp in [n for n in ast.walk(lp) if isinstance(n, (ast.SetComp, ast.ListComp, ast.GeneratorExp)) and len(n.generators) == 1]:
            g_ = cp.generators[0]
            if isinstance(g_.iter, ast.Call) and isinstance(g_.iter.func, ast.Attribute) and g_.iter.func.attr == "items" and isinstance(g_.target, ast.Tuple) and len(g_.target.elts) == 2:
                dsrc = g_.iter.func.value
                dval = _single_def_value(ctx, fn, dsrc) if isinstance(dsrc, ast.Name) else dsrc
                if isinstance(dval, ast.Call) and (A.dotted(dval.func) or "").endswith("_doms"):
                    comp_mem = (cp, g_, dval)
    if comp_mem is not None:
        cp, g_, dval = comp_mem
        k, kd = [A.unparse(e) for e in g_.target.elts]
        callee = A.dotted(dval.func) or ""
        conj = set()
        for c_ in g_.ifs:
            if isinstance(c_, ast.BoolOp) and isinstance(c_.op, ast.And):
                conj |= {A.unparse(v) for v in c_.values}
            else:
                conj.add(A.unparse(c_))
        if callee.endswith("_post_doms"):
            out.append(bad("QUERY-4", fn.qualname, key, ctx.where(fn, cp), "membership is decided on post-dominators, not dominators"))
        elif conj == {f"{arm} in {kd}", f"{end} not in {kd}"} and A.unparse(cp.elt) == k:
            out.append(ok("QUERY-4", fn.qualname, key, ctx.where(fn, cp), f"{k} is a member iff {arm} in dom({k}) and {end} not in dom({k})"))
        else:
            out.append(bad("QUERY-4", fn.qualname, key, ctx.where(fn, cp), f"membership test is {sorted(conj) or 'not a conjunction'}: expected '{arm} in {kd}' and '{end} not in {kd}'"))
    elif mem is None:
        out.append(unresolved("QUERY-4", fn.qualname, key, where, "membership loop over the dominator sets not found"))
    else:
        l2, dval = mem
        k, kd = [A.unparse(e) for e in l2.target.elts]
        callee = A.dotted(dval.func) or ""
        ifs = [n for n in l2.body if isinstance(n, ast.If)]
        conj = set()
        if ifs and isinstance(ifs[0].test, ast.BoolOp) and isinstance(ifs[0].test.op, ast.And):
            conj = {A.unparse(v) for v in ifs[0].test.values}
        adds = [a for a in method_calls(l2, "add") if a.args and A.unparse(a.args[0]) == k]
        if callee.endswith("_post_doms"):
            out.append(bad("QUERY-4", fn.qualname, key, ctx.where(fn, l2), "membership is decided on post-dominators, not dominators"))
        elif conj == {f"{arm} in {kd}", f"{end} not in {kd}"} and adds and not ifs[0].orelse:
            out.append(ok("QUERY-4", fn.qualname, key, ctx.where(fn, l2), f"{k} is a member iff {arm} in dom({k}) and {end} not in dom({k})"))
        else:
            out.append(bad("QUERY-4", fn.qualname, key, ctx.where(fn, l2), f"membership test is {sorted(conj) or 'not a conjunction'}: expected '{arm} in {kd}' and '{end} not in {kd}'"))
    return out


# ------------------------------------------------------------------ QUERY-5

_ATOMS = ("J", "G", "K")


def _set_fn(e: ast.AST, jt_texts, graph_texts, kname):
    """a set expression as a predicate over the atoms (x in forward targets, x in graph, x == k); None when not understood; 'raw' when the raw successor list is used"""
    t = A.unparse(e)
    if t in jt_texts:
        return lambda J, G, K: J
    if any(t == r for r in [j.replace(".jump_targets", "._jump_targets") for j in jt_texts]):
        return "raw"
    if t in graph_texts:
        return lambda J, G, K: G
    if isinstance(e, ast.Set) and len(e.elts) == 1 and A.unparse(e.elts[0]) == kname:
        return lambda J, G, K: K
    if isinstance(e, ast.Call) and isinstance(e.func, ast.Name) and e.func.id in ("set", "frozenset", "list", "tuple", "sorted") and len(e.args) == 1:
        return _set_fn(e.args[0], jt_texts, graph_texts, kname)
    if isinstance(e, ast.Call) and isinstance(e.func, ast.Attribute) and e.func.attr in ("intersection", "union", "difference") and len(e.args) == 1:
        a, b = _set_fn(e.func.value, jt_texts, graph_texts, kname), _set_fn(e.args[0], jt_texts, graph_texts, kname)
        if a == "raw" or b == "raw":
            return "raw"
        if a is None or b is None:
            return None
        op = e.func.attr
        return {"intersection": lambda J, G, K: a(J, G, K) and b(J, G, K), "union": lambda J, G, K: a(J, G, K) or b(J, G, K), "difference": lambda J, G, K: a(J, G, K) and not b(J, G, K)}[op]
    if isinstance(e, ast.BinOp) and isinstance(e.op, (ast.BitAnd, ast.BitOr, ast.Sub)):
        a, b = _set_fn(e.left, jt_texts, graph_texts, kname), _set_fn(e.right, jt_texts, graph_texts, kname)
        if a == "raw" or b == "raw":
            return "raw"
        if a is None or b is None:
            return None
        if isinstance(e.op, ast.BitAnd):
            return lambda J, G, K: a(J, G, K) and b(J, G, K)
        if isinstance(e.op, ast.BitOr):
            return lambda J, G, K: a(J, G, K) or b(J, G, K)
        return lambda J, G, K: a(J, G, K) and not b(J, G, K)
    if isinstance(e, ast.Call) and isinstance(e.func, ast.Name) and e.func.id == "any" and len(e.args) == 1 and isinstance(e.args[0], (ast.GeneratorExp, ast.ListComp)) and len(e.args[0].generators) == 1 and isinstance(e.args[0].generators[0].target, ast.Name):
        # any(C(x) for x in B [if D(x)])  is the truth value of  {x for x in B if D(x) and C(x)}
        g0 = e.args[0].generators[0]
        eq = ast.SetComp(elt=ast.Name(id=g0.target.id, ctx=ast.Load()), generators=[ast.comprehension(target=g0.target, iter=g0.iter, ifs=list(g0.ifs) + [e.args[0].elt], is_async=0)])
        return _set_fn(eq, jt_texts, graph_texts, kname)
    if isinstance(e, (ast.SetComp, ast.ListComp, ast.GeneratorExp)) and len(e.generators) == 1 and isinstance(e.generators[0].target, ast.Name) and A.unparse(e.elt) == e.generators[0].target.id:
        g = e.generators[0]
        base = _set_fn(g.iter, jt_texts, graph_texts, kname)
        if base in (None, "raw"):
            return base
        preds = []
        for cond in g.ifs:
            ct = A.unparse(cond)
            v = g.target.id
            hit = None
            for gt in graph_texts:
                if ct == f"{v} in {gt}":
                    hit = lambda J, G, K: G
                if ct == f"{v} not in {gt}":
                    hit = lambda J, G, K: not G
            if ct in (f"{v} != {kname}",):
                hit = lambda J, G, K: not K
            if hit is None:
                return None
            preds.append(hit)
        return lambda J, G, K: base(J, G, K) and all(p(J, G, K) for p in preds)
    return None


@rule("QUERY-5", 6, "the dominator computations are fed the graph's own relations: forward targets inside the graph, mutually inverse predecessor / successor tables in the orientation of the function, all nodes, and as seeds exactly the nodes without a predecessor in that orientation")
def query5(ctx) -> List[Ob]:
    out: List[Ob] = []
    from .common import loop_form

    for fname, reverse in (("_doms", False), ("_post_doms", True)):
        fn = loop_form(_fn(ctx, fname))
        where = ctx.where(fn)
        gparam = fn.params[0].arg
        gtexts = {f"{gparam}.graph", f"{gparam}.graph.keys()", gparam, f"{gparam}.graph.items()"}
        items_texts = {f"{gparam}.graph.items()"}
        # a local bound once to the block table is another spelling of it
        for s_ in A.body_without_docstring(fn.node):
            if isinstance(s_, (ast.Assign, ast.AnnAssign)) and s_.value is not None and A.unparse(s_.value) == f"{gparam}.graph":
                tg_ = s_.targets[0] if isinstance(s_, ast.Assign) else s_.target
                if isinstance(tg_, ast.Name) and sum(1 for x in ast.walk(fn.node) if isinstance(x, ast.Name) and x.id == tg_.id and isinstance(x.ctx, ast.Store)) == 1:
                    gtexts |= {tg_.id, f"{tg_.id}.keys()", f"{tg_.id}.items()"}
                    items_texts.add(f"{tg_.id}.items()")
        calls = [c for c in A.walk_no_nested(fn.node) if isinstance(c, ast.Call) and (A.dotted(c.func) or "").endswith("_find_dominators_internal")]
        if len(calls) != 1 or len(calls[0].args) != 4:
            out.append(unresolved("QUERY-5", fn.qualname, "fix-point call", where, "expected one call _find_dominators_internal(entries, nodes, preds, succs)"))
            continue
        E, N, P, S = [A.unparse(a) for a in calls[0].args]
        # ---- nodes
        key = "all nodes"
        if _strip_order(calls[0].args[1]) in gtexts - items_texts:
            out.append(ok("QUERY-5", fn.qualname, key, ctx.where(fn, calls[0]), N, nontrivial=False))
        else:
            out.append(bad("QUERY-5", fn.qualname, key, ctx.where(fn, calls[0]), f"the node list handed to the fix-point is {N[:50]}, not every block of the graph"))
        # ---- edge tables
        key = "edge tables"
        edge = None
        for lp in _loops(fn.node):
            if _strip_order(lp.iter) in items_texts and isinstance(lp.target, ast.Tuple) and len(lp.target.elts) == 2:
                srcv, nodev = [A.unparse(e) for e in lp.target.elts]
                nodevs = {nodev}
            elif _strip_order(lp.iter) in gtexts - items_texts and isinstance(lp.target, ast.Name):
                # `for src in G:` with the block read as G[src]
                srcv = lp.target.id
                nodevs = {f"{g_}[{srcv}]" for g_ in gtexts if not g_.endswith(")")}
            else:
                continue
            for l2 in [n for n in lp.body if isinstance(n, ast.For)]:
                if isinstance(l2.iter, ast.Attribute) and A.unparse(l2.iter.value) in nodevs and l2.iter.attr in ("jump_targets", "_jump_targets"):
                    edge = (lp, l2, srcv, A.unparse(l2.target), l2.iter.attr)
        if edge is None:
            out.append(unresolved("QUERY-5", fn.qualname, key, where, "edge loop 'for src, node in graph.items(): for dst in node.jump_targets' not found"))
        else:
            lp, l2, srcv, dstv, attr = edge
            adds = []
            guarded = True
            for c in method_calls(l2, "add"):
                recv = c.func.value
                if isinstance(recv, ast.Subscript) and c.args:
                    adds.append((A.unparse(recv.value), A.unparse(recv.slice), A.unparse(c.args[0])))
                    gs = [a for a in A.ancestors(c) if isinstance(a, ast.If) and any(z is l2 for z in A.ancestors(a))]
                    if not any(A.unparse(g.test) in {f"{dstv} in {t}" for t in gtexts} and any(c is z for s_ in g.body for z in ast.walk(s_)) for g in gs) or len(gs) != 1:
                        guarded = False
            fwd_p = (P, dstv, srcv) in adds and (S, srcv, dstv) in adds
            rev_p = (P, srcv, dstv) in adds and (S, dstv, srcv) in adds
            probs = []
            if attr == "_jump_targets":
                probs.append("the raw successor list is used: declared back edges take part in the dominator computation")
            if len(adds) != 2 or not (fwd_p or rev_p):
                probs.append(f"the two tables are not mutually inverse records of the same arc ({adds})")
            elif reverse and not rev_p:
                probs.append("the post-dominator tables are in forward orientation")
            elif not reverse and not fwd_p:
                probs.append("the dominator tables are in reverse orientation")
            if not guarded:
                probs.append(f"an arc is recorded without the guard '{dstv} in {gparam}.graph' (or under another condition): arcs that leave the sub-graph enter the tables, or arcs inside it are dropped")
            if [b for b in A.walk_no_nested(lp) if isinstance(b, (ast.Break, ast.Continue, ast.Return))]:
                probs.append("the edge scan can stop early")
            if probs:
                out.append(bad("QUERY-5", fn.qualname, key, ctx.where(fn, lp), "; ".join(probs)))
            else:
                out.append(ok("QUERY-5", fn.qualname, key, ctx.where(fn, lp), f"{'reverse' if reverse else 'forward'} orientation, targets inside the graph only"))
        # ---- seeds
        key = "seeds = nodes without predecessor in this orientation"
        found = False
        for lp in _loops(fn.node):
            if _strip_order(lp.iter) not in gtexts:
                continue
            tv = [A.unparse(e) for e in lp.target.elts] if isinstance(lp.target, ast.Tuple) else [A.unparse(lp.target)]
            k = tv[0]
            eadds = [c for c in method_calls(lp, "add") if A.unparse(c.func.value) == E and c.args and A.unparse(c.args[0]) == k]
            if not eadds:
                continue
            found = True
            c = eadds[0]
            gs = [a for a in A.ancestors(c) if isinstance(a, ast.If) and any(z is lp for z in A.ancestors(a))]
            # `if is_seed:` with a flag that starts True and is cleared where a predecessor is recorded is the
            # same test as `if not has_pred:` with the flag the other way round
            pos_flag = False
            if len(gs) == 1 and isinstance(gs[0].test, ast.Name) and not (gs[0].orelse and any(c is z for s_ in gs[0].orelse for z in ast.walk(s_))):
                fl_ = gs[0].test.id
                sets0 = [s2 for s2 in A.walk_no_nested(lp) if isinstance(s2, ast.Assign) and len(s2.targets) == 1 and isinstance(s2.targets[0], ast.Name) and s2.targets[0].id == fl_]
                if sets0 and all(isinstance(s2.value, ast.Constant) and isinstance(s2.value.value, bool) for s2 in sets0) and any(s2 in lp.body and s2.value.value is True for s2 in sets0):
                    pos_flag = True
            if not pos_flag and (len(gs) != 1 or not (isinstance(gs[0].test, ast.UnaryOp) and isinstance(gs[0].test.op, ast.Not)) or gs[0].orelse and any(c is z for s_ in gs[0].orelse for z in ast.walk(s_))):
                out.append(bad("QUERY-5", fn.qualname, key, ctx.where(fn, lp), f"a node becomes a seed under '{A.unparse(gs[0].test)[:50] if gs else 'no condition'}', not exactly when it has no predecessor"))
                break
            subject = gs[0].test if pos_flag else gs[0].test.operand
            # flag form: `seen_pred = False` at the top of the iteration, `seen_pred = True` exactly where an
            # entry keyed by this node is put into the predecessor table - "no predecessor recorded"
            if isinstance(subject, ast.Name):
                fl = subject.id
                sets_ = [s2 for s2 in A.walk_no_nested(lp) if isinstance(s2, ast.Assign) and len(s2.targets) == 1 and isinstance(s2.targets[0], ast.Name) and s2.targets[0].id == fl]
                inits_ = [s2 for s2 in sets_ if s2 in lp.body and isinstance(s2.value, ast.Constant) and s2.value.value is pos_flag]
                trues_ = [s2 for s2 in sets_ if isinstance(s2.value, ast.Constant) and s2.value.value is (not pos_flag)]
                if sets_ and len(inits_) == 1 and trues_ and len(inits_) + len(trues_) == len(sets_):
                    def _beside_pred_insert(s2) -> bool:
                        for par in ast.walk(lp):
                            for fld_ in ("body", "orelse"):
                                seq_ = getattr(par, fld_, None)
                                if isinstance(seq_, list) and s2 in seq_:
                                    return any(isinstance(x, ast.Expr) and isinstance(x.value, ast.Call) and isinstance(x.value.func, ast.Attribute) and x.value.func.attr == "add" and A.unparse(x.value.func.value) == f"{P}[{k}]" for x in seq_)
                        return False

                    before = lp.body.index(inits_[0]) < min(lp.body.index(z) for z in lp.body if any(t_ is y for t_ in trues_ for y in ast.walk(z)))
                    after = A.lineno(gs[0]) > max(A.lineno(t_) for t_ in trues_)
                    if all(_beside_pred_insert(t_) for t_ in trues_) and before and after and edge is not None and edge[0] is lp:
                        out.append(ok("QUERY-5", fn.qualname, key, ctx.where(fn, lp), f"flag {fl}: cleared per node, set exactly where {P}[{k}] gets an entry; seed iff it stays clear"))
                        break
            if A.unparse(subject) == f"{P}[{k}]":
                # table form: valid only after the edge loop has filled the table
                if edge is not None and A.lineno(lp) > A.lineno(edge[0]):
                    out.append(ok("QUERY-5", fn.qualname, key, ctx.where(fn, lp), f"not {P}[{k}] after the tables are complete"))
                else:
                    out.append(bad("QUERY-5", fn.qualname, key, ctx.where(fn, lp), "the seeds are read from the predecessor table before the table is filled: every node becomes a seed"))
                break
            sexpr = subject
            if isinstance(subject, ast.Name):
                sexpr = None
                for s_ in lp.body:
                    if isinstance(s_, (ast.Assign, ast.AnnAssign)) and s_.value is not None and A.unparse(s_.targets[0] if isinstance(s_, ast.Assign) else s_.target) == subject.id:
                        sexpr = s_.value
            # a set kept in a local in front of the loop (`names = set(scfg.graph)`) is read where it is used
            if sexpr is not None:
                import copy as _copy

                sexpr = _copy.deepcopy(sexpr)
                tops = {s_.targets[0].id: s_.value for s_ in A.body_without_docstring(fn.node) if isinstance(s_, ast.Assign) and len(s_.targets) == 1 and isinstance(s_.targets[0], ast.Name)}
                n_st = {}
                for x_ in ast.walk(fn.node):
                    if isinstance(x_, ast.Name) and isinstance(x_.ctx, ast.Store):
                        n_st[x_.id] = n_st.get(x_.id, 0) + 1

                class _R(ast.NodeTransformer):
                    def visit_Name(self, n_):
                        if isinstance(n_.ctx, ast.Load) and n_.id in tops and n_st.get(n_.id) == 1 and n_.id not in (E, P, S):
                            return _copy.deepcopy(tops[n_.id])
                        return n_

                sexpr = _R().visit(sexpr)
            nodev = tv[1] if len(tv) > 1 else f"{gparam}.graph[{k}]"
            jt_texts = {f"{nodev}.jump_targets", f"{gparam}.graph[{k}].jump_targets", f"{gparam}[{k}].jump_targets"}
            f = _set_fn(sexpr, jt_texts, gtexts, k) if sexpr is not None else None
            if f == "raw":
                out.append(bad("QUERY-5", fn.qualname, key, ctx.where(fn, lp), "the seeds are decided on the raw successor list: a latch whose only inside successor is its declared back edge is not an exit of the sub-graph any more"))
                break
            if f is None or not reverse:
                out.append(unresolved("QUERY-5", fn.qualname, key, ctx.where(fn, lp), f"seed condition '{A.unparse(gs[0].test)[:60]}' not understood"))
                break
            diff = None
            for J in (False, True):
                for G in (False, True):
                    for K in (False, True):
                        if K and not G:
                            continue
                        if bool(f(J, G, K)) != (J and G):
                            diff = (J, G, K)
            if diff is None:
                out.append(ok("QUERY-5", fn.qualname, key, ctx.where(fn, lp), f"{A.unparse(sexpr)[:50]} == forward targets inside the graph (truth table over 6 cases)"))
            else:
                J, G, K = diff
                what = "its own name (a self loop)" if K else ("a block of the graph" if G else "a block outside the graph")
                out.append(bad("QUERY-5", fn.qualname, key, ctx.where(fn, lp), f"'{A.unparse(sexpr)[:50]}' is not 'the forward targets inside the graph': it differs for a target that is {what}{'' if J else ' and not a successor'}; such a node {'wrongly becomes' if (J and G) else 'is wrongly not'} an exit seed"))
            break
        if not found:
            out.append(unresolved("QUERY-5", fn.qualname, key, where, f"no loop adding to {E} found"))
    return out


# ------------------------------------------------------------------ QUERY-6


@rule("QUERY-6", 8, "the vendored SCC routine keeps the invariants of the iterative Tarjan/Nuutila algorithm (DFS stack is a tree path, preorder assigned once and increasing, low-links over unfinished successors only, a root closes its component), and is given the forward successors inside the graph")
def query6(ctx) -> List[Ob]:
    out: List[Ob] = []
    fn = _fn(ctx, "scc")
    where = ctx.where(fn)
    Gp = fn.params[0].arg

    def shape(msg):
        out.append(unresolved("QUERY-6", fn.qualname, "algorithm shape", where, msg))
        return out

    src_loops = [lp for lp in fn.node.body if isinstance(lp, ast.For) and A.unparse(lp.iter) == Gp]
    if len(src_loops) != 1:
        return shape("no 'for source in G' loop: not the recognised iterative SCC algorithm")
    sl = src_loops[0]
    source = A.unparse(sl.target)
    whiles = [w for w in ast.walk(sl) if isinstance(w, ast.While) and isinstance(w.test, ast.Name)]
    if len(whiles) != 1:
        return shape("no 'while <stack>' loop inside the source loop")
    wl = whiles[0]
    Q = wl.test.id
    tops = [s for s in wl.body if isinstance(s, ast.Assign) and A.unparse(s.value) == f"{Q}[-1]"]
    if not tops:
        return shape(f"the loop does not read the top of {Q}")
    v = A.unparse(tops[0].targets[0])
    succ_loops = [lp for lp in wl.body if isinstance(lp, ast.For) and A.unparse(lp.iter) == f"{Gp}[{v}]"]
    done_ifs = [s for s in wl.body if isinstance(s, ast.If) and isinstance(s.test, ast.Name)]
    # "all successors visited" in either spelling: a flag cleared next to the `break` and tested after the
    # scan (`if done:`), or the `else:` clause of the scan loop itself
    for_else = len(succ_loops) == 1 and bool(succ_loops[0].orelse) and not done_ifs
    if for_else:
        pseudo = ast.If(test=ast.Name(id="<scan completed>", ctx=ast.Load()), body=succ_loops[0].orelse, orelse=[])
        ast.copy_location(pseudo, succ_loops[0].orelse[0])
        ast.copy_location(pseudo.test, succ_loops[0].orelse[0])
        done_ifs = [pseudo]
    if len(succ_loops) != 1 or len(done_ifs) != 1:
        return shape("expected one successor loop and one 'if done' block per visit")
    el, di = succ_loops[0], done_ifs[0]
    done = di.test.id
    w = A.unparse(el.target)
    # names of the tables
    pre_ifs = [s for s in wl.body if isinstance(s, ast.If) and isinstance(s.test, ast.Compare) and isinstance(s.test.ops[0], ast.NotIn) and A.unparse(s.test.left) == v]
    if len(pre_ifs) != 1:
        return shape("no 'if v not in preorder' numbering step")
    PRE = A.unparse(pre_ifs[0].test.comparators[0])
    # 1 every vertex is a source unless already in a finished component
    key = "every unfinished vertex starts a search"
    g = [s for s in sl.body if isinstance(s, ast.If)]
    if len(sl.body) == 1 and g and isinstance(g[0].test, ast.Compare) and isinstance(g[0].test.ops[0], ast.NotIn) and A.unparse(g[0].test.left) == source and not g[0].orelse:
        FOUND = A.unparse(g[0].test.comparators[0])
        seeds = [s for s in g[0].body if isinstance(s, ast.Assign) and A.unparse(s.targets[0]) == Q]
        if seeds and A.unparse(seeds[0].value) == f"[{source}]":
            out.append(ok("QUERY-6", fn.qualname, key, ctx.where(fn, sl), f"for {source} in {Gp}: if {source} not in {FOUND}: {Q} = [{source}]"))
        else:
            out.append(bad("QUERY-6", fn.qualname, key, ctx.where(fn, sl), f"the DFS stack is not started as [{source}]"))
    else:
        return shape("source loop body is not 'if source not in <found>: ...'")
    # 2 preorder once, increasing
    key = "preorder number assigned once, strictly increasing"
    body = pre_ifs[0].body
    cnt = None
    good = False
    if len(body) == 2 and isinstance(body[0], (ast.Assign, ast.AugAssign)) and isinstance(body[1], ast.Assign):
        cnt = A.unparse(body[0].targets[0] if isinstance(body[0], ast.Assign) else body[0].target)
        def _pos(e):
            return isinstance(e, ast.Constant) and isinstance(e.value, int) and e.value > 0

        if isinstance(body[0], ast.Assign):
            bv = body[0].value
            inc = isinstance(bv, ast.BinOp) and isinstance(bv.op, ast.Add) and ((A.unparse(bv.left) == cnt and _pos(bv.right)) or (A.unparse(bv.right) == cnt and _pos(bv.left)))
        else:
            inc = isinstance(body[0].op, ast.Add) and _pos(body[0].value)
        good = inc and A.unparse(body[1].targets[0]) == f"{PRE}[{v}]" and A.unparse(body[1].value) == cnt
    other_pre_writes = [s for s in ast.walk(fn.node) if isinstance(s, ast.Assign) and any(A.unparse(t).startswith(PRE + "[") for t in s.targets) and s not in body]
    cnt_writes = [s for s in ast.walk(fn.node) if isinstance(s, (ast.Assign, ast.AugAssign)) and cnt is not None and A.unparse(s.targets[0] if isinstance(s, ast.Assign) else s.target) == cnt and s not in body]
    cnt_inits_ok = all(isinstance(s, ast.Assign) and s in fn.node.body for s in cnt_writes)
    if good and not other_pre_writes and cnt_inits_ok and not pre_ifs[0].orelse:
        out.append(ok("QUERY-6", fn.qualname, key, ctx.where(fn, pre_ifs[0]), f"if {v} not in {PRE}: {cnt} += 1; {PRE}[{v}] = {cnt}; the counter is never reset inside the search"))
    else:
        out.append(bad("QUERY-6", fn.qualname, key, ctx.where(fn, pre_ifs[0]), "the numbering step is not 'first visit: counter + 1, stored once' (or the counter / the table is written elsewhere): root detection compares preorder numbers"))
    # 3 one child per visit
    key = "DFS stack is a tree path: one unvisited child is pushed, then the scan stops"
    pushes = [c for c in ast.walk(el) if isinstance(c, ast.Call) and isinstance(c.func, ast.Attribute) and c.func.attr in ("append", "extend") and A.unparse(c.func.value) == Q]
    okp = False
    why = "no push of an unvisited successor found"
    if len(pushes) == 1 and pushes[0].func.attr == "append" and A.unparse(pushes[0].args[0]) == w:
        pif = next((a for a in A.ancestors(pushes[0]) if isinstance(a, ast.If)), None)
        if pif is not None and A.unparse(pif.test) == f"{w} not in {PRE}" and pif in el.body:
            kinds = [type(s).__name__ for s in pif.body]
            sets_false = any(isinstance(s, ast.Assign) and A.unparse(s.targets[0]) == done and isinstance(s.value, ast.Constant) and s.value.value is False for s in pif.body)
            if isinstance(pif.body[-1], ast.Break) and (sets_false or for_else):
                okp = True
            elif not isinstance(pif.body[-1], ast.Break):
                why = "after pushing an unvisited successor the scan of the successors goes on: several children are pushed at once, the stack is no longer a path of the DFS tree and low-links are computed across siblings"
            else:
                why = f"the push does not clear '{done}': the vertex is finished while a child is still unvisited"
        else:
            why = f"the push is not guarded by '{w} not in {PRE}'"
    init_done = [s for s in wl.body if isinstance(s, ast.Assign) and A.unparse(s.targets[0]) == done and isinstance(s.value, ast.Constant) and s.value.value is True]
    if okp and (for_else or (init_done and wl.body.index(init_done[0]) < wl.body.index(el))):
        out.append(ok("QUERY-6", fn.qualname, key, ctx.where(fn, el), f"if {w} not in {PRE}: {Q}.append({w}); {done} = False; break"))
    else:
        out.append(bad("QUERY-6", fn.qualname, key, ctx.where(fn, el), why if not okp else f"'{done} = True' is not set before the successor scan"))
    # 4 pop only when done
    key = "a vertex leaves the stack only when all successors are visited"
    pops = [c for c in ast.walk(wl) if isinstance(c, ast.Call) and isinstance(c.func, ast.Attribute) and c.func.attr == "pop" and A.unparse(c.func.value) == Q]
    if len(pops) == 1 and any(isinstance(s, ast.Expr) and s.value is pops[0] for s in di.body) and not di.orelse:
        out.append(ok("QUERY-6", fn.qualname, key, ctx.where(fn, di), f"{Q}.pop() once, directly under 'if {done}'"))
    else:
        out.append(bad("QUERY-6", fn.qualname, key, ctx.where(fn, di), f"{Q}.pop() is not executed exactly once per finished vertex (directly under 'if {done}')"))
    # 5 lowlink
    key = "low-link over unfinished successors: low-link of later-numbered ones, preorder of earlier ones"
    ll_init = [s for s in di.body if isinstance(s, ast.Assign) and A.unparse(s.value) == f"{PRE}[{v}]" and A.unparse(s.targets[0]).endswith(f"[{v}]")]
    if not ll_init:
        return shape("no low-link initialisation 'lowlink[v] = preorder[v]'")
    LOW = A.unparse(ll_init[0].targets[0])[: -len(f"[{v}]")]
    l2s = [lp for lp in di.body if isinstance(lp, ast.For) and A.unparse(lp.iter) == f"{Gp}[{v}]"]
    okl = False
    if len(l2s) == 1:
        w2 = A.unparse(l2s[0].target)
        b = l2s[0].body
        if len(b) == 1 and isinstance(b[0], ast.If) and A.unparse(b[0].test) == f"{w2} not in {FOUND}" and not b[0].orelse and len(b[0].body) == 1 and isinstance(b[0].body[0], ast.If):
            inner = b[0].body[0]

            def is_min(st, a2):
                if not (isinstance(st, ast.Assign) and A.unparse(st.targets[0]) == f"{LOW}[{v}]" and isinstance(st.value, ast.Call) and isinstance(st.value.func, ast.Name) and st.value.func.id == "min"):
                    return False
                args = st.value.args[0].elts if len(st.value.args) == 1 and isinstance(st.value.args[0], (ast.List, ast.Tuple)) else st.value.args
                return {A.unparse(x) for x in args} == {f"{LOW}[{v}]", a2}

            t = A.unparse(inner.test)
            # `>=` is the same test: the numbers are equal only for w == v (a self loop), where both arms leave the low-link unchanged
            if t in (f"{PRE}[{w2}] > {PRE}[{v}]", f"{PRE}[{v}] < {PRE}[{w2}]", f"{PRE}[{w2}] >= {PRE}[{v}]", f"{PRE}[{v}] <= {PRE}[{w2}]") and len(inner.body) == 1 and len(inner.orelse) == 1:
                okl = is_min(inner.body[0], f"{LOW}[{w2}]") and is_min(inner.orelse[0], f"{PRE}[{w2}]")
    if okl and di.body.index(ll_init[0]) < di.body.index(l2s[0]):
        out.append(ok("QUERY-6", fn.qualname, key, ctx.where(fn, l2s[0]), f"min with {LOW}[w] when {PRE}[w] > {PRE}[{v}], else with {PRE}[w]; successors in {FOUND} skipped"))
    else:
        out.append(bad("QUERY-6", fn.qualname, key, ctx.where(fn, di), "the low-link update is not the Nuutila rule (skip finished components; tree descendants contribute their low-link, earlier vertices their preorder number)"))
    # 6 root closes its component
    key = "a root closes its component; other vertices wait on the component stack"
    roots = [s for s in di.body if isinstance(s, ast.If) and A.unparse(s.test) in (f"{LOW}[{v}] == {PRE}[{v}]", f"{PRE}[{v}] == {LOW}[{v}]")]
    okr = False
    why = "no root test 'lowlink[v] == preorder[v]'"
    if len(roots) == 1:
        r = roots[0]
        comp = [s for s in r.body if isinstance(s, ast.Assign) and A.unparse(s.value) == f"{{{v}}}"]
        ws = [s for s in r.body if isinstance(s, ast.While)]
        ys = [s for s in r.body if isinstance(s, ast.Expr) and isinstance(s.value, ast.Yield)]
        upd = [s for s in r.body if isinstance(s, ast.Expr) and isinstance(s.value, ast.Call) and A.unparse(s.value.func) == f"{FOUND}.update"]
        els = [s for s in r.orelse if isinstance(s, ast.Expr) and isinstance(s.value, ast.Call) and isinstance(s.value.func, ast.Attribute) and s.value.func.attr == "append" and A.unparse(s.value.args[0]) == v]
        if comp and len(ws) == 1 and ys and upd and len(els) == 1 and len(r.orelse) == 1:
            C = A.unparse(comp[0].targets[0])
            SQ = A.unparse(els[0].value.func.value)
            wt = ws[0].test
            conds = {A.unparse(x) for x in wt.values} if isinstance(wt, ast.BoolOp) and isinstance(wt.op, ast.And) else set()
            popk = [s for s in ws[0].body if isinstance(s, ast.Assign) and A.unparse(s.value) == f"{SQ}.pop()"]
            addk = popk and any(isinstance(s, ast.Expr) and A.unparse(s.value) == f"{C}.add({A.unparse(popk[0].targets[0])})" for s in ws[0].body)
            # or in one statement: C.add(SQ.pop())
            addk = addk or (len(ws[0].body) == 1 and isinstance(ws[0].body[0], ast.Expr) and A.unparse(ws[0].body[0].value) == f"{C}.add({SQ}.pop())")
            cmp_ok = bool({f"{PRE}[{SQ}[-1]] > {PRE}[{v}]", f"{PRE}[{SQ}[-1]] >= {PRE}[{v}]", f"{PRE}[{v}] < {PRE}[{SQ}[-1]]", f"{PRE}[{v}] <= {PRE}[{SQ}[-1]]"} & conds)
            order = r.body.index(comp[0]) < r.body.index(ws[0]) < r.body.index(upd[0]) < r.body.index(ys[0])
            if SQ in conds and cmp_ok and addk and order and A.unparse(upd[0].value.args[0]) == C and A.unparse(ys[0].value.value) == C and SQ != Q:
                okr = True
            else:
                why = "the component is not 'v plus everything above it on the component stack with a larger preorder number', recorded as found and then yielded"
        else:
            why = "the root arm does not build, record and yield the component, or the non-root arm does not push v on the component stack"
    if okr:
        out.append(ok("QUERY-6", fn.qualname, key, ctx.where(fn, roots[0]), "root: {v} + later-numbered vertices of the component stack -> found, yielded; non-root: pushed on the component stack"))
    else:
        out.append(bad("QUERY-6", fn.qualname, key, ctx.where(fn, di), why))
    if roots and not (di.body.index(roots[0]) > di.body.index(l2s[0]) if l2s else False):
        out.append(bad("QUERY-6", fn.qualname, "root test after the low-link is final", ctx.where(fn, di), "the root test runs before the low-link of the vertex has been computed"))
    # 7 the successor relation handed over
    cs = ctx.prog.cls("SCFG").find_method("compute_scc")
    key = "successor relation = forward targets inside the graph; vertices = all blocks"
    if cs is None:
        raise AnalysisError("SCFG.compute_scc not found")
    # the adapter is the class whose instance is handed to the SCC routine (nested in compute_scc or at
    # module level - found through the call, not by its place or name)
    wrap = []
    for c_ in A.walk_no_nested(cs.node):
        if isinstance(c_, ast.Call) and (A.dotted(c_.func) or "").split(".")[-1] in ("scc", "sccr") and c_.args and isinstance(c_.args[0], ast.Call):
            nm_ = (A.dotted(c_.args[0].func) or "").split(".")[-1]
            wrap = [c for c in ctx.prog.all_classes() if c.name == nm_ and (c.parent_fn is cs or (c.parent_fn is None and c.module is cs.module))]
    if not wrap:
        wrap = [c for c in ctx.prog.all_classes() if c.parent_fn is cs]
    if len(wrap) != 1 or "__getitem__" not in wrap[0].methods or "__iter__" not in wrap[0].methods:
        out.append(unresolved("QUERY-6", cs.qualname, key, ctx.where(cs), "graph adapter class with __getitem__ / __iter__ not found in compute_scc"))
    else:
        gi, it = wrap[0].methods["__getitem__"], wrap[0].methods["__iter__"]
        vx = [p.arg for p in gi.params if p.arg != "self"][0]
        # what the adapter holds: the block table itself (`Wrap(self.graph)`; `self.A = graph`) or the graph
        # object (`Wrap(self)`; the table is `self.A.graph`)
        GT = "self.graph"
        init_ = wrap[0].methods.get("__init__")
        ctor_arg = None
        for c_ in A.walk_no_nested(cs.node):
            if isinstance(c_, ast.Call) and (A.dotted(c_.func) or "").split(".")[-1] == wrap[0].name and len(c_.args) == 1:
                ctor_arg = A.unparse(c_.args[0])
        if init_ is not None and ctor_arg is not None:
            ip = [p.arg for p in init_.params if p.arg != "self"]
            for s_ in A.walk_no_nested(init_.node):
                if isinstance(s_, ast.Assign) and len(s_.targets) == 1 and isinstance(s_.targets[0], ast.Attribute) and A.unparse(s_.targets[0].value) == "self" and ip and A.unparse(s_.value) == ip[0]:
                    if ctor_arg == "self.graph":
                        GT = f"self.{s_.targets[0].attr}"
                    elif ctor_arg == "self":
                        GT = f"self.{s_.targets[0].attr}.graph"
                    else:
                        GT = "<unknown>"
        rets = [r for r in A.walk_no_nested(gi.node) if isinstance(r, ast.Return) and r.value is not None]
        okg = False
        whyg = "the adapter's __getitem__ is not a filter of the block's forward jump targets"
        if len(rets) == 1:
            val = rets[0].value
            if isinstance(val, (ast.ListComp, ast.SetComp, ast.GeneratorExp)) and len(val.generators) == 1:
                gen = val.generators[0]
                base = gen.iter
                if isinstance(base, ast.Name):
                    base = _single_def_value(ctx, gi, base) or base
                bt = A.unparse(base)
                filt = {A.unparse(i) for i in gen.ifs}
                tv = A.unparse(gen.target)
                if bt == f"{GT}[{vx}]._jump_targets":
                    whyg = "the raw successor list is handed to the SCC routine: declared back edges of enclosing loops make inner blocks mutually reachable again and the same loop is found for ever"
                elif bt == f"{GT}[{vx}].jump_targets" and filt == {f"{tv} in {GT}"} and A.unparse(val.elt) == tv:
                    okg = True
                elif bt == f"{GT}[{vx}].jump_targets":
                    whyg = f"successors are filtered by {sorted(filt)}, not by membership of the graph: targets outside the sub-graph reach the SCC routine (KeyError) or inside ones are dropped"
        itr = [r for r in A.walk_no_nested(it.node) if isinstance(r, ast.Return) and r.value is not None]
        okv = len(itr) == 1 and _strip_order(itr[0].value) in (f"{GT}.keys()", GT)
        if okg and okv:
            out.append(ok("QUERY-6", cs.qualname, key, ctx.where(cs), "G[v] = [k for k in graph[v].jump_targets if k in graph]; iter(G) = all keys"))
        else:
            out.append(bad("QUERY-6", cs.qualname, key, ctx.where(cs), whyg if not okg else "the adapter does not enumerate every block of the graph"))
        rr = [r for r in A.walk_no_nested(cs.node) if isinstance(r, ast.Return) and r.value is not None]
        key = "all components are returned"
        from .common import expanded_function, strip_cast

        rrx = [r for r in A.walk_no_nested(expanded_function(cs)) if isinstance(r, ast.Return) and r.value is not None]
        def _ret_text(v):
            v = strip_cast(v)
            while isinstance(v, ast.Call) and isinstance(v.func, ast.Name) and v.func.id in ("sorted", "list", "tuple", "iter") and len(v.args) == 1 and not v.keywords:
                v = strip_cast(v.args[0])
            return A.unparse(v)

        # the routine behind the called name: the iterative `scc` of the vendored module (the recursive `sccr`
        # next to it numbers sibling subtrees with the same indices and splits a loop that is entered twice)
        def _routine(v):
            v = strip_cast(v)
            while isinstance(v, ast.Call) and isinstance(v.func, ast.Name) and v.func.id in ("sorted", "list", "tuple", "iter") and len(v.args) == 1 and not v.keywords:
                v = strip_cast(v.args[0])
            if not (isinstance(v, ast.Call) and isinstance(v.func, (ast.Name, ast.Attribute))):
                return None
            called = v.func.id if isinstance(v.func, ast.Name) else v.func.attr
            for imp in [n for n in ast.walk(cs.node) if isinstance(n, ast.ImportFrom)] + [n for n in cs.module.tree.body if isinstance(n, ast.ImportFrom)]:
                for a in imp.names:
                    if (a.asname or a.name) == called:
                        return a.name
            return called

        routine = _routine(rrx[0].value) if len(rrx) == 1 else None
        if len(rr) == 1 and len(rrx) == 1 and routine is not None and routine != "scc":
            out.append(bad("QUERY-6", cs.qualname, key, ctx.where(cs, rr[0]), f"the components come from `{routine}`, not from the audited iterative routine `scc`: the recursive variant hands its visit counter to each subtree by value, so a cycle reached along two branches of the search loses blocks and is never made a loop region"))
        elif len(rr) == 1 and len(rrx) == 1 and routine == "scc" and isinstance(strip_cast(rrx[0].value), ast.Call):
            out.append(ok("QUERY-6", cs.qualname, key, ctx.where(cs, rr[0]), A.unparse(rr[0].value)[:50], nontrivial=False))
        else:
            out.append(bad("QUERY-6", cs.qualname, key, ctx.where(cs), "compute_scc does not return every component the routine yields"))
    return out


# ------------------------------------------------------------------ QUERY-7


@rule("QUERY-7", 5, "the dominator fix-point solves dom(n) = {n} | intersection of dom(p) over the predecessors p: seeds start as {e}, every other node starts at the full node set and is queued, an update re-queues the successors; immediate dominators are the strict dominators minus the strict dominators of each of them")
def query7(ctx) -> List[Ob]:
    out: List[Ob] = []
    from .common import loop_form

    fn = loop_form(_fn(ctx, "_find_dominators_internal"))
    E, N, P, S = [p.arg for p in fn.params][:4]
    where = ctx.where(fn)
    rets = [r for r in A.walk_no_nested(fn.node) if isinstance(r, ast.Return) and isinstance(r.value, ast.Name)]
    if len(rets) != 1:
        out.append(unresolved("QUERY-7", fn.qualname, "algorithm shape", where, "expected one 'return <table>'"))
        return out
    D = rets[0].value.id
    # 1 seeds
    key = "dom(e) = {e} for every seed"
    good = False
    for lp in _loops(fn.node):
        if A.unparse(lp.iter) == E and len(lp.body) == 1 and isinstance(lp.body[0], ast.Assign):
            e = A.unparse(lp.target)
            good = A.unparse(lp.body[0].targets[0]) == f"{D}[{e}]" and A.unparse(lp.body[0].value) == f"{{{e}}}"
            w1 = ctx.where(fn, lp)
    if not good:
        # the same as a comprehension: D = {e: {e} for e in E}
        for st_ in A.walk_no_nested(fn.node):
            if isinstance(st_, (ast.Assign, ast.AnnAssign)) and st_.value is not None and isinstance(st_.value, ast.DictComp) and len(st_.value.generators) == 1:
                tg_ = st_.targets[0] if isinstance(st_, ast.Assign) else st_.target
                g_ = st_.value.generators[0]
                if A.unparse(tg_) == D and A.unparse(g_.iter) == E and not g_.ifs:
                    e = A.unparse(g_.target)
                    good = A.unparse(st_.value.key) == e and A.unparse(st_.value.value) == f"{{{e}}}"
                    w1 = ctx.where(fn, st_)
    if good:
        out.append(ok("QUERY-7", fn.qualname, key, w1, f"for e in {E}: {D}[e] = {{e}}"))
    else:
        out.append(bad("QUERY-7", fn.qualname, key, where, "the seeds are not initialised to dominate only themselves"))
    # 2 others
    key = "every other node starts at the full node set and is queued"
    good = False
    W = None
    for lp in _loops(fn.node):
        if A.unparse(lp.iter) == N and len(lp.body) == 1 and isinstance(lp.body[0], ast.If):
            n = A.unparse(lp.target)
            i = lp.body[0]
            if A.unparse(i.test) == f"{n} not in {E}" and not i.orelse:
                init = [s for s in i.body if isinstance(s, ast.Assign) and A.unparse(s.targets[0]) == f"{D}[{n}]" and A.unparse(s.value) in (f"set({N})", f"{{*{N}}}")]
                q = [s for s in i.body if isinstance(s, ast.Expr) and isinstance(s.value, ast.Call) and isinstance(s.value.func, ast.Attribute) and s.value.func.attr in ("append", "add") and A.unparse(s.value.args[0]) == n]
                if init and q:
                    good = True
                    W = A.unparse(q[0].value.func.value)
                    w2 = ctx.where(fn, lp)
    if not good:
        # split spelling: the queue is the filter of N by `not in E`, the table is initialised from the queue
        for lp in _loops(fn.node):
            if A.unparse(lp.iter) == N and len(lp.body) == 1 and isinstance(lp.body[0], ast.If):
                n = A.unparse(lp.target)
                i = lp.body[0]
                if A.unparse(i.test) == f"{n} not in {E}" and not i.orelse and len(i.body) == 1:
                    q = [s for s in i.body if isinstance(s, ast.Expr) and isinstance(s.value, ast.Call) and isinstance(s.value.func, ast.Attribute) and s.value.func.attr == "append" and A.unparse(s.value.args[0]) == n]
                    if q:
                        Wc = A.unparse(q[0].value.func.value)
                        for l2 in _loops(fn.node):
                            if A.unparse(l2.iter) == Wc and len(l2.body) == 1 and isinstance(l2.body[0], ast.Assign) and A.lineno(l2) >= A.lineno(lp):
                                n2 = A.unparse(l2.target)
                                if A.unparse(l2.body[0].targets[0]) == f"{D}[{n2}]" and A.unparse(l2.body[0].value) in (f"set({N})", f"{{*{N}}}"):
                                    good = True
                                    W = Wc
                                    w2 = ctx.where(fn, lp)
    if not good:
        # comprehension spelling:  W = [n for n in N if n not in E];  D.update((n, set(N)) for n in W)
        #                     or   D = {.. seeds ..}; D |= {n: set(N) for n in W}
        wcomp = None
        for st_ in A.walk_no_nested(fn.node):
            if isinstance(st_, (ast.Assign, ast.AnnAssign)) and st_.value is not None and isinstance(st_.value, (ast.ListComp,)) and len(st_.value.generators) == 1:
                g_ = st_.value.generators[0]
                tg_ = st_.targets[0] if isinstance(st_, ast.Assign) else st_.target
                n_ = A.unparse(g_.target)
                if A.unparse(g_.iter) == N and len(g_.ifs) == 1 and A.unparse(g_.ifs[0]) == f"{n_} not in {E}" and A.unparse(st_.value.elt) == n_ and isinstance(tg_, ast.Name):
                    wcomp = (tg_.id, st_)
        if wcomp is not None:
            for c_ in A.walk_no_nested(fn.node):
                gen = None
                if isinstance(c_, ast.Call) and isinstance(c_.func, ast.Attribute) and c_.func.attr == "update" and A.unparse(c_.func.value) == D and len(c_.args) == 1:
                    gen = c_.args[0]
                elif isinstance(c_, ast.AugAssign) and isinstance(c_.op, ast.BitOr) and A.unparse(c_.target) == D:
                    gen = c_.value
                if gen is None or not isinstance(gen, (ast.GeneratorExp, ast.ListComp, ast.DictComp)) or len(gen.generators) != 1:
                    continue
                g2 = gen.generators[0]
                n2 = A.unparse(g2.target)
                src_ok = A.unparse(g2.iter) == wcomp[0] and not g2.ifs
                if isinstance(gen, ast.DictComp):
                    pair_ok = A.unparse(gen.key) == n2 and A.unparse(gen.value) in (f"set({N})", f"{{*{N}}}")
                else:
                    pair_ok = isinstance(gen.elt, ast.Tuple) and len(gen.elt.elts) == 2 and A.unparse(gen.elt.elts[0]) == n2 and A.unparse(gen.elt.elts[1]) in (f"set({N})", f"{{*{N}}}")
                if src_ok and pair_ok:
                    good = True
                    W = wcomp[0]
                    w2 = ctx.where(fn, wcomp[1])
    if good:
        out.append(ok("QUERY-7", fn.qualname, key, w2, f"{D}[n] = set({N}); {W}.append(n)"))
    else:
        out.append(bad("QUERY-7", fn.qualname, key, where, "non-seed nodes are not initialised to the full node set and queued: the iteration does not start from the top of the lattice (too few dominators) or misses nodes"))
    # 3 the equation
    wl = [w for w in A.walk_no_nested(fn.node) if isinstance(w, ast.While) and W is not None and A.unparse(w.test) == W]
    key = "dom(n) = {n} | intersection over the predecessors"
    if len(wl) != 1:
        out.append(unresolved("QUERY-7", fn.qualname, key, where, "work-list loop not found"))
        return out
    w = wl[0]

    def _flat(stmts):
        # a trailing `if <guard>:` without else (the canonical form of an early `continue`) is looked through
        out_ = list(stmts)
        while out_ and isinstance(out_[-1], ast.If) and not out_[-1].orelse and E in A.names_in(out_[-1].test):
            out_ = out_[:-1] + list(out_[-1].body)
        return out_

    wbody = _flat(w.body)
    pops = [s for s in wbody if isinstance(s, ast.Assign) and isinstance(s.value, ast.Call) and isinstance(s.value.func, ast.Attribute) and s.value.func.attr in ("pop", "popleft") and A.unparse(s.value.func.value) == W]
    if not pops:
        out.append(unresolved("QUERY-7", fn.qualname, key, where, "the loop does not take a node from the work-list"))
        return out
    n = A.unparse(pops[0].targets[0])
    def _inter_term(v):
        """the iterable of predecessors when v is the intersection of D[p] over it, in any accepted spelling:
        reduce(set.intersection | operator.and_ | lambda a, b: a & b, C), set.intersection(*C), C a
        comprehension [D[p] for p in PV] (or a local bound once to it)"""
        from .order import _commutative_reduce

        comp = None
        if isinstance(v, ast.Call) and (A.dotted(v.func) or "").endswith("reduce") and len(v.args) == 2 and _commutative_reduce(v):
            op = v.args[0]
            is_union = (A.dotted(op) or "").endswith(("union", "or_")) or (isinstance(op, ast.Lambda) and ((isinstance(op.body, ast.BinOp) and isinstance(op.body.op, ast.BitOr)) or (isinstance(op.body, ast.Call) and getattr(op.body.func, "attr", "") == "union")))
            if not is_union:
                comp = v.args[1]
        elif isinstance(v, ast.Call) and A.unparse(v.func) in ("set.intersection", "frozenset.intersection") and len(v.args) == 1 and isinstance(v.args[0], ast.Starred):
            comp = v.args[0].value
        if isinstance(comp, ast.Name):
            # (the function is seen in loop form: a list built by a comprehension is `X = []; for p in PV: X.append(D[p])`)
            for lp_ in [x for x in ast.walk(w) if isinstance(x, ast.For) and len(x.body) == 1 and isinstance(x.body[0], ast.Expr) and isinstance(x.body[0].value, ast.Call)]:
                c_ = lp_.body[0].value
                if isinstance(c_.func, ast.Attribute) and c_.func.attr == "append" and A.unparse(c_.func.value) == comp.id and c_.args and A.unparse(c_.args[0]) == f"{D}[{A.unparse(lp_.target)}]":
                    fills = [x for x in ast.walk(w) if isinstance(x, ast.Call) and isinstance(x.func, ast.Attribute) and x.func.attr in ("append", "extend", "insert") and A.unparse(x.func.value) == comp.id]
                    if len(fills) == 1:
                        return lp_.iter
            return None
        if isinstance(comp, (ast.ListComp, ast.GeneratorExp)) and len(comp.generators) == 1 and not comp.generators[0].ifs and A.unparse(comp.elt) == f"{D}[{A.unparse(comp.generators[0].target)}]":
            return comp.generators[0].iter
        return None

    def _preds_ok(pv, guard_if) -> bool:
        src = pv
        if isinstance(pv, ast.Name):
            src = _single_def_value(ctx, fn, pv) or pv
        return A.unparse(src) == f"{P}[{n}]" and guard_if is not None and A.unparse(guard_if.test) in (A.unparse(pv), f"len({A.unparse(pv)}) > 0", f"{P}[{n}]") and guard_if in wbody

    news = [s for s in ast.walk(w) if isinstance(s, ast.Assign) and A.unparse(s.value) == f"{{{n}}}"]
    good = False
    NEW = A.unparse(news[0].targets[0]) if news else "?"
    if news and news[0] in wbody:
        augs = [s for s in ast.walk(w) if isinstance(s, ast.AugAssign) and A.unparse(s.target) == NEW]
        # `NEW = NEW | X` is the same update on a local set
        plain = [s for s in ast.walk(w) if isinstance(s, ast.Assign) and s is not news[0] and A.unparse(s.targets[0]) == NEW and isinstance(s.value, ast.BinOp) and isinstance(s.value.op, ast.BitOr) and A.unparse(s.value.left) == NEW]
        upd = augs + plain
        others = [s for s in ast.walk(w) if isinstance(s, (ast.Assign, ast.AugAssign)) and s is not news[0] and s not in upd and NEW in A.names_in(s.targets[0] if isinstance(s, ast.Assign) else s.target)]
        if len(upd) == 1 and (upd[0] in plain or isinstance(upd[0].op, ast.BitOr)) and not others:
            v = upd[0].value if upd[0] in augs else upd[0].value.right
            augs = upd
            pv = _inter_term(v)
            if pv is not None:
                guard = next((a for a in A.ancestors(augs[0]) if isinstance(a, ast.If)), None)
                good = _preds_ok(pv, guard)
    elif news:
        # both arms of `if preds:` assign: NEW = {n} | <intersection>  /  NEW = {n}
        guard = next((a for a in A.ancestors(news[0]) if isinstance(a, ast.If)), None)
        if guard is not None and guard in wbody and len(guard.body) == 1 and len(guard.orelse) == 1:
            arm_u, arm_b = (guard.body[0], guard.orelse[0]) if news[0] is guard.orelse[0] else (guard.orelse[0], guard.body[0])
            if arm_b is news[0] and isinstance(arm_u, ast.Assign) and A.unparse(arm_u.targets[0]) == NEW and isinstance(arm_u.value, ast.BinOp) and isinstance(arm_u.value.op, ast.BitOr) and arm_u is guard.body[0]:
                l_, r_ = arm_u.value.left, arm_u.value.right
                term = r_ if A.unparse(l_) == f"{{{n}}}" else (l_ if A.unparse(r_) == f"{{{n}}}" else None)
                others = [s for s in ast.walk(w) if isinstance(s, (ast.Assign, ast.AugAssign)) and s not in (arm_u, arm_b) and NEW in A.names_in(s.targets[0] if isinstance(s, ast.Assign) else s.target)]
                pv = _inter_term(term) if term is not None else None
                if pv is not None and not others:
                    good = _preds_ok(pv, guard)
    if good:
        out.append(ok("QUERY-7", fn.qualname, key, ctx.where(fn, news[0]), f"{NEW} = {{{n}}}; if preds: {NEW} |= intersection of {D}[p] for p in {P}[{n}]"))
    else:
        out.append(bad("QUERY-7", fn.qualname, key, ctx.where(fn, w), "the update is not '{n} united with the intersection of the dominator sets of all predecessors of n'"))
    # 4 change propagation
    key = "a changed set is stored and the successors are re-queued"
    chg = [s for s in wbody if isinstance(s, ast.If) and news and A.unparse(s.test) in (f"{NEW} != {D}[{n}]", f"{D}[{n}] != {NEW}")]
    good = False
    if len(chg) == 1 and not chg[0].orelse:
        st = [s for s in chg[0].body if isinstance(s, ast.Assign) and A.unparse(s.targets[0]) == f"{D}[{n}]" and A.unparse(s.value) == NEW]
        rq = [s for s in chg[0].body if isinstance(s, ast.Expr) and isinstance(s.value, ast.Call) and A.unparse(s.value.func) in (f"{W}.extend", f"{W}.update") and A.unparse(s.value.args[0]) == f"{S}[{n}]"]
        good = bool(st and rq)
    if good:
        out.append(ok("QUERY-7", fn.qualname, key, ctx.where(fn, chg[0]), f"{D}[{n}] = {NEW}; {W}.extend({S}[{n}])"))
    else:
        out.append(bad("QUERY-7", fn.qualname, key, ctx.where(fn, w), "when the set of a node changes it is not stored, or its successors are not queued again: the result is not the fix-point"))
    # 5 seeds are never re-evaluated: fine either way (their equation is fixed) - not an obligation
    # ---- immediate dominators
    im = _fn(ctx, "_imm_doms")
    dparam = im.params[0].arg
    key = "immediate dominators: strict dominators, minus the strict dominators of each of them; exactly one remains"
    strict = [s for s in im.node.body if isinstance(s, ast.Assign) and isinstance(s.value, ast.DictComp)]
    if not strict:
        # the same table filled by a loop:  I = {}; for k, v in D.items(): I[k] = v - {k}
        for lp0 in [s for s in im.node.body if isinstance(s, ast.For)]:
            if _strip_order(lp0.iter) == f"{dparam}.items()" and isinstance(lp0.target, ast.Tuple) and len(lp0.target.elts) == 2 and len(lp0.body) == 1 and isinstance(lp0.body[0], ast.Assign) and isinstance(lp0.body[0].targets[0], ast.Subscript) and not lp0.orelse:
                a0 = lp0.body[0]
                tab = a0.targets[0].value
                inits = [s for s in im.node.body if isinstance(s, ast.Assign) and A.unparse(s.targets[0]) == A.unparse(tab) and isinstance(s.value, ast.Dict) and not s.value.keys and im.node.body.index(s) < im.node.body.index(lp0)]
                if inits:
                    pseudo = ast.Assign(targets=[tab], value=ast.DictComp(key=a0.targets[0].slice, value=a0.value, generators=[ast.comprehension(target=lp0.target, iter=lp0.iter, ifs=[], is_async=0)]), lineno=lp0.lineno)
                    ast.copy_location(pseudo, lp0)
                    ast.fix_missing_locations(pseudo)
                    strict = [pseudo]
    good = False
    why = "the table of strict dominators '{k: v - {k} ...}' is not built"
    if strict:
        dc = strict[0].value
        g = dc.generators[0]
        if len(dc.generators) == 1 and not g.ifs and _strip_order(g.iter) == f"{dparam}.items()" and isinstance(g.target, ast.Tuple):
            k, v = [A.unparse(e) for e in g.target.elts]
            if A.unparse(dc.key) == k and A.unparse(dc.value) in (f"{v} - {{{k}}}", f"{v}.difference({{{k}}})"):
                I = A.unparse(strict[0].targets[0])
                subs = [s for s in ast.walk(im.node) if isinstance(s, ast.AugAssign) and isinstance(s.op, ast.Sub)]
                unp = [s for s in ast.walk(im.node) if isinstance(s, ast.Assign) and isinstance(s.targets[0], (ast.List, ast.Tuple)) and len(s.targets[0].elts) == 1]
                why = "the sweep does not remove, for every remaining dominator v, the strict dominators of v"
                # the same sweep in one call:  vs.difference_update(*[I[v] for v in vs])   (the operand list is built
                # before vs changes, exactly like the loop over a copy)
                bulk = [c_ for c_ in ast.walk(im.node) if isinstance(c_, ast.Call) and isinstance(c_.func, ast.Attribute) and c_.func.attr == "difference_update" and len(c_.args) == 1 and isinstance(c_.args[0], ast.Starred) and isinstance(c_.args[0].value, (ast.ListComp,)) and len(c_.args[0].value.generators) == 1]
                if not subs and len(bulk) == 1:
                    c_ = bulk[0]
                    g_ = c_.args[0].value.generators[0]
                    vs_ = A.unparse(c_.func.value)
                    lpk = next((a for a in A.ancestors(c_) if isinstance(a, ast.For)), None)
                    over_items = lpk is not None and _strip_order(lpk.iter) == f"{I}.items()" and isinstance(lpk.target, ast.Tuple) and len(lpk.target.elts) == 2 and A.unparse(lpk.target.elts[1]) == vs_
                    over_values = lpk is not None and _strip_order(lpk.iter) == f"{I}.values()" and A.unparse(lpk.target) == vs_
                    if (over_items or over_values) and not g_.ifs and A.unparse(g_.iter) == vs_ and A.unparse(c_.args[0].value.elt) == f"{I}[{A.unparse(g_.target)}]" and not [a for a in A.ancestors(c_) if isinstance(a, ast.If)]:
                        if unp:
                            good = True
                        else:
                            why = "the result is not read as the single remaining strict dominator"
                if len(subs) == 1:
                    lpv = next((a for a in A.ancestors(subs[0]) if isinstance(a, ast.For)), None)
                    lpk = next((a for a in A.ancestors(lpv) if isinstance(a, ast.For)), None) if lpv is not None else None
                    # the outer sweep visits every strict-dominator set: `for k, vs in I.items()` or its normal
                    # form `for vs in I.values()` (the key is not needed)
                    over_items = lpk is not None and _strip_order(lpk.iter) == f"{I}.items()" and isinstance(lpk.target, ast.Tuple) and len(lpk.target.elts) == 2
                    over_values = lpk is not None and _strip_order(lpk.iter) == f"{I}.values()" and isinstance(lpk.target, ast.Name)
                    if lpv is not None and (over_items or over_values):
                        vs = A.unparse(lpk.target.elts[1]) if over_items else lpk.target.id
                        x = A.unparse(lpv.target)
                        if _strip_order(lpv.iter) == vs and A.unparse(subs[0].target) == vs and A.unparse(subs[0].value) == f"{I}[{x}]" and isinstance(lpv.iter, ast.Call):
                            if unp and not [a for a in A.ancestors(subs[0]) if isinstance(a, ast.If)]:
                                good = True
                            else:
                                why = "the result is not read as the single remaining strict dominator"
    if good:
        out.append(ok("QUERY-7", im.qualname, key, ctx.where(im), f"{I} = strict dominators; vs -= {I}[v] for every v in a copy of vs; [v] = vs"))
    else:
        out.append(bad("QUERY-7", im.qualname, key, ctx.where(im), why))
    return out


# ------------------------------------------------------------------ QUERY-8


@rule("QUERY-8", 2, "branch discovery looks at every item of the region view: the only thing that decides whether an item starts a branch is the number of its (visible) successors and the dominance test")
def query8(ctx) -> List[Ob]:
    out: List[Ob] = []
    fn = _fn(ctx, "_iter_branch_regions")
    where = ctx.where(fn)
    lps = [lp for lp in _loops(fn.node) if "concealed_region_view" in A.unparse(lp.iter) or ".graph" in A.unparse(lp.iter)]
    key = "every item with several successors is a candidate"
    if not lps:
        out.append(unresolved("QUERY-8", fn.qualname, key, where, "loop over the region view not found"))
        return out
    lp = lps[0]
    names = [x.id for x in ast.walk(lp.target) if isinstance(x, ast.Name)]
    node_v = names[-1] if names else "?"
    ys = [y for y in A.walk_no_nested(lp) if isinstance(y, (ast.Yield, ast.YieldFrom))] or [c for c in A.walk_no_nested(lp) if isinstance(c, ast.Call) and isinstance(c.func, ast.Attribute) and c.func.attr == "append"]
    if not ys:
        out.append(unresolved("QUERY-8", fn.qualname, key, where, "no yield / append of a (begin, end) pair found"))
        return out
    from .ctrl import _guard_conditions

    conds = [(t, pol) for t, pol in _guard_conditions(lp, ys[0])]
    arity = [(t, pol) for t, pol in conds if "jump_targets" in t and "len(" in t]
    extra = []
    for t, pol in conds:
        if (t, pol) in arity:
            continue
        # dominance tests mention the dominator tables (parameters), not the class / kind / name of the item
        try:
            e = ast.parse(t, mode="eval").body
        except SyntaxError:
            e = None
        about_item = e is not None and any((isinstance(x, ast.Call) and isinstance(x.func, ast.Name) and x.func.id in ("isinstance", "type", "issubclass")) or (isinstance(x, ast.Attribute) and isinstance(x.value, ast.Name) and x.value.id == node_v and x.attr not in ("jump_targets", "_jump_targets")) for x in ast.walk(e))
        if about_item:
            extra.append(("" if pol else "not ") + t)
    raw = [t for t, _p in arity if "._jump_targets" in t]
    if not arity:
        out.append(bad("QUERY-8", fn.qualname, key, ctx.where(fn, lp), "a branch begin is not recognised by its number of successors"))
    elif raw:
        out.append(bad("QUERY-8", fn.qualname, key, ctx.where(fn, lp), f"the raw successor tuple is counted ({raw[0][:40]}): a latch with one exit and its declared back edge is taken for a branch"))
    elif extra:
        out.append(bad("QUERY-8", fn.qualname, key, ctx.where(fn, lp), f"items are also filtered by '{extra[0][:60]}': an item of that kind with several successors (a loop region that is left towards two blocks) never becomes the head of a branch and keeps its successors unstructured"))
    else:
        out.append(ok("QUERY-8", fn.qualname, key, ctx.where(fn, lp), f"candidate iff {arity[0][0]}; then the dominance test"))
    # the pair is (begin, its immediate post-dominator) with begin the immediate dominator of that
    key = "end = immediate post-dominator of begin, and begin = immediate dominator of end"
    ps = [p.arg for p in fn.params]
    txt = " ".join(t for t, _ in conds)
    if len(ps) >= 3 and ps[1] in txt and ps[2] in txt:
        out.append(ok("QUERY-8", fn.qualname, key, ctx.where(fn, lp), txt[:80]))
    else:
        out.append(bad("QUERY-8", fn.qualname, key, ctx.where(fn, lp), "the candidate is not checked against both dominator tables"))
    return out
