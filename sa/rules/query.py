"""Engine QUERY - the graph queries against their definitions (clauses of C13).

Only the queries whose definition is a set-builder over the blocks are checked
(head, headers/entries, exiting/exits, reachability seed and expansion).  The
vendored SCC routine and the dominator fix-point are algorithms: not decided."""
from __future__ import annotations

import ast
from typing import List

from .. import astutil as A
from ..model import AnalysisError
from ..report import Ob, bad, ok, unresolved
from . import rule
from .common import method_calls


def _scfg_method(ctx, name):
    m = ctx.prog.cls("SCFG").find_method(name)
    if m is None:
        raise AnalysisError(f"SCFG.{name} not found")
    return m


def _strip_order(e: ast.AST) -> str:
    """text of e without order-only wrappers (sorted / list / tuple / iter)"""
    while isinstance(e, ast.Call) and isinstance(e.func, ast.Name) and e.func.id in ("sorted", "list", "tuple", "iter") and len(e.args) == 1 and not e.keywords:
        e = e.args[0]
    return A.unparse(e)


def _loops(node):
    return [n for n in A.walk_no_nested(node) if isinstance(n, ast.For)]


@rule("QUERY-1", 3, "the head is computed as: all block names, minus every (forward) jump target of every block; exactly one must remain")
def query1(ctx) -> List[Ob]:
    out: List[Ob] = []
    m = _scfg_method(ctx, "find_head")
    where = ctx.where(m)
    cands = None
    for s in A.walk_no_nested(m.node):
        if isinstance(s, ast.Assign) and isinstance(s.targets[0], ast.Name) and isinstance(s.value, ast.Call) and isinstance(s.value.func, ast.Name) and s.value.func.id == "set" and s.value.args and _strip_order(s.value.args[0]) in ("self.graph.keys()", "self.graph", "self"):
            cands = s.targets[0].id
    key = "candidates are all block names"
    if cands is None:
        out.append(unresolved("QUERY-1", m.qualname, key, where, "find_head is not written in the recognised form (candidate set of all names)"))
        return out
    out.append(ok("QUERY-1", m.qualname, key, where, f"{cands} = set(all names)", nontrivial=False))
    key = "every forward target of every block is removed"
    good = False
    why = None
    recognised = False
    for outer in _loops(m.node):
        if A.unparse(outer.iter) not in ("self.graph.keys()", "self.graph", "self.graph.values()", "self.graph.items()"):
            continue
        for inner in [n for n in A.walk_no_nested(outer) if isinstance(n, ast.For) and n is not outer]:
            it = inner.iter
            if isinstance(it, ast.Attribute) and it.attr in ("jump_targets", "_jump_targets"):
                rem = [c for c in A.walk_no_nested(inner) if isinstance(c, ast.Call) and isinstance(c.func, ast.Attribute) and A.unparse(c.func.value) == cands and c.func.attr in ("discard", "remove") and c.args and A.unparse(c.args[0]) == A.unparse(inner.target)]
                conds = [a for a in A.ancestors(rem[0]) if isinstance(a, (ast.If,)) and any(x is outer for x in A.ancestors(a))] if rem else []
                recognised = recognised or bool(rem)
                if rem and not conds and not [b for b in A.walk_no_nested(outer) if isinstance(b, (ast.Break, ast.Continue, ast.Return))]:
                    if it.attr == "jump_targets":
                        good = True
                    else:
                        why = "declared back edges count as predecessors (raw _jump_targets): a loop header that is the entry of a region is no longer its head"
                elif rem:
                    why = "a jump target is removed from the candidates only under a condition / the scan can stop early: a block with a predecessor can remain a candidate"
    if good:
        out.append(ok("QUERY-1", m.qualname, key, where, "unconditional discard of each element of block.jump_targets for every block"))
    elif why:
        out.append(bad("QUERY-1", m.qualname, key, where, why))
    else:
        out.append(unresolved("QUERY-1", m.qualname, key, where, "find_head is not written in the recognised form (loop over all blocks discarding their jump targets)"))
    key = "exactly one head"
    asserts = [s for s in A.walk_no_nested(m.node) if isinstance(s, ast.Assert) and f"len({cands}) == 1" in A.unparse(s.test)]
    rets = [r for r in A.walk_no_nested(m.node) if isinstance(r, ast.Return) and r.value is not None and cands in A.names_in(r.value)]
    if asserts and rets:
        out.append(ok("QUERY-1", m.qualname, key, where, "uniqueness asserted, the remaining name returned"))
    elif rets:
        out.append(bad("QUERY-1", m.qualname, key, where, "a remaining candidate is returned without checking that it is the only one"))
    else:
        out.append(unresolved("QUERY-1", m.qualname, key, where, "cannot see what find_head returns"))
    return out


@rule("QUERY-2", 6, "headers/entries and exiting/exits of a block subset are computed by their set-builder definitions over all blocks outside / inside the subset")
def query2(ctx) -> List[Ob]:
    out: List[Ob] = []
    # ---- exiting / exits
    m = _scfg_method(ctx, "find_exiting_and_exits")
    sub = [p.arg for p in m.params if p.arg != "self"][0]
    where = ctx.where(m)
    outer = [lp for lp in _loops(m.node) if A.unparse(lp.iter) in (sub, f"sorted({sub})")]
    if not outer:
        out.append(unresolved("QUERY-2", m.qualname, "iterates the subset", where, "find_exiting_and_exits is not written in the recognised form (loop over the subset)"))
    else:
        lp = outer[0]
        v = A.unparse(lp.target)
        inner = [n for n in A.walk_no_nested(lp) if isinstance(n, ast.For) and n is not lp and A.unparse(n.iter) in (f"self.graph[{v}].jump_targets", f"self[{v}].jump_targets")]
        key = "outside targets of inside blocks"
        good = False
        if inner:
            jt = A.unparse(inner[0].target)
            for cond in [n for n in A.walk_no_nested(inner[0]) if isinstance(n, ast.If)]:
                if A.unparse(cond.test) == f"{jt} not in {sub}":
                    # both recordings are direct, unconditional statements of that branch
                    direct = [st.value for st in cond.body if isinstance(st, ast.Expr) and isinstance(st.value, ast.Call) and isinstance(st.value.func, ast.Attribute) and st.value.func.attr == "add"]
                    adds = {(A.unparse(c.func.value), A.unparse(c.args[0])) for c in direct if c.args}
                    names = {a for a, _ in adds}
                    if any(x == v for _, x in adds) and any(x == jt for _, x in adds) and len(names) == 2:
                        good = True
        if good:
            out.append(ok("QUERY-2", m.qualname, key, where, "for every target of an inside block that is not inside: the block is exiting, the target an exit"))
        elif inner:
            out.append(bad("QUERY-2", m.qualname, key, where, "exiting/exits do not follow the definition 'inside block with a (forward) target outside the subset, and that target'"))
        else:
            out.append(unresolved("QUERY-2", m.qualname, key, where, "inner loop over the forward targets of an inside block not found"))
        key = "inside blocks without target are exiting"
        ex = [n for n in lp.body if isinstance(n, ast.If) and "is_exiting" in A.unparse(n.test) and v in A.unparse(n.test) and method_calls(ast.Module(n.body, []), "add")]
        if ex:
            out.append(ok("QUERY-2", m.qualname, key, where, "a block without successors is exiting"))
        else:
            out.append(bad("QUERY-2", m.qualname, key, where, "inside blocks without any target (returns) are not counted as exiting"))
    rets = [r for r in A.walk_no_nested(m.node) if isinstance(r, ast.Return) and isinstance(r.value, ast.Tuple) and len(r.value.elts) == 2]
    key = "returns (exiting, exits)"
    if rets and all("exiting" in A.unparse(r.value.elts[0]) and "exit" in A.unparse(r.value.elts[1]) and "exiting" not in A.unparse(r.value.elts[1]) for r in rets):
        out.append(ok("QUERY-2", m.qualname, key, where, A.unparse(rets[0].value)[:60], nontrivial=False))
    elif rets:
        out.append(bad("QUERY-2", m.qualname, key, where, "the two results are not returned as (exiting blocks, exit blocks)"))
    else:
        out.append(unresolved("QUERY-2", m.qualname, key, where, "return value not recognised"))
    # ---- headers / entries
    m = _scfg_method(ctx, "find_headers_and_entries")
    sub = [p.arg for p in m.params if p.arg != "self"][0]
    where = ctx.where(m)
    outer = [lp for lp in _loops(m.node) if f"exclude_blocks({sub})" in A.unparse(lp.iter) or (isinstance(lp.iter, ast.Attribute) and "graph" in A.unparse(lp.iter))]
    key = "inside targets of outside blocks"
    good = False
    inter = None
    if outer:
        lp = outer[0]
        v = A.unparse(lp.target)
        for s in lp.body:
            if isinstance(s, ast.Assign) and isinstance(s.value, ast.Call) and isinstance(s.value.func, ast.Attribute) and s.value.func.attr == "intersection" and A.unparse(s.value.func.value) == sub and s.value.args and f"[{v}]" in A.unparse(s.value.args[0]) and "jump_targets" in A.unparse(s.value.args[0]):
                inter = A.unparse(s.targets[0])
        if inter:
            upd = [c for c in method_calls(lp, "update") if c.args and A.unparse(c.args[0]) == inter]
            ent = [n for n in lp.body if isinstance(n, ast.If) and A.unparse(n.test) == inter and any(c.args and A.unparse(c.args[0]) == v for c in method_calls(ast.Module(n.body, []), "add"))]
            uncond = upd and not [a for a in A.ancestors(upd[0]) if isinstance(a, ast.If) and any(x is lp for x in A.ancestors(a))]
            good = bool(uncond and ent)
    if good:
        out.append(ok("QUERY-2", m.qualname, key, where, "headers += subset & targets(outside block); the outside block is an entry when that is non-empty"))
    elif outer and inter:
        out.append(bad("QUERY-2", m.qualname, key, where, "headers/entries do not follow the definition 'inside targets of outside blocks, and their sources' (conditional update, or the source is not recorded as entry)"))
    else:
        out.append(unresolved("QUERY-2", m.qualname, key, where, "find_headers_and_entries is not written in the recognised form"))
    ex = ctx.prog.cls("SCFG").find_method("exclude_blocks")
    key = "outside = every block not in the subset"
    if ex is not None:
        lps = _loops(ex.node)
        okx = lps and A.unparse(lps[0].iter) in ("self.graph", "self.graph.keys()") and any(isinstance(n, ast.If) and " not in " in A.unparse(n.test) for n in lps[0].body)
        if okx:
            out.append(ok("QUERY-2", ex.qualname, key, ctx.where(ex), "yields each graph key that is not excluded", nontrivial=False))
        else:
            out.append(bad("QUERY-2", ex.qualname, key, ctx.where(ex), "exclude_blocks does not yield every block outside the given set"))
    rets = [r for r in A.walk_no_nested(m.node) if isinstance(r, ast.Return) and isinstance(r.value, ast.Tuple) and len(r.value.elts) == 2]
    key = "returns (headers, entries)"
    if rets and all("header" in A.unparse(r.value.elts[0]) and "entr" in A.unparse(r.value.elts[1]) for r in rets):
        out.append(ok("QUERY-2", m.qualname, key, where, A.unparse(rets[0].value)[:60], nontrivial=False))
    elif rets:
        out.append(bad("QUERY-2", m.qualname, key, where, "the two results are not returned as (headers, entries)"))
    else:
        out.append(unresolved("QUERY-2", m.qualname, key, where, "return value not recognised"))
    return out


@rule("QUERY-3", 3, "reachability means a path of at least one edge: the search starts from the successors of the start block, answers yes exactly when the end block is taken from the work-list, and expands forward targets")
def query3(ctx) -> List[Ob]:
    out: List[Ob] = []
    m = _scfg_method(ctx, "is_reachable_dfs")
    params = [p.arg for p in m.params if p.arg != "self"]
    if len(params) != 2:
        raise AnalysisError("is_reachable_dfs: expected (begin, end)")
    begin, end = params
    where = ctx.where(m)
    seeds = [s for s in A.walk_no_nested(m.node) if isinstance(s, ast.Assign) and isinstance(s.targets[0], ast.Name) and begin in A.names_in(s.value)]
    # the visited set starts empty: the start block itself must be reachable again through a cycle
    pre = [s for s in seeds if isinstance(s.value, (ast.Set, ast.List)) or (isinstance(s.value, ast.Call) and isinstance(s.value.func, ast.Name) and s.value.func.id == "set")]
    visited_names = {A.unparse(c.func.value) for c in A.walk_no_nested(m.node) if isinstance(c, ast.Call) and isinstance(c.func, ast.Attribute) and c.func.attr == "add"}
    for s_ in pre:
        if A.unparse(s_.targets[0]) in visited_names:
            out.append(bad("QUERY-3", m.qualname, "visited set starts empty", ctx.where(m, s_), f"the visited set is initialised with {A.unparse(s_.value)}: the start block is treated as already visited, so a cycle back to it ('{begin}' reaches '{begin}') is not found"))
    seeds = [s for s in seeds if s not in pre or A.unparse(s.targets[0]) not in visited_names]
    key = "seeded with the successors of the start block"
    work = None
    if seeds and any(A.unparse(s.value) in (f"list(self.graph[{begin}].jump_targets)", f"list(self[{begin}].jump_targets)", f"deque(self.graph[{begin}].jump_targets)") for s in seeds):
        work = A.unparse(seeds[0].targets[0])
        out.append(ok("QUERY-3", m.qualname, key, where, f"{work} starts as the jump targets of {begin}: a path needs at least one edge"))
    elif seeds and any(A.unparse(s.value) in (f"[{begin}]", f"list(({begin},))", f"deque([{begin}])", f"{{{begin}}}") or "_jump_targets" in A.unparse(s.value) for s in seeds):
        work = A.unparse(seeds[0].targets[0])
        out.append(bad("QUERY-3", m.qualname, key, where, f"the search is seeded with {[A.unparse(s.value)[:40] for s in seeds]}: a block reaches itself without an edge, or declared back edges count as paths"))
    else:
        out.append(unresolved("QUERY-3", m.qualname, key, where, "the seeding of the search is not in a recognised form"))
    key = "positive answer exactly for the end block"
    trues = [r for r in A.walk_no_nested(m.node) if isinstance(r, ast.Return) and isinstance(r.value, ast.Constant) and r.value.value is True]
    goodt = bool(trues) and all(any(isinstance(a, ast.If) and end in A.names_in(a.test) and isinstance(a.test, ast.Compare) and isinstance(a.test.ops[0], ast.Eq) for a in A.ancestors(r)) for r in trues)
    if goodt:
        out.append(ok("QUERY-3", m.qualname, key, where, f"return True only under '<popped> == {end}'"))
    elif trues:
        out.append(bad("QUERY-3", m.qualname, key, where, "the positive answer is not tied to having reached the end block"))
    else:
        out.append(unresolved("QUERY-3", m.qualname, key, where, "no 'return True' found: not the recognised form"))
    key = "expansion along forward targets inside the graph"
    exts = [c for c in A.walk_no_nested(m.node) if isinstance(c, ast.Call) and isinstance(c.func, ast.Attribute) and c.func.attr in ("extend", "update") and work and A.unparse(c.func.value) == work]
    if exts and all(A.unparse(c.args[0]).endswith("].jump_targets") for c in exts):
        out.append(ok("QUERY-3", m.qualname, key, where, f"{A.unparse(exts[0].args[0])}"))
    elif exts:
        out.append(bad("QUERY-3", m.qualname, key, where, f"a visited block is expanded by {A.unparse(exts[0].args[0])[:50]}, not by its forward jump targets"))
    else:
        out.append(unresolved("QUERY-3", m.qualname, key, where, "expansion step not recognised"))
    return out
