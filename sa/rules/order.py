"""Engine ORD - order and hash-seed dependence (DESIGN 5.2).

Model of nondeterminism: iteration order of set/frozenset, and explicit
entropy sources.  dict is insertion ordered: its order is as deterministic as
the order of the insertions, so containers whose insertion order was taken
from a set are *order-tainted* and followed."""
from __future__ import annotations

import ast
from typing import Dict, List, Optional, Set, Tuple

from .. import astutil as A
from ..model import AnalysisError, FunctionInfo
from ..report import Ob, bad, ok, unresolved
from ..types import ANY, is_set, may_be_set, members, strip_none
from . import rule
from .common import block_classes, kw, method_calls

INSENSITIVE = {"sorted", "len", "set", "frozenset", "min", "max", "sum", "any", "all", "bool", "isinstance", "print", "repr", "str"}
MATERIALISE = {"list", "tuple", "deque", "iter", "enumerate", "zip", "reversed", "next", "dict"}
SET_MUT = {"add", "discard", "update", "difference_update", "intersection_update", "symmetric_difference_update", "remove", "clear"}
LIST_MUT = {"append", "extend", "insert", "appendleft", "extendleft"}
PURE_METHODS = {
    "intersection", "union", "difference", "symmetric_difference", "issubset", "issuperset", "isdisjoint", "copy",
    "get", "keys", "values", "items", "index", "count", "startswith", "endswith", "format", "join", "split",
}
PURE_BUILTINS = INSENSITIVE | {"tuple", "list", "dict", "int", "type", "enumerate", "zip", "range", "iter", "next", "id", "callable", "getattr", "hasattr", "cast", "reversed"}


def _total_key(k: ast.AST) -> bool:
    """the sort key cannot tie on distinct strings: identity-like keys, or a tuple that ends with the element"""
    if isinstance(k, ast.Name) and k.id in ("str", "repr"):
        return True
    if isinstance(k, ast.Lambda) and len(k.args.args) == 1:
        p = k.args.args[0].arg
        b = k.body
        if isinstance(b, ast.Name) and b.id == p:
            return True
        if isinstance(b, ast.Call) and isinstance(b.func, ast.Name) and b.func.id in ("str", "repr") and b.args and isinstance(b.args[0], ast.Name) and b.args[0].id == p:
            return True
        if isinstance(b, ast.Tuple) and b.elts and isinstance(b.elts[-1], ast.Name) and b.elts[-1].id == p:
            return True
    return False


class OrderAnalysis:
    """whole-library order-taint analysis; one instance per run"""

    def __init__(self, ctx) -> None:
        self.ctx = ctx
        self.prog = ctx.prog
        self.typer = ctx.typer
        self.cg = ctx.cg
        self.tainted_returns: Dict[FunctionInfo, str] = {}
        self.tainted_params: Dict[FunctionInfo, Dict[str, str]] = {}
        self._effect_free: Dict[FunctionInfo, bool] = {}
        self.obs: List[Ob] = []
        self.untyped: List[str] = []

    # ------------------------------------------------------------ utilities
    def effect_free(self, fn: FunctionInfo, depth: int = 0) -> bool:
        if fn in self._effect_free:
            return self._effect_free[fn]
        self._effect_free[fn] = True  # optimistic for recursion
        res = True
        for n in A.walk_no_nested(fn.node):
            if isinstance(n, (ast.Assign, ast.AugAssign, ast.AnnAssign, ast.Delete)):
                tgts = n.targets if isinstance(n, (ast.Assign, ast.Delete)) else [n.target]
                for t in tgts:
                    for x in ast.walk(t):
                        if isinstance(x, (ast.Attribute, ast.Subscript)) and isinstance(x.ctx, (ast.Store, ast.Del)):
                            base = x
                            while isinstance(base, (ast.Attribute, ast.Subscript)):
                                base = base.value
                            if not (isinstance(base, ast.Name) and self._is_local_fresh(fn, base.id)):
                                res = False
            elif isinstance(n, ast.Call):
                if isinstance(n.func, ast.Attribute) and n.func.attr in (SET_MUT | LIST_MUT | {"pop", "popleft", "popitem", "setdefault", "sort"}):
                    base = n.func.value
                    while isinstance(base, (ast.Attribute, ast.Subscript)):
                        base = base.value
                    if not (isinstance(base, ast.Name) and self._is_local_fresh(fn, base.id)):
                        res = False
                callees, _ = self.cg.resolve_call(fn, n)
                for c in callees:
                    if depth < 6 and not self.effect_free(c, depth + 1):
                        res = False
            elif isinstance(n, (ast.Yield, ast.YieldFrom)):
                pass
        self._effect_free[fn] = res
        return res

    def _is_local_fresh(self, fn: FunctionInfo, name: str) -> bool:
        """name is a local of fn (not a parameter / self): mutations of it are not effects"""
        params = {p.arg for p in fn.params}
        if name in params:
            return False
        for n in A.walk_no_nested(fn.node):
            if isinstance(n, ast.Name) and n.id == name and isinstance(n.ctx, ast.Store):
                return True
        return False

    def t(self, fn, e):
        return self.typer.type_of(e, self.typer.env(fn), fn)

    # ------------------------------------------------------------------ run
    def run(self) -> List[Ob]:
        fns = [f for f in self.prog.functions]
        # fixpoint on summaries (tainted returns / params)
        for _ in range(4):
            before = (dict(self.tainted_returns), {k: dict(v) for k, v in self.tainted_params.items()})
            self.obs = []
            self.untyped = []
            for f in fns:
                FnOrder(self, f).analyse()
            if before == (self.tainted_returns, self.tainted_params):
                break
        return self.obs


def _commutative_reduce(call) -> bool:
    """functools.reduce(OP, xs) with OP a commutative and associative set operation"""
    if not (isinstance(call, ast.Call) and (A.dotted(call.func) or "").split(".")[-1] == "reduce" and len(call.args) >= 2):
        return False
    op = call.args[0]
    d = A.dotted(op) or ""
    if d in ("set.intersection", "set.union", "frozenset.intersection", "frozenset.union", "operator.and_", "operator.or_", "and_", "or_"):
        return True
    if isinstance(op, ast.Lambda) and len(op.args.args) == 2 and not op.args.defaults:
        a, b = [x.arg for x in op.args.args]
        body = op.body
        if isinstance(body, ast.BinOp) and isinstance(body.op, (ast.BitAnd, ast.BitOr)) and {A.unparse(body.left), A.unparse(body.right)} == {a, b}:
            return True
        if isinstance(body, ast.Call) and isinstance(body.func, ast.Attribute) and body.func.attr in ("intersection", "union") and len(body.args) == 1 and {A.unparse(body.func.value), A.unparse(body.args[0])} == {a, b}:
            return True
    return False


def _set_algebra_call(call) -> bool:
    """`set.intersection(..)` / `frozenset.union(..)` called on the class: the result does not depend on the
    order of the operands"""
    if not (isinstance(call, ast.Call) and isinstance(call.func, ast.Attribute)):
        return False
    if call.func.attr in ("intersection", "union") and isinstance(call.func.value, ast.Name) and call.func.value.id in ("set", "frozenset"):
        return True
    # S.difference_update(*sets) / S.update(*sets) / S.intersection_update(*sets) / S.union(*sets) ..: the operands
    # are combined by a commutative operation
    return call.func.attr in ("difference_update", "update", "intersection_update", "difference", "union", "intersection", "isdisjoint") and any(isinstance(a, ast.Starred) for a in call.args)


class FnOrder:
    def __init__(self, oa: OrderAnalysis, fn: FunctionInfo) -> None:
        self.oa = oa
        self.fn = fn
        self.ctx = oa.ctx
        self.cfg = oa.ctx.cfg(fn)
        self.tainted: Dict[str, str] = dict(oa.tainted_params.get(fn, {}))
        self.done: Set[int] = set()

    # ----------------------------------------------------------- type tests
    def is_set_expr(self, e: ast.AST) -> bool:
        t = self.oa.t(self.fn, e)
        return may_be_set(t)

    def set_or_tainted(self, e: ast.AST) -> Optional[str]:
        """reason string when iterating e yields a hash-dependent order"""
        e0 = e
        if isinstance(e, ast.Call):
            d = A.dotted(e.func) or ""
            last = d.split(".")[-1]
            if isinstance(e.func, ast.Name) and last in ("sorted",):
                keyf = next((k.value for k in e.keywords if k.arg == "key"), None)
                if keyf is not None and not _total_key(keyf) and e.args:
                    inner = self.set_or_tainted(e.args[0])
                    if inner:
                        return f"sorted by a key that can tie ({A.unparse(keyf)[:40]}): ties keep the order of {A.unparse(e.args[0])[:30]} ({inner})"
                return None
            if isinstance(e.func, ast.Name) and last in ("list", "tuple", "deque", "iter", "reversed") and e.args:
                return self.set_or_tainted(e.args[0])
            if isinstance(e.func, ast.Name) and last in ("enumerate", "zip"):
                for a in e.args:
                    r = self.set_or_tainted(a)
                    if r:
                        return r
                return None
            if isinstance(e.func, ast.Attribute) and e.func.attr in ("items", "keys", "values", "copy"):
                return self.set_or_tainted(e.func.value)
            if isinstance(e.func, ast.Attribute) and e.func.attr == "fromkeys" and e.args:
                return self.set_or_tainted(e.args[0])
            callees, _ = self.oa.cg.resolve_call(self.fn, e)
            for c in callees:
                if c in self.oa.tainted_returns:
                    return f"result of {c.qualname} ({self.oa.tainted_returns[c]})"
        if isinstance(e, ast.Name) and e.id in self.tainted:
            # flow: when every statement that brings a hash-dependent order into the container is known and
            # none of them can run before this use, the container is still in a deterministic order here
            srcs = self.__dict__.get("taint_src", {}).get(e.id)
            if srcs and all(x is not None for x in srcs) and A.parent(e) is not None:
                un = self.cfg.node_of(e)
                if un is not None:
                    sns = [self.cfg.node_of(x) for x in srcs]
                    if all(sn is not None and sn is not un and un not in self.cfg.reachable(sn) for sn in sns):
                        return None
            return self.tainted[e.id]
        if isinstance(e, ast.Subscript) and isinstance(e.slice, ast.Slice):
            return self.set_or_tainted(e.value)
        if isinstance(e, ast.BinOp) and isinstance(e.op, ast.Add):
            return self.set_or_tainted(e.left) or self.set_or_tainted(e.right)
        if isinstance(e, (ast.ListComp, ast.GeneratorExp, ast.DictComp)):
            for g in e.generators:
                r = self.set_or_tainted(g.iter)
                if r:
                    return f"built by iterating {A.unparse(g.iter)[:40]} ({r})"
            return None
        if isinstance(e, ast.Starred):
            return self.set_or_tainted(e.value)
        if isinstance(e, (ast.List, ast.Tuple)):
            for x in e.elts:
                if isinstance(x, ast.Starred):
                    r = self.set_or_tainted(x.value)
                    if r:
                        return r
            return None
        if self.is_set_expr(e0):
            return f"{A.unparse(e0)[:40]} is a set"
        return None

    # ------------------------------------------------------------- analysis
    def analyse(self) -> None:
        fn = self.fn
        # local taint fixpoint
        for _ in range(3):
            n0 = len(self.tainted)
            for node in A.walk_no_nested(fn.node):
                self._propagate(node)
            if len(self.tainted) == n0:
                break
        for node in A.walk_no_nested(fn.node):
            self._sites(node)
        self._escapes()

    def _taint(self, name: str, why: str, src: Optional[ast.AST] = None) -> None:
        self.tainted.setdefault(name, why)
        # where the hash-dependent order comes in (None = unknown place: assume everywhere)
        lst = self.__dict__.setdefault("taint_src", {}).setdefault(name, [])
        if not any(x is src for x in lst):
            lst.append(src)

    def _propagate(self, node: ast.AST) -> None:
        if isinstance(node, ast.Assign):
            r = self._tainted_value(node.value)
            if r:
                for t in node.targets:
                    if isinstance(t, ast.Name):
                        self._taint(t.id, r, node)
                    elif isinstance(t, (ast.Tuple, ast.List)) and isinstance(node.value, (ast.Tuple, ast.List)) and len(t.elts) == len(node.value.elts):
                        for tt, vv in zip(t.elts, node.value.elts):
                            rr = self._tainted_value(vv)
                            if rr and isinstance(tt, ast.Name):
                                self._taint(tt.id, rr, node)
        elif isinstance(node, ast.AnnAssign) and node.value is not None and isinstance(node.target, ast.Name):
            r = self._tainted_value(node.value)
            if r:
                self._taint(node.target.id, r, node)
        elif isinstance(node, (ast.For,)):
            r = self.set_or_tainted(node.iter)
            if r:
                self._taint_containers_in_body(node.body, A.names_in(node.target), r)
        elif isinstance(node, ast.While):
            pops = self._set_pops(node)
            if pops:
                names, r = pops
                self._taint_containers_in_body(node.body, names, r)
        elif isinstance(node, ast.Call) and isinstance(node.func, ast.Attribute) and node.func.attr in ("extend", "extendleft", "update") and node.args:
            # list.extend(S) / dict.update(tainted)
            recv = node.func.value
            rt = self.oa.t(self.fn, recv)
            if isinstance(recv, ast.Name) and any(m[0] in ("list", "dict") for m in members(strip_none(rt))):
                r = self.set_or_tainted(node.args[0])
                if r:
                    self._taint(recv.id, f"extended with {A.unparse(node.args[0])[:40]} ({r})", node)

    def _tainted_value(self, e: ast.AST) -> Optional[str]:
        """reason when the *ordered container* value of e has a hash-dependent order"""
        if isinstance(e, ast.Call) and isinstance(e.func, ast.Name) and e.func.id == "sorted":
            return self.set_or_tainted(e)  # None unless the key can tie
        if isinstance(e, ast.Call) and isinstance(e.func, ast.Name) and e.func.id in ("set", "frozenset", "len", "min", "max", "sum", "any", "all"):
            return None
        if isinstance(e, (ast.SetComp, ast.Set)):
            return None
        t = self.oa.t(self.fn, e)
        if is_set(t):
            return None  # a set is not an ordered container
        if isinstance(e, (ast.ListComp, ast.DictComp, ast.GeneratorExp, ast.Name, ast.Subscript, ast.BinOp, ast.List, ast.Tuple)) or isinstance(e, ast.Call):
            if isinstance(e, ast.Subscript) and not isinstance(e.slice, ast.Slice):
                return None
            if isinstance(e, ast.Call):
                d = (A.dotted(e.func) or "").split(".")[-1]
                if isinstance(e.func, ast.Name) and d in ("list", "tuple", "deque", "dict", "iter", "enumerate", "zip", "reversed") or (isinstance(e.func, ast.Attribute) and e.func.attr in ("items", "keys", "values", "copy", "fromkeys")):
                    if isinstance(e.func, ast.Attribute) and e.func.attr == "fromkeys" and e.args:
                        return self.set_or_tainted(e.args[0])
                    return self.set_or_tainted(e)
                callees, _ = self.oa.cg.resolve_call(self.fn, e)
                for c in callees:
                    if c in self.oa.tainted_returns:
                        return f"result of {c.qualname} ({self.oa.tainted_returns[c]})"
                return None
            return self.set_or_tainted(e)
        return None

    def _set_pops(self, loop: ast.While) -> Optional[Tuple[Set[str], str]]:
        """names bound from S.pop() (S a set or tainted list) inside a while body"""
        names: Set[str] = set()
        reason = ""
        for s in A.walk_no_nested(ast.Module(loop.body, [])):
            if isinstance(s, ast.Assign) and isinstance(s.value, ast.Call) and isinstance(s.value.func, ast.Attribute) and s.value.func.attr in ("pop", "popleft"):
                r = self.set_or_tainted(s.value.func.value)
                if r:
                    for t in s.targets:
                        names |= A.names_in(t)
                    reason = f"{A.unparse(s.value)} ({r})"
        return (names, reason) if names else None

    def _depends(self, e: ast.AST, vars_: Set[str]) -> bool:
        return bool(A.names_in(e) & vars_)

    def _taint_containers_in_body(self, body: List[ast.stmt], loopvars: Set[str], why: str) -> None:
        """ordered containers filled inside a hash-ordered loop inherit its order"""
        dep = set(loopvars)
        for s in A.walk_no_nested(ast.Module(body, [])):
            if isinstance(s, ast.Assign) and self._depends(s.value, dep):
                for t in s.targets:
                    if isinstance(t, ast.Name):
                        dep.add(t.id)
        for s in A.walk_no_nested(ast.Module(body, [])):
            if isinstance(s, ast.Call) and isinstance(s.func, ast.Attribute) and s.func.attr in (LIST_MUT | {"setdefault"}):
                recv = s.func.value
                if isinstance(recv, ast.Name):
                    rt = self.oa.t(self.fn, recv)
                    if not is_set(rt):
                        self._taint(recv.id, f"filled inside a loop whose order is hash-dependent ({why})", s)
            if isinstance(s, (ast.Assign,)):
                for t in s.targets:
                    if isinstance(t, ast.Subscript) and isinstance(t.value, ast.Name):
                        rt = self.oa.t(self.fn, t.value)
                        if any(m[0] == "dict" for m in members(strip_none(rt))) or rt == ANY:
                            # re-assigning an existing key does not change insertion order, but a
                            # first insertion does; conservatively taint when the key depends on the loop
                            if self._depends(t.slice, dep):
                                self._taint(t.value.id, f"keys inserted inside a loop whose order is hash-dependent ({why})")

    # -------------------------------------------------------------- sites
    def _ob(self, state: str, node: ast.AST, what: str, detail: str, deriv: Optional[List[str]] = None, nontrivial: bool = True) -> None:
        stmt = A.enclosing_stmt(node) or node
        if isinstance(stmt, (ast.For, ast.While, ast.If, ast.With)):
            # key on the header only
            hdr = stmt.iter if isinstance(stmt, ast.For) else getattr(stmt, "test", stmt)
            key = f"{what}: " + A.alpha_key(hdr)
        else:
            key = f"{what}: " + A.alpha_key(stmt)
        key = key[:240]
        where = self.ctx.where(self.fn, node)
        ident = (id(node), what)
        if ident in self.done:
            return
        self.done.add(ident)
        o = Ob("ORD-1", self.fn.qualname, key, where, state, detail, deriv or [], nontrivial)
        self.oa.obs.append(o)

    def _sites(self, node: ast.AST) -> None:
        fn = self.fn
        if isinstance(node, ast.For):
            r = self.set_or_tainted(node.iter)
            if r:
                self._loop_site(node, node.iter, node.body, A.names_in(node.target), r)
            elif self.oa.t(fn, node.iter) == ANY:
                self.oa.untyped.append(f"{fn.qualname}: for ... in {A.unparse(node.iter)[:40]}")
        elif isinstance(node, ast.While):
            pops = self._set_pops(node)
            if pops:
                names, r = pops
                self._loop_site(node, node.test, node.body, names, r, kind="work-list pop")
        elif isinstance(node, (ast.ListComp, ast.SetComp, ast.DictComp, ast.GeneratorExp)):
            for g in node.generators:
                r = self.set_or_tainted(g.iter)
                if r:
                    self._comp_site(node, g, r)
        elif isinstance(node, ast.Call):
            self._call_site(node)
        elif isinstance(node, ast.Assign):
            # multi-target unpack of a set / tainted container
            for t in node.targets:
                if isinstance(t, (ast.Tuple, ast.List)) and not isinstance(node.value, (ast.Tuple, ast.List)):
                    r = self.set_or_tainted(node.value)
                    if r:
                        if len(t.elts) == 1 and not isinstance(t.elts[0], ast.Starred):
                            self._ob("ok", node, "unpack", f"single-target unpack of {A.unparse(node.value)[:40]}: exactly one element or an error", nontrivial=True)
                        else:
                            self._ob("violation", node, "unpack", f"positional unpack of {A.unparse(node.value)[:40]} whose order is hash-dependent ({r})")
        elif isinstance(node, ast.Subscript) and isinstance(node.ctx, ast.Load) and not isinstance(node.slice, ast.Slice):
            # indexing a tainted *list*
            if isinstance(node.value, ast.Name) and node.value.id in self.tainted:
                t = self.oa.t(fn, node.value)
                if any(m[0] in ("list", "tuplev", "tuple") for m in members(strip_none(t))):
                    if self._singleton_guard(node, node.value):
                        self._ob("ok", node, "index", f"{A.unparse(node)} under a guard that the container has one element")
                    else:
                        self._ob("violation", node, "index", f"{A.unparse(node)} picks an element by position from a container whose order is hash-dependent ({self.tainted[node.value.id]})")
        elif isinstance(node, ast.Starred) and isinstance(node.ctx, ast.Load):
            r = self.set_or_tainted(node.value)
            par = A.parent(node)
            if r and not (isinstance(par, ast.Call) and isinstance(par.func, ast.Name) and par.func.id in INSENSITIVE) and not _set_algebra_call(par):
                if not isinstance(par, (ast.List, ast.Tuple)):
                    self._ob("violation", node, "star-unpack", f"*{A.unparse(node.value)[:40]} spreads a hash-dependent order ({r})")

    def _consumer_insensitive(self, node: ast.AST) -> Optional[str]:
        """the value of node is consumed by an order-insensitive function / operator"""
        par = A.parent(node)
        if isinstance(par, ast.Starred) and _set_algebra_call(A.parent(par)):
            # set.intersection(*[..]) / set.union(*[..]): commutative and associative over the operands
            return "set." + A.parent(par).func.attr  # type: ignore[union-attr]
        if isinstance(par, ast.Call) and node in par.args and _commutative_reduce(par) and node is not par.args[0]:
            return "reduce(" + A.unparse(par.args[0])[:30] + ")"
        if isinstance(par, ast.Call) and node in par.args:
            if isinstance(par.func, ast.Name) and par.func.id in INSENSITIVE:
                if par.func.id == "sorted":
                    keyf = next((k.value for k in par.keywords if k.arg == "key"), None)
                    if keyf is not None and not _total_key(keyf):
                        return None
                return par.func.id
            if isinstance(par.func, ast.Attribute) and par.func.attr in (SET_MUT | {"intersection", "union", "difference", "issubset", "issuperset", "isdisjoint", "symmetric_difference"}):
                rt = self.oa.t(self.fn, par.func.value)
                if may_be_set(rt) or isinstance(par.func.value, ast.Call):
                    return "set." + par.func.attr
        if isinstance(par, ast.Compare) and node in par.comparators and any(isinstance(o, (ast.In, ast.NotIn)) for o in par.ops):
            return "membership"
        return None

    def _comp_site(self, comp: ast.AST, g: ast.comprehension, r: str) -> None:
        what = "comprehension"
        if isinstance(comp, ast.SetComp):
            self._ob("ok", comp, what, f"set comprehension over {A.unparse(g.iter)[:40]}: the result is a set again")
            return
        c = self._consumer_insensitive(comp)
        if c:
            self._ob("ok", comp, what, f"iterates {A.unparse(g.iter)[:40]} but the result goes straight into {c}()")
            return
        # otherwise the result is an order-tainted container: followed through its uses
        par = A.parent(comp)
        while isinstance(par, ast.BinOp) and isinstance(par.op, ast.BitOr) and isinstance(comp, ast.DictComp):
            # {..} | {..}: the merged dict inherits the insertion order of its operands
            par = A.parent(par)
        if isinstance(par, ast.Assign) and all(isinstance(t, ast.Name) for t in par.targets):
            names = [t.id for t in par.targets]
            self._ob("ok", comp, what, f"result of iterating {A.unparse(g.iter)[:40]} is bound to {names}: order-tainted, every use is checked", nontrivial=True)
            return
        if isinstance(par, ast.Return):
            self._ob("ok", comp, what, "order-tainted result returned: followed at the callers")
            return
        self._ob("violation", comp, what, f"the order of {A.unparse(g.iter)[:40]} ({r}) is materialised into {A.unparse(par)[:60] if par is not None else '?'}")

    def _call_site(self, call: ast.Call) -> None:
        f = call.func
        # S.pop() on a set outside the work-list form
        if isinstance(f, ast.Attribute) and f.attr == "pop" and not call.args:
            rt = self.oa.t(self.fn, f.value)
            if may_be_set(rt):
                loop = next((a for a in A.ancestors(call) if isinstance(a, ast.While)), None)
                if loop is None:
                    self._ob("violation", call, "set.pop", f"{A.unparse(call)} takes an arbitrary element of a set")
            return
        if isinstance(f, ast.Name) and f.id == "sorted" and call.args:
            r = self.set_or_tainted(call)
            if r:
                c = self._consumer_insensitive(call)
                par = A.parent(call)
                if c:
                    self._ob("ok", call, "sorted(key)", f"{A.unparse(call)[:50]} consumed by {c}")
                elif isinstance(par, ast.Assign) and all(isinstance(t, ast.Name) for t in par.targets):
                    self._ob("ok", call, "sorted(key)", f"{A.unparse(call)[:50]} bound to a local: order-tainted, every use is checked")
                elif isinstance(par, (ast.For, ast.comprehension)) and par.iter is call:
                    pass
                elif isinstance(par, (ast.Return, ast.Tuple)) and (isinstance(par, ast.Return) or isinstance(A.parent(par), ast.Return)):
                    callers = self.oa.cg.call_sites_of(self.fn)
                    self.oa.tainted_returns.setdefault(self.fn, r)
                    self._ob("violation" if True else "ok", call, "sorted(key)", f"{A.unparse(call)[:60]} does not fix the order: {r}")
                else:
                    self._ob("violation", call, "sorted(key)", f"{A.unparse(call)[:60]} does not fix the order: {r}")
            return
        if isinstance(f, ast.Name) and f.id in MATERIALISE and call.args:
            r = None
            for a in call.args:
                r = r or self.set_or_tainted(a)
            if not r:
                return
            if f.id == "next":
                # next(iter(S))
                inner = call.args[0]
                src = inner.args[0] if isinstance(inner, ast.Call) and inner.args else inner
                if self._singleton_guard(call, src):
                    self._ob("ok", call, "next(iter)", f"{A.unparse(call)[:50]} under a guard that {A.unparse(src)[:30]} has one element")
                else:
                    self._ob("violation", call, "next(iter)", f"{A.unparse(call)[:50]} picks an arbitrary element ({r}); no dominating singleton guard")
                return
            if f.id in ("iter",):
                par = A.parent(call)
                if isinstance(par, ast.Call) and isinstance(par.func, ast.Name) and par.func.id == "next":
                    return  # handled at next()
            c = self._consumer_insensitive(call)
            if c:
                self._ob("ok", call, f"{f.id}()", f"{A.unparse(call)[:50]} consumed by {c}")
                return
            par = A.parent(call)
            if isinstance(par, (ast.For, ast.comprehension)) and par.iter is call:
                return  # reported as loop / comprehension site
            if isinstance(par, ast.Assign) and all(isinstance(t, ast.Name) for t in par.targets):
                self._ob("ok", call, f"{f.id}()", f"{A.unparse(call)[:50]} bound to a local: order-tainted, every use is checked")
                return
            self._ob("violation", call, f"{f.id}()", f"{A.unparse(call)[:60]} materialises a hash-dependent order ({r})")
            return
        # functools.reduce and friends / arguments in general are handled by _escapes

    def _singleton_guard(self, node: ast.AST, src: ast.AST) -> bool:
        """node is evaluated only when len(src) == 1 (or <= 1) is known"""
        txt = A.unparse(src)

        def is_single(test: ast.AST, positive: bool, depth: int = 0) -> bool:
            if isinstance(test, ast.Name) and depth < 2:
                # a boolean local bound once to a length test (`join = len(xs) >= 2`)
                defs_ = [s_ for s_ in ast.walk(self.fn.node) if isinstance(s_, ast.Assign) and len(s_.targets) == 1 and isinstance(s_.targets[0], ast.Name) and s_.targets[0].id == test.id]
                stores_ = [x for x in ast.walk(self.fn.node) if isinstance(x, ast.Name) and x.id == test.id and isinstance(x.ctx, ast.Store)]
                if len(defs_) == 1 and len(stores_) == 1:
                    return is_single(defs_[0].value, positive, depth + 1)
                return False
            if isinstance(test, ast.BoolOp) and isinstance(test.op, ast.And) and positive:
                return any(is_single(v, True) for v in test.values)
            if isinstance(test, ast.BoolOp) and isinstance(test.op, ast.Or) and not positive:
                return any(is_single(v, False) for v in test.values)
            if isinstance(test, ast.UnaryOp) and isinstance(test.op, ast.Not):
                return is_single(test.operand, not positive)
            if isinstance(test, ast.Compare) and len(test.ops) == 1:
                l, r, op = test.left, test.comparators[0], test.ops[0]
                if isinstance(l, ast.Call) and isinstance(l.func, ast.Name) and l.func.id == "len" and l.args and A.unparse(l.args[0]) == txt and isinstance(r, ast.Constant):
                    v = r.value
                    if positive:
                        return (isinstance(op, ast.Eq) and v == 1) or (isinstance(op, ast.LtE) and v == 1) or (isinstance(op, ast.Lt) and v == 2)
                    return (isinstance(op, ast.Gt) and v == 1) or (isinstance(op, ast.GtE) and v == 2) or (isinstance(op, ast.NotEq) and v == 1)
            return False

        child: ast.AST = node
        for anc in A.ancestors(node):
            if isinstance(anc, ast.BoolOp) and child in anc.values:
                idx = anc.values.index(child)
                for v in anc.values[:idx]:
                    if is_single(v, isinstance(anc.op, ast.And)):
                        return True
            if isinstance(anc, (ast.If, ast.While)) and child in anc.body and is_single(anc.test, True):
                return True
            if isinstance(anc, ast.If) and child in anc.orelse and is_single(anc.test, False):
                return True
            if isinstance(anc, ast.IfExp) and ((child is anc.body and is_single(anc.test, True)) or (child is anc.orelse and is_single(anc.test, False))):
                return True
            if isinstance(anc, ast.comprehension):
                pass
            if isinstance(anc, (ast.ListComp, ast.SetComp, ast.GeneratorExp, ast.DictComp)):
                for g in anc.generators:
                    for cond in g.ifs:
                        if cond is not child and is_single(cond, True):
                            return True
            if anc is self.fn.node:
                break
            child = anc
        # dominating assert / if-raise on the statement level
        n = self.cfg.node_of(node)
        if n is not None:
            for g in self.cfg.nodes:
                if g is n or g.stmt is None:
                    continue
                if isinstance(g.stmt, ast.Assert) and is_single(g.stmt.test, True) and self.cfg.dominates(g, n):
                    # the source must not be re-bound between the assert and the use
                    if not self._rebound_between(g, n, src):
                        return True
                # guard clause: `if len(s) > 1: return ..` (or raise / continue / break) before the use -
                # the use is reached only along the arm on which the set has one element
                if isinstance(g.stmt, ast.If) and self.cfg.dominates(g, n) and not any(a is g.stmt for a in A.ancestors(node)):
                    wrong = None
                    if is_single(g.stmt.test, False):
                        wrong = getattr(g, "true_succ", None)
                    elif is_single(g.stmt.test, True) and g.stmt.orelse:
                        wrong = getattr(g, "false_succ", None)
                    if wrong is not None and n not in self.cfg.reachable(wrong, avoid=lambda x: x is g, include_src=True):
                        if not self._rebound_between(g, n, src):
                            return True
        return False

    def _rebound_between(self, a, b, src: ast.AST) -> bool:
        names = A.names_in(src)
        for x in self.cfg.reachable(a):
            if x is b:
                continue
            if b in self.cfg.reachable(x) or x is b:
                if names & set(self.cfg.defs_at(x)):
                    if self.cfg.dominates(a, x):
                        return True
        return False

    # ---------------------------------------------------------------- loops
    def _loop_site(self, loop: ast.AST, hdr: ast.AST, body: List[ast.stmt], loopvars: Set[str], r: str, kind: str = "for") -> None:
        offending = self._body_offences(body, set(loopvars))
        what = "loop" if kind == "for" else kind
        if not offending:
            idiom = self._idiom(body, loopvars)
            self._ob("ok", hdr, what, f"iteration over {A.unparse(hdr)[:40]} is order-insensitive ({idiom})", [f"order source: {r}"])
        else:
            self._ob("violation", hdr, what,
                     f"the hash-dependent order of {A.unparse(hdr)[:40]} ({r}) reaches an observable: " + "; ".join(o for o in offending[:3]),
                     [f"order source: {r}"] + offending)

    def _idiom(self, body, loopvars) -> str:
        txt = A.unparse(ast.Module(body, []))
        return "visited-set closure" if " not in " in txt and (".update(" in txt or ".extend(" in txt) else "commutative accumulation into sets / per-key stores"

    def _body_offences(self, body: List[ast.stmt], dep: Set[str]) -> List[str]:
        """statements of a hash-ordered loop body through which the order becomes observable"""
        fn = self.fn
        out: List[str] = []
        mutated: Set[str] = set()
        # names that depend on the loop variable
        for s in A.walk_no_nested(ast.Module(body, [])):
            if isinstance(s, ast.Assign) and self._depends(s.value, dep):
                for t in s.targets:
                    dep |= {n.id for n in ast.walk(t) if isinstance(n, ast.Name)}
            if isinstance(s, (ast.For,)) and self._depends(s.iter, dep):
                dep |= A.names_in(s.target)
        # collect containers mutated in the body
        for s in A.walk_no_nested(ast.Module(body, [])):
            if isinstance(s, ast.Call) and isinstance(s.func, ast.Attribute) and s.func.attr in (SET_MUT | LIST_MUT | {"pop", "popleft", "setdefault"}):
                mutated.add(A.unparse(s.func.value))
            if isinstance(s, (ast.Assign, ast.AugAssign, ast.Delete)):
                tg = s.targets if isinstance(s, (ast.Assign, ast.Delete)) else [s.target]
                for t in tg:
                    if isinstance(t, ast.Subscript):
                        mutated.add(A.unparse(t.value))
                    if isinstance(s, ast.AugAssign) and isinstance(t, ast.Name):
                        mutated.add(t.id)

        def reads_mutated(e: ast.AST) -> Optional[str]:
            for n in ast.walk(e):
                if isinstance(n, (ast.Name, ast.Attribute, ast.Subscript)):
                    tx = A.unparse(n)
                    if tx in mutated:
                        return tx
            return None

        def closure_guard(test: ast.AST, stmts: List[ast.stmt]) -> bool:
            """`if x not in SEEN:` guarding only SEEN.add(x) and work-list growth"""
            if not (isinstance(test, ast.Compare) and len(test.ops) == 1 and isinstance(test.ops[0], ast.NotIn)):
                return False
            seen = A.unparse(test.comparators[0])
            x = A.unparse(test.left)
            has_add = False
            for st in stmts:
                if isinstance(st, ast.Expr) and isinstance(st.value, ast.Call) and isinstance(st.value.func, ast.Attribute):
                    c = st.value
                    recv = A.unparse(c.func.value)
                    if recv == seen and c.func.attr == "add" and c.args and A.unparse(c.args[0]) == x:
                        has_add = True
                        continue
                    if c.func.attr in ("update", "extend", "add", "append") and recv != seen:
                        continue
                    return False
                elif isinstance(st, ast.If):
                    continue
                else:
                    return False
            return has_add

        def visit(stmts: List[ast.stmt], guarded_closure: bool = False) -> None:
            for st in stmts:
                where = f"line {A.lineno(st)}: {A.unparse(st).splitlines()[0][:70]}"
                if isinstance(st, ast.Expr) and isinstance(st.value, ast.Call):
                    c = st.value
                    if isinstance(c.func, ast.Attribute) and c.func.attr in SET_MUT:
                        rt = self.oa.t(fn, c.func.value)
                        if may_be_set(rt) or rt == ANY:
                            if any(self._impure(a) for a in c.args):
                                out.append(f"{where} (argument has effects)")
                            continue
                    if isinstance(c.func, ast.Attribute) and c.func.attr in LIST_MUT:
                        recv = c.func.value
                        if isinstance(recv, ast.Name) and self.oa._is_local_fresh(fn, recv.id):
                            continue  # the list becomes order-tainted and is followed
                        out.append(f"{where} (appends to a non-local sequence in hash order)")
                        continue
                    if isinstance(c.func, ast.Attribute) and c.func.attr in ("debug", "info", "warning"):
                        continue
                    if self._impure(c):
                        out.append(f"{where} (call with effects: order of effects follows the set order)")
                    continue
                if isinstance(st, ast.Delete):
                    continue
                if isinstance(st, ast.Assign) and isinstance(st.value, ast.Call) and isinstance(st.value.func, ast.Attribute) \
                        and st.value.func.attr in ("pop", "popleft") and isinstance(st.value.func.value, ast.Name) \
                        and self.oa._is_local_fresh(fn, st.value.func.value.id):
                    continue  # taking the next work-list item
                if isinstance(st, ast.Assign):
                    bad_t = False
                    for t in st.targets:
                        if isinstance(t, ast.Subscript):
                            base = t.value
                            if isinstance(base, ast.Name) and (self.oa._is_local_fresh(fn, base.id)):
                                if not self._depends(t.slice, dep):
                                    out.append(f"{where} (store to a fixed key inside the loop: last writer wins)")
                                continue
                            # dict store keyed by the loop variable into non-local dict: distinct keys, content
                            # is order independent but insertion order is not
                            out.append(f"{where} (insertion into a non-local mapping in hash order)")
                        elif isinstance(t, ast.Attribute):
                            out.append(f"{where} (attribute store inside the loop: last writer wins)")
                        elif isinstance(t, ast.Name):
                            if t.id not in dep and self._depends(st.value, dep) is False and not self.oa._is_local_fresh(fn, t.id):
                                bad_t = True
                    if self._impure(st.value):
                        out.append(f"{where} (call with effects)")
                    continue
                if isinstance(st, ast.AugAssign):
                    if isinstance(st.target, (ast.Name, ast.Subscript)) and isinstance(st.op, (ast.BitOr, ast.BitAnd, ast.Sub, ast.BitXor)):
                        tt = self.oa.t(fn, st.target)
                        if may_be_set(tt):
                            # set algebra on a set: commutative unless the operand reads state mutated in this loop
                            rm = reads_mutated(st.value)
                            if rm:
                                out.append(f"{where} (operand reads {rm}, which this loop mutates)")
                            continue
                    if isinstance(st.op, ast.Add) and isinstance(st.value, ast.Constant) and isinstance(st.value.value, int):
                        continue
                    out.append(f"{where} (accumulation whose result may depend on the order)")
                    continue
                if isinstance(st, ast.If):
                    rm = reads_mutated(st.test)
                    if rm and not closure_guard(st.test, st.body):
                        out.append(f"line {A.lineno(st)}: if {A.unparse(st.test)[:50]} (condition reads {rm}, which this loop mutates)")
                    if self._impure(st.test):
                        out.append(f"line {A.lineno(st)}: if {A.unparse(st.test)[:50]} (condition has effects)")
                    visit(st.body)
                    visit(st.orelse)
                    continue
                if isinstance(st, ast.For):
                    if self._impure(st.iter):
                        out.append(f"{where} (iterable has effects)")
                    visit(st.body)
                    visit(st.orelse)
                    continue
                if isinstance(st, (ast.Continue, ast.Pass)):
                    continue
                if isinstance(st, ast.Assert):
                    continue
                if isinstance(st, ast.Return):
                    if st.value is None or isinstance(st.value, ast.Constant):
                        continue
                    if self._depends(st.value, dep):
                        out.append(f"{where} (returns the first element found in hash order)")
                    continue
                if isinstance(st, ast.Break):
                    out.append(f"{where} (stops at the first element found in hash order)")
                    continue
                if isinstance(st, ast.Expr) and isinstance(st.value, (ast.Yield, ast.YieldFrom)):
                    out.append(f"{where} (yields in hash order)")
                    continue
                if isinstance(st, ast.Expr):
                    continue
                if isinstance(st, ast.While):
                    visit(st.body)
                    continue
                out.append(f"{where} (statement kind not known to be order-insensitive)")

        visit(body)
        return out

    def _impure(self, e: ast.AST) -> bool:
        """e contains a call that may have effects (name generation, graph mutation, ...)"""
        for n in ast.walk(e):
            if not isinstance(n, ast.Call):
                continue
            f = n.func
            if isinstance(f, ast.Name) and f.id in PURE_BUILTINS:
                continue
            if isinstance(f, ast.Attribute) and f.attr in PURE_METHODS:
                continue
            callees, resolved = self.oa.cg.resolve_call(self.fn, n)
            if callees and all(self.oa.effect_free(c) for c in callees):
                continue
            if not callees and resolved:
                # constructor of an external / builtin type or a pure stdlib helper
                d = A.dotted(f) or ""
                if d.split(".")[0] in ("ast", "functools", "itertools", "textwrap", "str", "int"):
                    continue
                tt = self.oa.t(self.fn, f)
                if tt[0] == "type":
                    continue
            if callees and all(c.name in ("__init__", "__post_init__") for c in callees):
                # dataclass construction: effect free unless __post_init__ draws names
                if all(self.oa.effect_free(c) for c in callees):
                    continue
            return True
        return False

    # -------------------------------------------------------------- escapes
    def _escapes(self) -> None:
        """uses of order-tainted containers: arguments, returns, stores"""
        fn = self.fn
        for node in A.walk_no_nested(fn.node):
            if isinstance(node, ast.Return) and node.value is not None:
                r = self._tainted_value(node.value)
                if r:
                    callers = self.oa.cg.call_sites_of(fn)
                    self.oa.tainted_returns.setdefault(fn, r)
                    if not callers and not fn.name.startswith("_"):
                        self._ob("violation", node, "return", f"{fn.qualname} returns a container whose order is hash-dependent ({r}) to its (external) callers")
            elif isinstance(node, ast.Call):
                for i, a in enumerate(list(node.args) + [k.value for k in node.keywords]):
                    if isinstance(a, ast.Starred):
                        a = a.value
                    r = None
                    if isinstance(a, ast.Name) and a.id in self.tainted:
                        r = self.tainted[a.id]
                    elif isinstance(a, (ast.ListComp, ast.DictComp, ast.GeneratorExp)):
                        continue  # comprehension sites are reported on their own
                    if not r:
                        continue
                    f = node.func
                    if isinstance(f, ast.Name) and f.id in INSENSITIVE | {"enumerate", "zip", "iter", "list", "tuple", "deque", "dict", "reversed", "next"}:
                        continue  # insensitive, or re-materialisation handled as its own site
                    if _commutative_reduce(node):
                        continue  # reduce(set.intersection / lambda a, b: a & b / operator.or_, xs): any order of xs gives the same set
                    if isinstance(f, ast.Attribute) and f.attr in (SET_MUT | {"intersection", "union", "difference", "issubset", "issuperset", "isdisjoint"}):
                        continue
                    if isinstance(f, ast.Attribute) and isinstance(f.value, ast.Name) and f.value.id in self.tainted and f.attr in (LIST_MUT | {"update"}):
                        continue
                    callees, resolved = self.oa.cg.resolve_call(fn, node)
                    lib = [c for c in callees if c.name not in ("__init__", "__post_init__")]
                    if lib:
                        for c in lib:
                            params = [p.arg for p in c.params if p.arg not in ("self", "cls")]
                            pname = None
                            if i < len(node.args) and i < len(params):
                                pname = params[i]
                            else:
                                kws = [k for k in node.keywords if k.value is a]
                                if kws and kws[0].arg in params:
                                    pname = kws[0].arg
                            if pname:
                                self.oa.tainted_params.setdefault(c, {}).setdefault(pname, f"argument {a.id if isinstance(a, ast.Name) else '?'} of {fn.qualname} ({r})")
                        continue
                    self._ob("violation", node, "escape", f"container {A.unparse(a)[:30]} with hash-dependent order ({r}) is passed to {A.unparse(f)[:40]}")
            elif isinstance(node, (ast.Assign,)):
                for t in node.targets:
                    if isinstance(t, (ast.Attribute, ast.Subscript)):
                        r = self._tainted_value(node.value)
                        if r and not is_set(self.oa.t(fn, node.value)):
                            self._ob("violation", node, "store", f"container with hash-dependent order ({r}) is stored into {A.unparse(t)[:40]}")
            elif isinstance(node, (ast.Yield, ast.YieldFrom)) and node.value is not None:
                r = self._tainted_value(node.value) if isinstance(node, ast.YieldFrom) else None
                if r:
                    self._ob("violation", node, "yield", f"yields from a container with hash-dependent order ({r})")


def _analysis(ctx) -> OrderAnalysis:
    oa = getattr(ctx, "_order_analysis", None)
    if oa is None:
        oa = OrderAnalysis(ctx)
        oa.run()
        ctx._order_analysis = oa
    return oa


@rule("ORD-1", 15, "no iteration order of a set (or of a container whose order came from a set) reaches a name, an insertion order, a target tuple or any other observable")
def ord1(ctx) -> List[Ob]:
    oa = _analysis(ctx)
    out = list(oa.obs)
    ctx.stats["ORD-1.tainted_returns"] = {f.qualname: r for f, r in oa.tainted_returns.items()}
    ctx.stats["ORD-1.tainted_params"] = {f.qualname: v for f, v in oa.tainted_params.items()}
    ctx.stats["ORD-1.untyped_iterables"] = oa.untyped
    # fail closed: an untyped iterable inside the restructuring code is not a verdict
    core = set()
    for grp in ("restructure",):
        core |= ctx.cg.reachable_from(ctx.entry_points(grp))
    for u in oa.untyped:
        q = u.split(":")[0]
        f = next((x for x in core if x.qualname == q), None)
        if f is None:
            continue
        expr_txt = u.split(" in ", 1)[1]
        key = "untyped iterable " + expr_txt
        base = expr_txt.split("[")[0].split(".")[0]
        params = [p.arg for p in f.params]
        verdict = None
        if base in params:
            # delegated to the callers: the argument must be a library object whose
            # __iter__ / __getitem__ do not hand out a hash-dependent order
            sites = ctx.cg.call_sites_of(f)
            notes = []
            good = bool(sites)
            for s_ in sites:
                idx = params.index(base)
                arg = s_.node.args[idx] if idx < len(s_.node.args) else None
                at = ctx.type_of(s_.caller, arg) if arg is not None else ANY
                cls = ctx.typer.classes_of(at)
                if not cls:
                    good = False
                    notes.append(f"{s_.caller.qualname}: argument of unknown class")
                    continue
                for c in cls:
                    for mname in ("__iter__", "__getitem__"):
                        m = c.find_method(mname)
                        if m is None:
                            continue
                        fo = FnOrder(oa, m)
                        fo.analyse()
                        for r_ in [n for n in A.walk_no_nested(m.node) if isinstance(n, ast.Return) and n.value is not None]:
                            why = fo.set_or_tainted(r_.value)
                            if why:
                                good = False
                                notes.append(f"{m.qualname} returns a hash-dependent order: {why}")
                            else:
                                notes.append(f"{m.qualname} returns {A.unparse(r_.value)[:50]}: ordered")
            verdict = (good, notes)
        if verdict and verdict[0]:
            out.append(ok("ORD-1", q, key, ctx.where(f), f"iterates its un-annotated parameter '{base}': order delegated to the argument's __iter__/__getitem__, which are ordered", verdict[1]))
        elif verdict:
            out.append(bad("ORD-1", q, key, ctx.where(f), f"iterates parameter '{base}' whose iteration order is hash-dependent at a call site", verdict[1]))
        else:
            out.append(unresolved("ORD-1", q, key, ctx.where(f), "iterable of unknown type in restructuring code: cannot tell whether it is a set"))
    return out


ENTROPY_MODULES = {"random", "secrets", "uuid", "time", "datetime"}
ENTROPY_ATTRS = {"os.environ", "os.getenv", "os.urandom", "os.getpid", "os.times"}
ENTROPY_BUILTINS = {"id", "hash"}


def entropy_refs(prog) -> List[Tuple[object, ast.AST, str]]:
    out = []
    for m in prog.modules.values():
        for n in ast.walk(m.tree):
            if isinstance(n, ast.Import):
                for a in n.names:
                    if a.name.split(".")[0] in ENTROPY_MODULES:
                        out.append((m, n, f"import {a.name}"))
            elif isinstance(n, ast.ImportFrom):
                if (n.module or "").split(".")[0] in ENTROPY_MODULES:
                    out.append((m, n, f"from {n.module} import ..."))
                if n.module == "os":
                    for a in n.names:
                        if "os." + a.name in ENTROPY_ATTRS:
                            out.append((m, n, f"from os import {a.name}"))
            elif isinstance(n, ast.Attribute):
                d = A.dotted(n)
                if d in ENTROPY_ATTRS:
                    out.append((m, n, d))
            elif isinstance(n, ast.Call) and isinstance(n.func, ast.Name) and n.func.id in ENTROPY_BUILTINS:
                out.append((m, n, f"{n.func.id}()"))
    return out


@rule("ORD-2", 8, "no entropy source (random, time, environment, id/hash) is referenced by library code")
def ord2(ctx) -> List[Ob]:
    out: List[Ob] = []
    refs = entropy_refs(ctx.prog)
    by_mod: Dict[str, list] = {}
    for m, n, what in refs:
        by_mod.setdefault(m.name, []).append((m, n, what))
    for m in ctx.prog.modules.values():
        if m.name in by_mod:
            for mm, n, what in by_mod[m.name]:
                fn = ctx.prog.function_of_node(n)
                out.append(bad("ORD-2", fn.qualname if fn else "<module>", f"entropy source {what}", f"{m.relpath}:{A.lineno(n)}", f"library code references {what}: results may differ between processes"))
        else:
            out.append(ok("ORD-2", "<module>", f"module {m.name.split('.')[-1]}", m.relpath + ":1", "no entropy source referenced", nontrivial=False))
    return out


# ------------------------------------------------------------------- ORD-3

REORDER_FUNCS = {"sorted", "set", "frozenset", "reversed"}


def order_provenance(ctx, fn: FunctionInfo, e: ast.AST, depth: int = 0, seen: Optional[Set[int]] = None) -> List[str]:
    """reasons why the sequence value of e does not keep the order of its source
    (empty list = order preserved on every derivation path)"""
    seen = seen if seen is not None else set()
    if id(e) in seen or depth > 8:
        return []
    seen.add(id(e))
    cfg = ctx.cfg(fn)
    out: List[str] = []
    if isinstance(e, ast.Call):
        d = A.dotted(e.func) or ""
        last = d.split(".")[-1]
        if isinstance(e.func, ast.Name) and last in REORDER_FUNCS:
            return [f"{A.unparse(e)[:60]} (line {A.lineno(e)}) re-derives the order with {last}()"]
        if isinstance(e.func, ast.Attribute) and last == "fromkeys":
            return [f"{A.unparse(e)[:60]} de-duplicates / re-derives the order"]
        if isinstance(e.func, ast.Name) and last in ("tuple", "list", "deque") and e.args:
            return order_provenance(ctx, fn, e.args[0], depth + 1, seen)
        return []
    if isinstance(e, (ast.ListComp, ast.GeneratorExp)):
        for g in e.generators:
            out += order_provenance(ctx, fn, g.iter, depth + 1, seen)
            t = ctx.type_of(fn, g.iter)
            if may_be_set(t):
                out.append(f"{A.unparse(g.iter)[:40]} is a set")
        return out
    if isinstance(e, ast.SetComp):
        return [f"{A.unparse(e)[:50]} is a set"]
    if isinstance(e, ast.Name):
        t = ctx.type_of(fn, e)
        if is_set(t):
            return [f"{e.id} is a set"]
        for d in cfg.reaching_defs(e):
            if d.stmt is None:
                continue
            if isinstance(d.stmt, ast.Assign):
                out += order_provenance(ctx, fn, d.stmt.value, depth + 1, seen)
            elif isinstance(d.stmt, ast.AnnAssign) and d.stmt.value is not None:
                out += order_provenance(ctx, fn, d.stmt.value, depth + 1, seen)
        # in-place reordering of the list anywhere in the function
        for c in A.walk_no_nested(fn.node):
            if isinstance(c, ast.Call) and isinstance(c.func, ast.Attribute) and isinstance(c.func.value, ast.Name) and c.func.value.id == e.id and c.func.attr in ("sort", "reverse"):
                out.append(f"{A.unparse(c)} (line {A.lineno(c)}) reorders the list in place")
        return out
    if isinstance(e, ast.Tuple) or isinstance(e, ast.List):
        for x in e.elts:
            if isinstance(x, ast.Starred):
                out += order_provenance(ctx, fn, x.value, depth + 1, seen)
        return out
    if isinstance(e, ast.BinOp):
        return order_provenance(ctx, fn, e.left, depth + 1, seen) + order_provenance(ctx, fn, e.right, depth + 1, seen)
    if isinstance(e, ast.Subscript) and isinstance(e.slice, ast.Slice):
        if e.slice.step is not None:
            return [f"{A.unparse(e)[:40]} re-orders by a stepped slice"]
        return order_provenance(ctx, fn, e.value, depth + 1, seen)
    if isinstance(e, ast.IfExp):
        return order_provenance(ctx, fn, e.body, depth + 1, seen) + order_provenance(ctx, fn, e.orelse, depth + 1, seen)
    t = ctx.type_of(fn, e)
    if is_set(t):
        return [f"{A.unparse(e)[:40]} is a set"]
    return []


@rule("ORD-3", 12, "wherever the successors (or back edges) of an existing block are copied, written or read, their order is kept (never sorted, set-ified or reversed)")
def ord3(ctx) -> List[Ob]:
    out: List[Ob] = []
    prog = ctx.prog
    bbmod = prog.module("basic_block")
    sites = 0
    # (1) arguments of replace_jump_targets / replace_backedges outside basic_block.py
    for fn in prog.functions:
        if fn.module is bbmod:
            continue
        for c in method_calls(fn.node, "replace_jump_targets") + method_calls(fn.node, "replace_backedges"):
            arg = kw(c, "jump_targets", 0) or kw(c, "backedges", 0)
            if arg is None:
                continue
            sites += 1
            why = order_provenance(ctx, fn, arg)
            key = A.alpha_key(c)
            if why:
                out.append(bad("ORD-3", fn.qualname, key, ctx.where(fn, c), f"the new target tuple {A.unparse(arg)[:40]} does not keep the positional order of the block's successors: {why[0]}", why))
            else:
                out.append(ok("ORD-3", fn.qualname, key, ctx.where(fn, c), f"{A.unparse(arg)[:40]} derives from the block's own tuple without re-ordering"))
    # (2) writer / reader of the serialised form
    io = prog.cls("SCFGIO")
    for mname in ("to_dict", "extract_block_info"):
        m = io.find_method(mname)
        if m is None:
            raise AnalysisError(f"SCFGIO.{mname} not found")
        for s in A.walk_no_nested(m.node):
            if isinstance(s, ast.Assign):
                txt = A.unparse(s.value)
                if ("_jump_targets" in txt or "backedges" in txt or "edges[" in txt) and not isinstance(s.value, (ast.Dict, ast.Tuple)) or (isinstance(s.value, ast.Call) and "edges" in txt):
                    if isinstance(s.value, ast.Dict) or isinstance(s.value, ast.Constant):
                        continue
                    if not any(isinstance(n, (ast.ListComp, ast.GeneratorExp, ast.Call)) for n in ast.walk(s.value)):
                        continue
                    sites += 1
                    why = order_provenance(ctx, m, s.value)
                    key = A.alpha_key(s)
                    if why:
                        out.append(bad("ORD-3", m.qualname, key, ctx.where(m, s), f"successor order is not kept in the serialised form: {why[0]}", why))
                    else:
                        out.append(ok("ORD-3", m.qualname, key, ctx.where(m, s), "edge list copied element by element in order"))
    # (3) front-end constructors
    for cname in ("PythonBytecodeBlock", "PythonASTBlock"):
        for fn in prog.functions:
            for c in A.walk_no_nested(fn.node):
                if isinstance(c, ast.Call) and (A.dotted(c.func) or "").split(".")[-1] == cname:
                    arg = kw(c, "_jump_targets", 1)
                    if arg is None:
                        continue
                    sites += 1
                    why = order_provenance(ctx, fn, arg)
                    key = f"{cname}(_jump_targets={A.alpha_key(arg)})"
                    if why:
                        out.append(bad("ORD-3", fn.qualname, key, ctx.where(fn, c), f"front end builds the successor tuple in a re-derived order: {why[0]}", why))
                    else:
                        out.append(ok("ORD-3", fn.qualname, key, ctx.where(fn, c), "successor tuple keeps the recorded order"))
    return out


# ------------------------------------------------------------------- ORD-4


def unhashable_classes(ctx) -> Dict[str, str]:
    """frozen eq dataclasses (hash = hash of fields) with a field of an unhashable type"""
    prog, typer = ctx.prog, ctx.typer
    out: Dict[str, str] = {}
    for c in prog.all_classes():
        if not (c.dataclass and c.eq):
            continue
        if not c.frozen:
            # eq=True, frozen=False -> __hash__ is None
            out[c.name] = "eq dataclass that is not frozen (no __hash__)"
            continue
        for f in c.fields():
            if not f.compare:
                continue
            t = typer.ann(prog.modules[next(k for k, m in prog.modules.items() if f.owner in m.classes)], f.annotation)
            for mt in members(strip_none(t)):
                if mt[0] in ("dict", "list", "set"):
                    out[c.name] = f"field '{f.name}' is a {mt[0]}"
                elif mt[0] == "cls" and mt[1] in out:
                    out[c.name] = f"field '{f.name}' holds a {mt[1]} ({out[mt[1]]})"
    # second pass for forward references between classes
    for c in prog.all_classes():
        if c.name in out or not (c.dataclass and c.eq and c.frozen):
            continue
        for f in c.fields():
            t = typer.ann(c.module, f.annotation)
            for mt in members(strip_none(t)):
                if mt[0] == "cls" and mt[1] in out and f.compare:
                    out[c.name] = f"field '{f.name}' holds a {mt[1]}"
    return out


def _contains_unhashable(ctx, t, unh: Dict[str, str]) -> Optional[str]:
    prog = ctx.prog
    for mt in members(strip_none(t)):
        if mt[0] == "cls" and mt[1] in prog.classes:
            c = prog.classes[mt[1]]
            for k in prog.subclasses(c):
                if k.name in unh:
                    return f"{k.name}: {unh[k.name]}" + ("" if k.name == c.name else f" (admitted by static type {c.name})")
        elif mt[0] == "tuple":
            for x in mt[1]:
                r = _contains_unhashable(ctx, x, unh)
                if r:
                    return r
        elif mt[0] in ("tuplev",):
            r = _contains_unhashable(ctx, mt[1], unh)
            if r:
                return r
        elif mt[0] in ("list", "dict", "set"):
            return f"a {mt[0]}"
    return None


@rule("ORD-4", 4, "no value whose class hashes an unhashable field is put into a set or used as a dict key")
def ord4(ctx) -> List[Ob]:
    out: List[Ob] = []
    prog, typer = ctx.prog, ctx.typer
    unh = unhashable_classes(ctx)
    ctx.stats["ORD-4.unhashable"] = unh
    for fn in prog.functions:
        env = typer.env(fn)
        for n in A.walk_no_nested(fn.node):
            el = None
            what = None
            if isinstance(n, ast.AnnAssign):
                t = typer.ann(fn.module, n.annotation)
                for mt in members(strip_none(t)):
                    if mt[0] == "set":
                        el, what = mt[1], f"annotation {A.unparse(n.annotation)}"
                    elif mt[0] == "dict":
                        el, what = mt[1], f"key type of {A.unparse(n.annotation)}"
            elif isinstance(n, (ast.Set, ast.SetComp)):
                t = typer.type_of(n, env, fn)
                el, what = t[1], f"set display {A.unparse(n)[:30]}"
            elif isinstance(n, ast.Call) and isinstance(n.func, ast.Name) and n.func.id in ("set", "frozenset") and n.args:
                t = typer.type_of(n, env, fn)
                el, what = t[1], f"{A.unparse(n)[:40]}"
            elif isinstance(n, ast.Call) and isinstance(n.func, ast.Attribute) and n.func.attr in ("add", "update") and n.args:
                rt = typer.type_of(n.func.value, env, fn)
                if may_be_set(rt):
                    at = typer.type_of(n.args[0], env, fn)
                    el = at if n.func.attr == "add" else typer.iter_elem(at)
                    what = f"{A.unparse(n)[:50]}"
            if el is None or el == ANY:
                continue
            if not any(mt[0] in ("cls", "tuple", "tuplev", "list", "dict", "set") for mt in members(strip_none(el))):
                continue
            r = _contains_unhashable(ctx, el, unh)
            key = A.alpha_key(n if not isinstance(n, ast.AnnAssign) else n.annotation)
            if r:
                out.append(bad("ORD-4", fn.qualname, key, ctx.where(fn, n), f"{what}: elements are hashed, but {r}: TypeError unhashable type at run time"))
            else:
                out.append(ok("ORD-4", fn.qualname, key, ctx.where(fn, n), f"{what}: element type is hashable"))
    # class-level annotations of set fields
    for c in prog.all_classes():
        for f in c.own_fields:
            t = typer.ann(c.module, f.annotation)
            for mt in members(strip_none(t)):
                if mt[0] == "set" and any(x[0] in ("cls", "tuple") for x in members(strip_none(mt[1]))):
                    r = _contains_unhashable(ctx, mt[1], unh)
                    key = f"{c.name}.{f.name}: {A.unparse(f.annotation)}"
                    if r:
                        out.append(bad("ORD-4", c.name, key, f"{c.module.relpath}:{A.lineno(f.annotation)}", f"set field whose elements cannot be hashed: {r}"))
                    else:
                        out.append(ok("ORD-4", c.name, key, f"{c.module.relpath}:{A.lineno(f.annotation)}", "element type is hashable"))
    return out


MEMO_DECORATORS = {"lru_cache", "cache", "cached_property", "memoize", "memoized"}


@rule("ORD-5", 10, "no result depends on the history of the process: no memoisation of graph-building functions and no mutable default argument shared between calls")
def ord5(ctx) -> List[Ob]:
    out: List[Ob] = []
    prog, typer = ctx.prog, ctx.typer
    for fn in prog.functions:
        key = "function " + fn.qualname
        where = ctx.where(fn)
        probs = []
        for d in fn.node.decorator_list:  # type: ignore[attr-defined]
            de = d.func if isinstance(d, ast.Call) else d
            dn = de.attr if isinstance(de, ast.Attribute) else (de.id if isinstance(de, ast.Name) else "")
            if dn in MEMO_DECORATORS:
                probs.append(f"is memoised with @{dn}: later calls return the object built (and since mutated) by the first call")
        args = fn.node.args  # type: ignore[attr-defined]
        defaults = list(args.defaults) + [d for d in args.kw_defaults if d is not None]
        for d in defaults:
            mutable = None
            if isinstance(d, (ast.List, ast.Dict, ast.Set, ast.ListComp, ast.DictComp, ast.SetComp)):
                mutable = "a mutable display"
            elif isinstance(d, ast.Call):
                t = typer.type_of(d, {}, fn)
                dn = (A.dotted(d.func) or "").split(".")[-1]
                if dn in ("tuple", "frozenset", "str", "int", "float", "bool"):
                    mutable = None
                elif t[0] in ("cls", "set", "list", "dict") or (dn[:1].isupper()) or dn in ("set", "list", "dict", "deque", "defaultdict"):
                    mutable = f"an object built once at definition time ({A.unparse(d)[:30]})"
            if mutable:
                probs.append(f"has a default argument that is {mutable}: shared by every call of the process")
        if probs:
            out.append(bad("ORD-5", fn.qualname, key, where, f"{fn.qualname} " + "; ".join(probs)))
        else:
            out.append(ok("ORD-5", fn.qualname, key, where, "no memoisation, no mutable default", nontrivial=False))
    # class-level mutable attributes mutated by methods (shared by every instance, survive across calls)
    for c in prog.all_classes():
        for st in c.node.body:
            tgt = val = None
            if isinstance(st, ast.Assign) and len(st.targets) == 1 and isinstance(st.targets[0], ast.Name):
                tgt, val = st.targets[0].id, st.value
            elif isinstance(st, ast.AnnAssign) and isinstance(st.target, ast.Name) and st.value is not None:
                tgt, val = st.target.id, st.value
            if tgt is None:
                continue
            mutable = isinstance(val, (ast.Dict, ast.List, ast.Set)) or (isinstance(val, ast.Call) and (A.dotted(val.func) or "").split(".")[-1] in ("dict", "list", "set", "defaultdict", "OrderedDict", "deque"))
            if not mutable or (c.dataclass and isinstance(val, ast.Call) and (A.dotted(val.func) or "").endswith("field")):
                continue
            writers = []
            for mname, meth in c.methods.items():
                for n in ast.walk(meth.node):
                    txts = []
                    if isinstance(n, ast.Assign):
                        txts = [A.unparse(t.value) for t in n.targets if isinstance(t, ast.Subscript)]
                    elif isinstance(n, ast.Call) and isinstance(n.func, ast.Attribute) and n.func.attr in ("append", "add", "update", "setdefault", "extend", "pop", "clear"):
                        txts = [A.unparse(n.func.value)]
                    if any(t in (f"self.{tgt}", f"cls.{tgt}", f"{c.name}.{tgt}", f"type(self).{tgt}") for t in txts):
                        writers.append(meth.qualname)
            if writers:
                out.append(bad("ORD-5", c.name, f"class-level mutable {c.name}.{tgt}", f"{c.module.relpath}:{A.lineno(st)}", f"class attribute {c.name}.{tgt} is a mutable container written by {sorted(set(writers))}: state leaks from one object / call to the next"))
    # module-level caches: a module constant that is a mutable container mutated from a function
    for m in prog.modules.values():
        for name, val in m.constants.items():
            if isinstance(val, (ast.Dict, ast.List, ast.Set)) or (isinstance(val, ast.Call) and (A.dotted(val.func) or "") in ("dict", "list", "set", "defaultdict")):
                writers = []
                for fn in prog.functions:
                    if fn.module is not m:
                        continue
                    for n in A.walk_no_nested(fn.node):
                        if isinstance(n, ast.Assign) and any(isinstance(t, ast.Subscript) and A.unparse(t.value) == name for t in n.targets):
                            writers.append(fn.qualname)
                        if isinstance(n, ast.Call) and isinstance(n.func, ast.Attribute) and A.unparse(n.func.value) == name and n.func.attr in ("append", "add", "update", "setdefault", "extend", "pop"):
                            writers.append(fn.qualname)
                if writers:
                    out.append(bad("ORD-5", "<module>", f"module-level mutable {name}", f"{m.relpath}:{A.lineno(val)}", f"module-level container {name} is mutated by {sorted(set(writers))}: state carried from one call to the next"))
    return out


# ------------------------------------------------------------------ ORD-6

_MUTATORS = {"append", "extend", "insert", "pop", "popleft", "appendleft", "remove", "clear", "update", "add", "discard",
             "setdefault", "popitem", "sort", "reverse", "difference_update", "intersection_update"}


def _self_attr(e: ast.AST, selfn: str, alias: Dict[str, str]) -> Optional[str]:
    """attribute of the instance that the expression denotes (directly or through a local alias)"""
    while isinstance(e, ast.Subscript):
        e = e.value
    if isinstance(e, ast.Attribute) and isinstance(e.value, ast.Name) and e.value.id == selfn:
        return e.attr
    if isinstance(e, ast.Name) and e.id in alias:
        return alias[e.id]
    return None


@rule("ORD-6", 1, "no answer depends on what an earlier call left behind on the object: a method does not branch on an instance attribute that the same method writes (memo / run-once flags), except the audited generators and counters")
def ord6(ctx) -> List[Ob]:
    out: List[Ob] = []
    for c in ctx.prog.all_classes():
        for mname, m in sorted(c.methods.items()):
            if mname in ("__init__", "__post_init__", "__new__") or not m.params or m.is_static:
                continue
            selfn = m.params[0].arg
            alias: Dict[str, str] = {}
            for n in A.walk_no_nested(m.node):
                if isinstance(n, (ast.Assign, ast.AnnAssign)) and n.value is not None:
                    tg = n.targets[0] if isinstance(n, ast.Assign) else n.target
                    if isinstance(tg, ast.Name):
                        a = _self_attr(n.value, selfn, {}) if isinstance(n.value, (ast.Attribute, ast.Subscript)) else None
                        if a is not None and isinstance(n.value, ast.Attribute):
                            alias[tg.id] = a
            writes: Dict[str, ast.AST] = {}
            for n in A.walk_no_nested(m.node):
                tgts: List[ast.AST] = []
                if isinstance(n, ast.Assign):
                    tgts = list(n.targets)
                elif isinstance(n, (ast.AugAssign, ast.AnnAssign)):
                    tgts = [n.target]
                elif isinstance(n, ast.Delete):
                    tgts = list(n.targets)
                for t in tgts:
                    for x in (t.elts if isinstance(t, (ast.Tuple, ast.List)) else [t]):
                        if isinstance(x, ast.Name):
                            continue  # re-binding a local alias does not touch the object
                        a = _self_attr(x, selfn, alias)
                        if a is not None:
                            writes.setdefault(a, n)
                if isinstance(n, ast.Call):
                    if isinstance(n.func, ast.Attribute) and n.func.attr in _MUTATORS:
                        a = _self_attr(n.func.value, selfn, alias)
                        if a is not None:
                            writes.setdefault(a, n)
                    if (A.dotted(n.func) or "") == "object.__setattr__" and len(n.args) >= 2 and isinstance(n.args[0], ast.Name) and n.args[0].id == selfn and isinstance(n.args[1], ast.Constant):
                        writes.setdefault(str(n.args[1].value), n)
            if not writes:
                continue
            tests: List[ast.AST] = []
            for n in A.walk_no_nested(m.node):
                if isinstance(n, (ast.If, ast.While, ast.IfExp, ast.Assert)):
                    tests.append(n.test)
                elif isinstance(n, ast.comprehension):
                    tests.extend(n.ifs)
                elif isinstance(n, ast.BoolOp):
                    tests.extend(n.values[:-1])
            # a read through a local alias counts only when the object is also written through an alias or
            # in place (a shared mutable); `n = self.counter; ...; if x == n` reads a snapshot of an immutable
            inplace = set()
            for a_, wn in writes.items():
                if isinstance(wn, ast.Call) or any(isinstance(t_, ast.Subscript) for t_ in (getattr(wn, "targets", None) or [getattr(wn, "target", None)]) if t_ is not None):
                    inplace.add(a_)
            cond_reads: Dict[str, ast.AST] = {}
            for t in tests:
                for x in ast.walk(t):
                    if isinstance(x, ast.Attribute):
                        a = _self_attr(x, selfn, {})
                    elif isinstance(x, ast.Name) and x.id in alias and alias[x.id] in inplace:
                        a = alias[x.id]
                    else:
                        a = None
                    if a is not None and a in writes:
                        cond_reads.setdefault(a, t)
            for a in sorted(cond_reads):
                key = f"{c.name}.{mname}: branches on and writes self.{a}"
                out.append(bad("ORD-6", m.qualname, key, ctx.where(m, cond_reads[a]),
                               f"{m.qualname} tests self.{a} ('{A.unparse(cond_reads[a])[:50]}') and also writes it (line {A.lineno(writes[a])}): what the method answers depends on what an earlier call left on the object - a remembered result is returned although the graph / input changed, or a step is skipped the second time"))
    out.append(ok("ORD-6", "<library>", "methods scanned", "numba_scfg", f"{sum(len(c.methods) for c in ctx.prog.all_classes())} methods", nontrivial=False))
    return out


@rule("ORD-7", 1, "what runs only when logging / debugging is switched on changes nothing the program uses: a block guarded by `isEnabledFor(..)`, `__debug__` or a logger level holds logging calls and bindings of names that are read inside the block only; a refusal (NotImplementedError) raised by the source front end is not caught by a handler for one of its base classes")
def ord7(ctx) -> List[Ob]:
    out: List[Ob] = []
    MUT = {"sort", "reverse", "append", "extend", "insert", "pop", "remove", "clear", "add", "discard", "update", "setdefault", "popleft", "appendleft", "difference_update", "intersection_update"}
    n = 0
    for fn in ctx.prog.functions:
        for st in A.walk_no_nested(fn.node):
            if not isinstance(st, ast.If):
                continue
            t = A.unparse(st.test)
            if not ("isEnabledFor" in t or "__debug__" in t or "getEffectiveLevel" in t or ".level " in t or t.endswith(".level")):
                continue
            n += 1
            key = "debug-only block: " + A.alpha_key(st.test)[:50]
            where = ctx.where(fn, st)
            inside = {id(x) for b in st.body for x in ast.walk(b)}
            probs = []
            for b in st.body:
                for x in ast.walk(b):
                    if isinstance(x, ast.Call) and isinstance(x.func, ast.Attribute) and x.func.attr in MUT and isinstance(x.func.value, (ast.Name, ast.Attribute)) and not A.unparse(x.func.value).startswith(("_logger", "logger", "logging")):
                        base = x.func.value
                        root = base
                        while isinstance(root, ast.Attribute):
                            root = root.value
                        # a container created inside the block may be filled there
                        created = isinstance(root, ast.Name) and any(isinstance(y, ast.Name) and y.id == root.id and isinstance(y.ctx, ast.Store) and id(y) in inside for y in ast.walk(fn.node)) and not any(isinstance(y, ast.Name) and y.id == root.id and isinstance(y.ctx, ast.Store) and id(y) not in inside for y in ast.walk(fn.node))
                        if not created:
                            probs.append(f"{A.unparse(x)[:50]} changes {A.unparse(base)[:30]} in place")
                    elif isinstance(x, (ast.Assign, ast.AugAssign, ast.AnnAssign)):
                        tg = x.targets if isinstance(x, ast.Assign) else [x.target]
                        for t_ in tg:
                            if isinstance(t_, (ast.Attribute, ast.Subscript)):
                                probs.append(f"{A.unparse(t_)[:40]} is written")
                            elif isinstance(t_, ast.Name):
                                outside_reads = [y for y in ast.walk(fn.node) if isinstance(y, ast.Name) and y.id == t_.id and isinstance(y.ctx, ast.Load) and id(y) not in inside]
                                if outside_reads:
                                    probs.append(f"{t_.id} is bound here and read outside the block")
            if probs:
                out.append(bad("ORD-7", fn.qualname, key, where, f"the block that runs only under '{t[:50]}' is not free of effects: {probs[0]} - the result differs between a process that logs and one that does not (importing the renderer switches debug logging on)"))
            else:
                out.append(ok("ORD-7", fn.qualname, key, where, "logging only", nontrivial=False))
    # refusals of the source front end propagate
    for fn in ctx.prog.functions:
        if not fn.module.name.endswith("ast_transforms"):
            continue
        for tr in A.walk_no_nested(fn.node):
            if not isinstance(tr, ast.Try):
                continue
            calls = [A.unparse(c.func) for b in tr.body for c in ast.walk(b) if isinstance(c, ast.Call)]
            if not any(("AST2SCFG" in c or "transform" in c or "handle_" in c or "codegen" in c) for c in calls):
                continue
            for h in tr.handlers:
                names = []
                if h.type is None:
                    names = ["BaseException"]
                else:
                    names = [A.unparse(e).split(".")[-1] for e in (h.type.elts if isinstance(h.type, ast.Tuple) else [h.type])]
                hit = [x for x in names if x in ("RuntimeError", "Exception", "BaseException", "NotImplementedError")]
                reraises_all = any(isinstance(x, ast.Raise) and x.exc is None for x in h.body) and not any(isinstance(x, ast.Return) for b in h.body for x in ast.walk(b))
                n += 1
                key = "handler around the front end: " + ",".join(names)
                if hit and not reraises_all:
                    out.append(bad("ORD-7", fn.qualname, key, ctx.where(fn, h), f"'except {', '.join(names)}' around {calls[0][:40]} also catches NotImplementedError (a RuntimeError): a function the front end refuses is answered in another way instead of being refused"))
                else:
                    out.append(ok("ORD-7", fn.qualname, key, ctx.where(fn, h), "does not intercept a refusal", nontrivial=False))
    out.append(ok("ORD-7", "<module>", "census of debug-only blocks and front-end handlers", "numba_scfg:1", f"{n} site(s)", nontrivial=False))
    return out

