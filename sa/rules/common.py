"""Helpers shared by the rule modules."""
from __future__ import annotations

import ast
from typing import Dict, Iterable, List, Optional, Set, Tuple

from .. import astutil as A
from ..domains import Arm, chain_arms
from ..model import AnalysisError, ClassInfo, FunctionInfo, Program

BLOCK_BASE = "BasicBlock"


def class_test_subject(test: ast.AST) -> Optional[str]:
    """subject text of the first isinstance(X, ..) / type(X) is|==|in .. found in test"""
    for n in ast.walk(test):
        if isinstance(n, ast.Call) and isinstance(n.func, ast.Name) and n.func.id == "isinstance" and len(n.args) == 2:
            return A.unparse(n.args[0])
        if isinstance(n, ast.Compare):
            for side in [n.left] + list(n.comparators):
                if isinstance(side, ast.Call) and isinstance(side.func, ast.Name) and side.func.id == "type" and len(side.args) == 1:
                    return A.unparse(side.args[0])
    return None


def elif_children(fn_node: ast.AST) -> Set[int]:
    """ids of If nodes that are the sole statement of another If's orelse"""
    out = set()
    for n in ast.walk(fn_node):
        if isinstance(n, ast.If) and len(n.orelse) == 1 and isinstance(n.orelse[0], ast.If):
            out.add(id(n.orelse[0]))
    return out


def find_class_chains(fn_node: ast.AST, subject: Optional[str] = None) -> List[Tuple[str, List[Arm]]]:
    """all if/elif chains in fn (outermost If of each chain) that test the class
    of one subject; [(subject, arms)] sorted by number of arms, longest first"""
    skip = elif_children(fn_node)
    out = []
    for n in A.walk_no_nested(fn_node):
        if isinstance(n, ast.If) and id(n) not in skip:
            subj = class_test_subject(n.test)
            if subj is None or (subject is not None and subj != subject):
                continue
            arms = chain_arms(n)
            out.append((subj, arms))
    out.sort(key=lambda x: -len(x[1]))
    return out


def block_classes(prog: Program) -> List[ClassInfo]:
    base = prog.cls(BLOCK_BASE)
    return sorted(prog.subclasses(base), key=lambda c: c.name)


def prog_is_sub(prog: Program):
    def is_sub(k: str, c: str) -> bool:
        k, c = k.split(".")[-1], c.split(".")[-1]
        kc, cc = prog.classes.get(k), prog.classes.get(c)
        if kc is None or cc is None:
            return k == c
        return kc.is_subclass_of(cc)

    return is_sub


def constructor_sites(prog: Program, typer, classes: Iterable[ClassInfo]):
    """[(fn, call node, ClassInfo | None, via)] for every call whose callee is one
    of the given classes, directly or through a `type[...]`-typed variable."""
    names = {c.name for c in classes}
    out = []
    for fn in prog.functions:
        env = typer.env(fn)
        for node in A.walk_no_nested(fn.node):
            if not isinstance(node, ast.Call):
                continue
            ft = typer.type_of(node.func, env, fn)
            from ..types import members

            for t in members(ft):
                if t[0] == "type" and t[1] in names:
                    direct = isinstance(node.func, (ast.Name, ast.Attribute)) and (A.dotted(node.func) or "").split(".")[-1] == t[1]
                    out.append((fn, node, prog.classes[t[1]], "direct" if direct else "type-variable"))
    return out


def instantiated_block_classes(prog: Program, typer) -> Dict[str, List[str]]:
    """block classes constructed somewhere in the library -> list of 'fn:line' sites.
    A `block_type(...)` call with `block_type: type[C]` is resolved through the
    arguments of the library's call sites of the enclosing function."""
    blocks = block_classes(prog)
    out: Dict[str, List[str]] = {}
    for fn, node, cls, via in constructor_sites(prog, typer, blocks):
        if via == "direct":
            out.setdefault(cls.name, []).append(f"{fn.qualname}:{A.lineno(node)}")
        else:
            # type-variable: collect classes passed for that parameter at call sites
            var = A.dotted(node.func)
            params = [a.arg for a in fn.params]
            if var in params:
                idx = params.index(var)
                is_method = fn.cls is not None and not fn.is_static
                for other in prog.functions:
                    for call in A.walk_no_nested(other.node):
                        if isinstance(call, ast.Call) and (A.dotted(call.func) or "").split(".")[-1] == fn.name:
                            pos = idx - (1 if is_method else 0)
                            arg = None
                            if 0 <= pos < len(call.args):
                                arg = call.args[pos]
                            for kw in call.keywords:
                                if kw.arg == var:
                                    arg = kw.value
                            d = A.dotted(arg) if arg is not None else None
                            if d and d.split(".")[-1] in prog.classes:
                                out.setdefault(d.split(".")[-1], []).append(f"{other.qualname}:{A.lineno(call)} via {fn.qualname}")
    return out


def strip_cast(e: ast.AST) -> ast.AST:
    while isinstance(e, ast.Call) and isinstance(e.func, ast.Name) and e.func.id == "cast" and len(e.args) == 2:
        e = e.args[1]
    return e


def is_raise_of(stmt: ast.stmt, exc_names: Iterable[str]) -> bool:
    if not isinstance(stmt, ast.Raise) or stmt.exc is None:
        return False
    e = stmt.exc.func if isinstance(stmt.exc, ast.Call) else stmt.exc
    return (A.dotted(e) or "").split(".")[-1] in set(exc_names)


def refusing_body(body: List[ast.stmt], exc=("NotImplementedError",)) -> bool:
    """the arm does nothing but raise the explicit not-implemented error:
    optional pure statements (string assignment, logging) then `raise X`"""
    if not body:
        return False
    if not is_raise_of(body[-1], exc):
        return False
    for s in body[:-1]:
        if isinstance(s, ast.Assign) and all(isinstance(t, ast.Name) for t in s.targets) and not any(isinstance(n, ast.Call) for n in ast.walk(s.value)):
            continue
        if isinstance(s, ast.Expr) and isinstance(s.value, ast.Call) and (A.dotted(s.value.func) or "").split(".")[0] in ("_logger", "logger", "logging", "warnings"):
            continue
        if A.is_docstring(s):
            continue
        return False
    return True


def method_calls(node: ast.AST, name: str) -> List[ast.Call]:
    return [n for n in A.walk_no_nested(node) if isinstance(n, ast.Call) and isinstance(n.func, ast.Attribute) and n.func.attr == name]


def calls_named(node: ast.AST, name: str) -> List[ast.Call]:
    out = []
    for n in A.walk_no_nested(node):
        if isinstance(n, ast.Call):
            d = A.dotted(n.func) or ""
            if d.split(".")[-1] == name:
                out.append(n)
    return out


def kw(call: ast.Call, name: str, pos: Optional[int] = None) -> Optional[ast.AST]:
    for k in call.keywords:
        if k.arg == name:
            return k.value
    if pos is not None and pos < len(call.args):
        return call.args[pos]
    return None


class ReverseLookup:
    """a function recognised by role: first-match scan of `<table>.items()` that returns the key whose
    value matches an argument.  `table_param` is the index of the parameter that is scanned (None when
    the table is not a parameter, e.g. a module-level registry), `value_param` the index of the
    parameter the values are compared with (indices among the explicit parameters, `self`/`cls` not
    counted)."""

    def __init__(self, fn: FunctionInfo, loop: ast.For, test: ast.If, table: ast.AST, key_var: str, val_var: str,
                 table_param: Optional[int], value_param: Optional[int]) -> None:
        self.fn, self.loop, self.test, self.table = fn, loop, test, table
        self.key_var, self.val_var = key_var, val_var
        self.table_param, self.value_param = table_param, value_param


def as_reverse_lookup(fn: FunctionInfo) -> Optional[ReverseLookup]:
    loops = [n for n in A.walk_no_nested(fn.node) if isinstance(n, ast.For)]
    if not loops:
        # the same as one expression: return next((k for k, v in table.items() if v == value), default)
        body = A.body_without_docstring(fn.node)
        if len(body) == 1 and isinstance(body[0], ast.Return) and isinstance(body[0].value, ast.Call) and isinstance(body[0].value.func, ast.Name) and body[0].value.func.id == "next" and body[0].value.args:
            ge = body[0].value.args[0]
            if isinstance(ge, ast.GeneratorExp) and len(ge.generators) == 1 and len(ge.generators[0].ifs) == 1:
                g = ge.generators[0]
                it = g.iter
                if isinstance(it, ast.Call) and isinstance(it.func, ast.Attribute) and it.func.attr == "items" and not it.args and isinstance(g.target, ast.Tuple) and len(g.target.elts) == 2 and all(isinstance(e, ast.Name) for e in g.target.elts):
                    kv, vv = g.target.elts[0].id, g.target.elts[1].id  # type: ignore[attr-defined]
                    if isinstance(ge.elt, ast.Name) and ge.elt.id == kv:
                        params = [a.arg for a in fn.node.args.args]  # type: ignore[attr-defined]
                        if fn.cls is not None and params and params[0] in ("self", "cls"):
                            params = params[1:]
                        table = it.func.value
                        tpi = params.index(table.id) if isinstance(table, ast.Name) and table.id in params else None
                        used = {n.id for n in ast.walk(g.ifs[0]) if isinstance(n, ast.Name)}
                        vpi = next((i for i, p in enumerate(params) if p in used and i != tpi), None)
                        if vv in used:
                            pseudo_if = ast.copy_location(ast.If(test=g.ifs[0], body=[ast.Return(value=ge.elt)], orelse=[]), ge)
                            pseudo_for = ast.copy_location(ast.For(target=g.target, iter=it, body=[pseudo_if], orelse=[]), ge)
                            return ReverseLookup(fn, pseudo_for, pseudo_if, table, kv, vv, tpi, vpi)
        return None
    if len(loops) != 1:
        return None
    lp = loops[0]
    it = lp.iter
    if isinstance(it, ast.Call) and isinstance(it.func, ast.Name) and it.func.id == "reversed" and it.args:
        it = it.args[0]
    if not (isinstance(it, ast.Call) and isinstance(it.func, ast.Attribute) and it.func.attr == "items" and not it.args):
        return None
    if not (isinstance(lp.target, ast.Tuple) and len(lp.target.elts) == 2 and all(isinstance(e, ast.Name) for e in lp.target.elts)):
        return None
    kv, vv = lp.target.elts[0].id, lp.target.elts[1].id  # type: ignore[attr-defined]
    ifs = [s for s in lp.body if isinstance(s, ast.If)]
    if len(ifs) != 1 or not ifs[0].body or not isinstance(ifs[0].body[-1], ast.Return):
        return None
    rv = ifs[0].body[-1].value
    if not (isinstance(rv, ast.Name) and rv.id == kv):
        return None
    params = [a.arg for a in fn.node.args.args]  # type: ignore[attr-defined]
    if fn.cls is not None and params and params[0] in ("self", "cls") and not getattr(fn, "is_static", False):
        params = params[1:]
    table = it.func.value
    tpi = params.index(table.id) if isinstance(table, ast.Name) and table.id in params else None
    used = {n.id for n in ast.walk(ifs[0].test) if isinstance(n, ast.Name)}
    vpi = next((i for i, p in enumerate(params) if p in used and i != tpi), None)
    if vv not in used:
        return None
    return ReverseLookup(fn, lp, ifs[0], table, kv, vv, tpi, vpi)


def reverse_lookup_call(prog: Program, caller: FunctionInfo, e: ast.AST) -> Optional[Tuple[ReverseLookup, Optional[ast.AST], Optional[ast.AST]]]:
    """(recognised function, table argument, value argument) when e calls a reverse-lookup function"""
    if not isinstance(e, ast.Call):
        return None
    nm = (A.dotted(e.func) or "").split(".")[-1]
    if not nm:
        return None
    cands = [f for f in prog.functions if f.name == nm]
    # prefer the definition visible from the caller: nested in the caller, then same module
    cands.sort(key=lambda f: (0 if f.parent_fn is caller else 1 if f.module is caller.module else 2))
    for f in cands:
        r = as_reverse_lookup(f)
        if r is None:
            continue

        def arg(i: Optional[int]) -> Optional[ast.AST]:
            if i is None:
                return None
            params = [a.arg for a in f.node.args.args]  # type: ignore[attr-defined]
            if f.cls is not None and params and params[0] in ("self", "cls") and not getattr(f, "is_static", False):
                params = params[1:]
            if i < len(e.args):
                return e.args[i]
            for k_ in e.keywords:
                if k_.arg == params[i]:
                    return k_.value
            return None

        return r, arg(r.table_param), arg(r.value_param)
    return None


def see_through(ctx, fn: FunctionInfo, e: Optional[ast.AST], depth: int = 3) -> Optional[ast.AST]:
    """the defining expression of a local that has exactly one reaching definition at its use (a
    temporary introduced for readability): `name = str(index); Block(name=name)` reads as
    `Block(name=str(index))`.  Anything else is returned unchanged."""
    while depth > 0 and isinstance(e, ast.Name):
        ds = [d for d in ctx.cfg(fn).reaching_defs(e) if d.stmt is not None]
        every = ctx.cfg(fn).reaching_defs(e)
        if len(every) == 1 and len(ds) == 1 and isinstance(ds[0].stmt, (ast.Assign, ast.AnnAssign)) and ds[0].stmt.value is not None:
            tg = ds[0].stmt.targets[0] if isinstance(ds[0].stmt, ast.Assign) else ds[0].stmt.target
            if isinstance(tg, ast.Name) and (not isinstance(ds[0].stmt, ast.Assign) or len(ds[0].stmt.targets) == 1):
                e = ds[0].stmt.value
                depth -= 1
                continue
        break
    return e
