"""Helpers shared by the rule modules."""
from __future__ import annotations

import ast
from typing import Dict, Iterable, List, Optional, Set, Tuple

from .. import astutil as A
from ..domains import Arm, chain_arms
from ..model import AnalysisError, ClassInfo, FunctionInfo, Program

BLOCK_BASE = "BasicBlock"


def class_test_subject(test: ast.AST) -> Optional[str]:
    """subject text of the first isinstance(X, ..) / type(X) is|==|in .. found in test"""
    for n in ast.walk(test):
        if isinstance(n, ast.Call) and isinstance(n.func, ast.Name) and n.func.id == "isinstance" and len(n.args) == 2:
            return A.unparse(n.args[0])
        if isinstance(n, ast.Compare):
            for side in [n.left] + list(n.comparators):
                if isinstance(side, ast.Call) and isinstance(side.func, ast.Name) and side.func.id == "type" and len(side.args) == 1:
                    return A.unparse(side.args[0])
    return None


def elif_children(fn_node: ast.AST) -> Set[int]:
    """ids of If nodes that are the sole statement of another If's orelse"""
    out = set()
    for n in ast.walk(fn_node):
        if isinstance(n, ast.If) and len(n.orelse) == 1 and isinstance(n.orelse[0], ast.If):
            out.add(id(n.orelse[0]))
    return out


def find_class_chains(fn_node: ast.AST, subject: Optional[str] = None) -> List[Tuple[str, List[Arm]]]:
    """all if/elif chains in fn (outermost If of each chain) that test the class
    of one subject; [(subject, arms)] sorted by number of arms, longest first"""
    skip = elif_children(fn_node)
    out = []
    for n in A.walk_no_nested(fn_node):
        if isinstance(n, ast.If) and id(n) not in skip:
            subj = class_test_subject(n.test)
            if subj is None:
                # a chain that opens with a test of another kind (`if not any(fields(node)): ..`) and goes on with
                # class tests: the opening arm is opaque - any class may take it
                arms0 = chain_arms(n)
                subs = [class_test_subject(a.test) for a in arms0 if a.test is not None]
                subs = [x for x in subs if x is not None]
                if len(subs) >= 2 and len(set(subs)) == 1 and (subject is None or subs[0] == subject):
                    out.append((subs[0], arms0))
                continue
            if subject is not None and subj != subject:
                continue
            arms = chain_arms(n)
            out.append((subj, arms))
    out.sort(key=lambda x: -len(x[1]))
    return out


def block_classes(prog: Program) -> List[ClassInfo]:
    base = prog.cls(BLOCK_BASE)
    return sorted(prog.subclasses(base), key=lambda c: c.name)


def prog_is_sub(prog: Program):
    def is_sub(k: str, c: str) -> bool:
        k, c = k.split(".")[-1], c.split(".")[-1]
        kc, cc = prog.classes.get(k), prog.classes.get(c)
        if kc is None or cc is None:
            return k == c
        return kc.is_subclass_of(cc)

    return is_sub


def constructor_sites(prog: Program, typer, classes: Iterable[ClassInfo]):
    """[(fn, call node, ClassInfo | None, via)] for every call whose callee is one
    of the given classes, directly or through a `type[...]`-typed variable."""
    names = {c.name for c in classes}
    out = []
    for fn in prog.functions:
        env = typer.env(fn)
        for node in A.walk_no_nested(fn.node):
            if not isinstance(node, ast.Call):
                continue
            ft = typer.type_of(node.func, env, fn)
            from ..types import members

            for t in members(ft):
                if t[0] == "type" and t[1] in names:
                    direct = isinstance(node.func, (ast.Name, ast.Attribute)) and (A.dotted(node.func) or "").split(".")[-1] == t[1]
                    out.append((fn, node, prog.classes[t[1]], "direct" if direct else "type-variable"))
    return out


def instantiated_block_classes(prog: Program, typer) -> Dict[str, List[str]]:
    """block classes constructed somewhere in the library -> list of 'fn:line' sites.
    A `block_type(...)` call with `block_type: type[C]` is resolved through the
    arguments of the library's call sites of the enclosing function."""
    blocks = block_classes(prog)
    out: Dict[str, List[str]] = {}
    for fn, node, cls, via in constructor_sites(prog, typer, blocks):
        if via == "direct":
            out.setdefault(cls.name, []).append(f"{fn.qualname}:{A.lineno(node)}")
        else:
            # type-variable: collect classes passed for that parameter at call sites
            var = A.dotted(node.func)
            params = [a.arg for a in fn.params]
            if var in params:
                idx = params.index(var)
                is_method = fn.cls is not None and not fn.is_static
                for other in prog.functions:
                    for call in A.walk_no_nested(other.node):
                        if isinstance(call, ast.Call) and (A.dotted(call.func) or "").split(".")[-1] == fn.name:
                            pos = idx - (1 if is_method else 0)
                            arg = None
                            if 0 <= pos < len(call.args):
                                arg = call.args[pos]
                            for kw in call.keywords:
                                if kw.arg == var:
                                    arg = kw.value
                            d = A.dotted(arg) if arg is not None else None
                            if d and d.split(".")[-1] in prog.classes:
                                out.setdefault(d.split(".")[-1], []).append(f"{other.qualname}:{A.lineno(call)} via {fn.qualname}")
    return out


def strip_cast(e: ast.AST) -> ast.AST:
    while isinstance(e, ast.Call) and isinstance(e.func, ast.Name) and e.func.id == "cast" and len(e.args) == 2:
        e = e.args[1]
    return e


def is_raise_of(stmt: ast.stmt, exc_names: Iterable[str]) -> bool:
    if not isinstance(stmt, ast.Raise) or stmt.exc is None:
        return False
    e = stmt.exc.func if isinstance(stmt.exc, ast.Call) else stmt.exc
    return (A.dotted(e) or "").split(".")[-1] in set(exc_names)


def _pure_message_call(c: ast.Call) -> bool:
    """calls that only build a message text: type(x), repr(x), str(x), len(x), "..".format(..), ", ".join(..)"""
    if isinstance(c.func, ast.Name):
        return c.func.id in ("type", "repr", "str", "len", "format", "sorted", "list", "tuple", "getattr", "isinstance")
    if isinstance(c.func, ast.Attribute):
        return c.func.attr in ("format", "join")
    return False


def refusing_body(body: List[ast.stmt], exc=("NotImplementedError",)) -> bool:
    """the arm does nothing but raise the explicit not-implemented error:
    optional pure statements (string assignment, logging) then `raise X`"""
    if not body:
        return False
    if not is_raise_of(body[-1], exc):
        return False
    for s in body[:-1]:
        if isinstance(s, ast.Assign) and all(isinstance(t, ast.Name) for t in s.targets) and all(_pure_message_call(n) for n in ast.walk(s.value) if isinstance(n, ast.Call)):
            continue
        if isinstance(s, ast.Expr) and isinstance(s.value, ast.Call) and (A.dotted(s.value.func) or "").split(".")[0] in ("_logger", "logger", "logging", "warnings"):
            continue
        if A.is_docstring(s):
            continue
        return False
    return True


def method_calls(node: ast.AST, name: str) -> List[ast.Call]:
    return [n for n in A.walk_no_nested(node) if isinstance(n, ast.Call) and isinstance(n.func, ast.Attribute) and n.func.attr == name]


def calls_named(node: ast.AST, name: str) -> List[ast.Call]:
    out = []
    for n in A.walk_no_nested(node):
        if isinstance(n, ast.Call):
            d = A.dotted(n.func) or ""
            if d.split(".")[-1] == name:
                out.append(n)
    return out


def kw(call: ast.Call, name: str, pos: Optional[int] = None) -> Optional[ast.AST]:
    for k in call.keywords:
        if k.arg == name:
            return k.value
    if pos is not None and pos < len(call.args):
        return call.args[pos]
    return None


class ReverseLookup:
    """a function recognised by role: first-match scan of `<table>.items()` that returns the key whose
    value matches an argument.  `table_param` is the index of the parameter that is scanned (None when
    the table is not a parameter, e.g. a module-level registry), `value_param` the index of the
    parameter the values are compared with (indices among the explicit parameters, `self`/`cls` not
    counted)."""

    def __init__(self, fn: FunctionInfo, loop: ast.For, test: ast.If, table: ast.AST, key_var: str, val_var: str,
                 table_param: Optional[int], value_param: Optional[int]) -> None:
        self.fn, self.loop, self.test, self.table = fn, loop, test, table
        self.key_var, self.val_var = key_var, val_var
        self.table_param, self.value_param = table_param, value_param


def as_reverse_lookup(fn: FunctionInfo) -> Optional[ReverseLookup]:
    loops = [n for n in A.walk_no_nested(fn.node) if isinstance(n, ast.For)]
    if not loops:
        # the same as one expression: return next((k for k, v in table.items() if v == value), default)
        # - possibly in steps: gen = (..); name = next(gen, default); [if name is default: raise ..]; return name
        body = A.body_without_docstring(fn.node)
        nexts = [c for c in A.walk_no_nested(fn.node) if isinstance(c, ast.Call) and isinstance(c.func, ast.Name) and c.func.id == "next" and c.args]
        rets = [r for r in A.walk_no_nested(fn.node) if isinstance(r, ast.Return) and r.value is not None]
        if len(nexts) == 1 and len(rets) == 1:
            nx = nexts[0]
            ge0 = nx.args[0]
            if isinstance(ge0, ast.Name):
                defs0 = [a_ for a_ in A.walk_no_nested(fn.node) if isinstance(a_, ast.Assign) and len(a_.targets) == 1 and isinstance(a_.targets[0], ast.Name) and a_.targets[0].id == ge0.id]
                ge0 = defs0[0].value if len(defs0) == 1 else ge0
            rv0 = rets[0].value
            while isinstance(rv0, ast.Call) and isinstance(rv0.func, ast.Name) and rv0.func.id == "cast" and len(rv0.args) == 2:
                rv0 = rv0.args[1]
            returned = rv0 is nx
            if isinstance(rv0, ast.Name):
                defs1 = [a_ for a_ in A.walk_no_nested(fn.node) if isinstance(a_, ast.Assign) and len(a_.targets) == 1 and isinstance(a_.targets[0], ast.Name) and a_.targets[0].id == rv0.id]
                returned = len(defs1) == 1 and defs1[0].value is nx
            if returned and isinstance(ge0, ast.GeneratorExp):
                body = [ast.Return(value=ast.Call(func=ast.Name(id="next", ctx=ast.Load()), args=[ge0] + list(nx.args[1:]), keywords=[]))]
                ast.copy_location(body[0], rets[0])
                ast.copy_location(body[0].value, nx)
        if len(body) == 1 and isinstance(body[0], ast.Return) and isinstance(body[0].value, ast.Call) and isinstance(body[0].value.func, ast.Name) and body[0].value.func.id == "next" and body[0].value.args:
            ge = body[0].value.args[0]
            if isinstance(ge, ast.GeneratorExp) and len(ge.generators) == 1 and len(ge.generators[0].ifs) == 1:
                g = ge.generators[0]
                it = g.iter
                if isinstance(it, ast.Call) and isinstance(it.func, ast.Attribute) and it.func.attr == "items" and not it.args and isinstance(g.target, ast.Tuple) and len(g.target.elts) == 2 and all(isinstance(e, ast.Name) for e in g.target.elts):
                    kv, vv = g.target.elts[0].id, g.target.elts[1].id  # type: ignore[attr-defined]
                    if isinstance(ge.elt, ast.Name) and ge.elt.id == kv:
                        params = [a.arg for a in fn.node.args.args]  # type: ignore[attr-defined]
                        if fn.cls is not None and params and params[0] in ("self", "cls"):
                            params = params[1:]
                        table = it.func.value
                        tpi = params.index(table.id) if isinstance(table, ast.Name) and table.id in params else None
                        used = {n.id for n in ast.walk(g.ifs[0]) if isinstance(n, ast.Name)}
                        vpi = next((i for i, p in enumerate(params) if p in used and i != tpi), None)
                        if vv in used:
                            pseudo_if = ast.copy_location(ast.If(test=g.ifs[0], body=[ast.Return(value=ge.elt)], orelse=[]), ge)
                            pseudo_for = ast.copy_location(ast.For(target=g.target, iter=it, body=[pseudo_if], orelse=[]), ge)
                            return ReverseLookup(fn, pseudo_for, pseudo_if, table, kv, vv, tpi, vpi)
        return None
    if len(loops) != 1:
        return None
    lp = loops[0]
    it = lp.iter
    if isinstance(it, ast.Call) and isinstance(it.func, ast.Name) and it.func.id == "reversed" and it.args:
        it = it.args[0]
    if not (isinstance(it, ast.Call) and isinstance(it.func, ast.Attribute) and it.func.attr == "items" and not it.args):
        return None
    if not (isinstance(lp.target, ast.Tuple) and len(lp.target.elts) == 2 and all(isinstance(e, ast.Name) for e in lp.target.elts)):
        return None
    kv, vv = lp.target.elts[0].id, lp.target.elts[1].id  # type: ignore[attr-defined]
    ifs = [s for s in lp.body if isinstance(s, ast.If)]
    if len(ifs) != 1 or not ifs[0].body or not isinstance(ifs[0].body[-1], ast.Return):
        return None
    rv = ifs[0].body[-1].value
    if not (isinstance(rv, ast.Name) and rv.id == kv):
        return None
    params = [a.arg for a in fn.node.args.args]  # type: ignore[attr-defined]
    if fn.cls is not None and params and params[0] in ("self", "cls") and not getattr(fn, "is_static", False):
        params = params[1:]
    table = it.func.value
    tpi = params.index(table.id) if isinstance(table, ast.Name) and table.id in params else None
    used = {n.id for n in ast.walk(ifs[0].test) if isinstance(n, ast.Name)}
    vpi = next((i for i, p in enumerate(params) if p in used and i != tpi), None)
    if vv not in used:
        return None
    return ReverseLookup(fn, lp, ifs[0], table, kv, vv, tpi, vpi)


def reverse_lookup_call(prog: Program, caller: FunctionInfo, e: ast.AST) -> Optional[Tuple[ReverseLookup, Optional[ast.AST], Optional[ast.AST]]]:
    """(recognised function, table argument, value argument) when e calls a reverse-lookup function"""
    if not isinstance(e, ast.Call):
        return None
    nm = (A.dotted(e.func) or "").split(".")[-1]
    if not nm:
        return None
    cands = [f for f in prog.functions if f.name == nm]
    # prefer the definition visible from the caller: nested in the caller, then same module
    cands.sort(key=lambda f: (0 if f.parent_fn is caller else 1 if f.module is caller.module else 2))
    for f in cands:
        r = as_reverse_lookup(f)
        if r is None:
            continue

        def arg(i: Optional[int]) -> Optional[ast.AST]:
            if i is None:
                return None
            params = [a.arg for a in f.node.args.args]  # type: ignore[attr-defined]
            if f.cls is not None and params and params[0] in ("self", "cls") and not getattr(f, "is_static", False):
                params = params[1:]
            if i < len(e.args):
                return e.args[i]
            for k_ in e.keywords:
                if k_.arg == params[i]:
                    return k_.value
            return None

        return r, arg(r.table_param), arg(r.value_param)
    return None


def see_through(ctx, fn: FunctionInfo, e: Optional[ast.AST], depth: int = 3) -> Optional[ast.AST]:
    """the defining expression of a local that has exactly one reaching definition at its use (a
    temporary introduced for readability): `name = str(index); Block(name=name)` reads as
    `Block(name=str(index))`.  Anything else is returned unchanged."""
    while depth > 0 and isinstance(e, ast.Name):
        ds = [d for d in ctx.cfg(fn).reaching_defs(e) if d.stmt is not None]
        every = ctx.cfg(fn).reaching_defs(e)
        if len(every) == 1 and len(ds) == 1 and isinstance(ds[0].stmt, (ast.Assign, ast.AnnAssign)) and ds[0].stmt.value is not None:
            tg = ds[0].stmt.targets[0] if isinstance(ds[0].stmt, ast.Assign) else ds[0].stmt.target
            if isinstance(tg, ast.Name) and (not isinstance(ds[0].stmt, ast.Assign) or len(ds[0].stmt.targets) == 1):
                e = ds[0].stmt.value
                depth -= 1
                continue
        break
    return e


def expand_aliases(ctx, fn: FunctionInfo, e: ast.AST, depth: int = 2) -> ast.AST:
    """a copy of e in which every local that is bound exactly once to a pure selector expression
    (attribute / subscript chain: `last = block.tree[-1]`) is replaced by that expression"""
    import copy as _copy

    def pure(x: ast.AST) -> bool:
        if isinstance(x, ast.Name):
            return True
        if isinstance(x, ast.Attribute):
            return pure(x.value)
        if isinstance(x, ast.Subscript):
            return pure(x.value) and isinstance(x.slice, (ast.Constant, ast.Name, ast.UnaryOp))
        return False

    class T(ast.NodeTransformer):
        def visit_Name(self, n: ast.Name) -> ast.AST:
            if isinstance(n.ctx, ast.Load):
                v = see_through(ctx, fn, n, depth=1)
                if v is not None and v is not n and not isinstance(v, ast.Name) and pure(v):
                    return _copy.deepcopy(v)
            return n

    # the original node keeps its parent links: look names up there, rewrite a copy
    out = e
    for _ in range(depth):
        names = [x for x in ast.walk(out) if isinstance(x, ast.Name)]
        repl = {}
        for x in names:
            if isinstance(x.ctx, ast.Load) and getattr(x, "_parent", None) is not None:
                v = see_through(ctx, fn, x, depth=1)
                if v is not None and v is not x and not isinstance(v, ast.Name) and pure(v):
                    repl[x.id] = v
        if not repl:
            break

        class R(ast.NodeTransformer):
            def visit_Name(self, n: ast.Name) -> ast.AST:
                if isinstance(n.ctx, ast.Load) and n.id in repl:
                    return repl[n.id]
                return n

        new = R().visit(_copy.deepcopy(out) if False else _shallow_copy(out))
        out = new
    return out


def _shallow_copy(e: ast.AST) -> ast.AST:
    """structural copy that keeps leaf nodes shared (so that parent links of the originals stay usable)"""
    if not isinstance(e, ast.AST):
        return e
    if isinstance(e, ast.Name):
        return e
    new = type(e)()
    for f, v in ast.iter_fields(e):
        if isinstance(v, list):
            setattr(new, f, [_shallow_copy(x) for x in v])
        else:
            setattr(new, f, _shallow_copy(v) if isinstance(v, ast.AST) else v)
    for a in ("lineno", "col_offset", "end_lineno", "end_col_offset"):
        if hasattr(e, a):
            setattr(new, a, getattr(e, a))
    return new


def _deep_clone(e):
    """copy of an AST without the parent links the model adds (copy.deepcopy would follow them)"""
    if isinstance(e, list):
        return [_deep_clone(x) for x in e]
    if not isinstance(e, ast.AST):
        return e
    new = type(e)()
    for f, v in ast.iter_fields(e):
        setattr(new, f, _deep_clone(v))
    for a in ("lineno", "col_offset", "end_lineno", "end_col_offset"):
        if hasattr(e, a):
            setattr(new, a, getattr(e, a))
    return new


_EXPANDED: Dict[int, tuple] = {}
_LOOPFORM: Dict[int, tuple] = {}


def loop_form(fn: FunctionInfo) -> FunctionInfo:
    """A private copy of the function (same qualified name, for reports) in which a container built by a
    comprehension is built by the loop it abbreviates:
        X = {E for T in IT if C}      ->  X = set(); for T in IT: if C: X.add(E)
        X = [E for ..]                ->  X = [];    ..  X.append(E)
        X = {K: V for ..}             ->  X = {};    ..  X[K] = V
        X = {..comp..} | {..comp..}   ->  X = {};    one loop after the other (dict merge, later wins)
    For the rules that recognise an algorithm by the loops that fill its tables.  Parent links are set on
    the copy; the control-flow graph of the original must not be consulted through the copy."""
    key = id(fn.node)
    if key in _LOOPFORM and _LOOPFORM[key][0] is fn.node:
        return _LOOPFORM[key][1]
    node = _deep_clone(fn.node)

    def comps_of(v):
        if isinstance(v, (ast.SetComp, ast.ListComp, ast.DictComp)):
            return [v]
        if isinstance(v, ast.BinOp) and isinstance(v.op, ast.BitOr):
            l_, r_ = comps_of(v.left), comps_of(v.right)
            if l_ and r_ and all(isinstance(c, ast.DictComp) for c in l_ + r_):
                return l_ + r_
        return []

    def loops_for(name: str, c) -> ast.stmt:
        if isinstance(c, ast.DictComp):
            leaf: ast.stmt = ast.Assign(targets=[ast.Subscript(value=ast.Name(id=name, ctx=ast.Load()), slice=c.key, ctx=ast.Store())], value=c.value, lineno=c.lineno)
        else:
            leaf = ast.Expr(value=ast.Call(func=ast.Attribute(value=ast.Name(id=name, ctx=ast.Load()), attr="add" if isinstance(c, ast.SetComp) else "append", ctx=ast.Load()), args=[c.elt], keywords=[]))
        body = [leaf]
        for g in reversed(c.generators):
            if g.ifs:
                body = [ast.If(test=g.ifs[0] if len(g.ifs) == 1 else ast.BoolOp(op=ast.And(), values=list(g.ifs)), body=body, orelse=[])]
            tg = _deep_clone(g.target)
            for n_ in ast.walk(tg):
                if hasattr(n_, "ctx"):
                    n_.ctx = ast.Store()
            body = [ast.For(target=tg, iter=g.iter, body=body, orelse=[])]
        return body[0]

    dict_names = {st.targets[0].id for st in ast.walk(node) if isinstance(st, ast.Assign) and len(st.targets) == 1 and isinstance(st.targets[0], ast.Name) and (isinstance(st.value, (ast.Dict, ast.DictComp)) or comps_of(st.value) and isinstance(comps_of(st.value)[0], ast.DictComp))}
    for holder in list(ast.walk(node)):
        for fld in ("body", "orelse", "finalbody"):
            seq = getattr(holder, fld, None)
            if not (isinstance(seq, list) and seq and isinstance(seq[0], ast.stmt)):
                continue
            i = 0
            while i < len(seq):
                st = seq[i]
                # D.update((k, v) for ..) on a local dict   ->   for ..: D[k] = v
                if isinstance(st, ast.Expr) and isinstance(st.value, ast.Call) and isinstance(st.value.func, ast.Attribute) and st.value.func.attr == "update" and isinstance(st.value.func.value, ast.Name) and st.value.func.value.id in dict_names and len(st.value.args) == 1 and not st.value.keywords:
                    g0 = st.value.args[0]
                    if isinstance(g0, (ast.GeneratorExp, ast.ListComp)) and isinstance(g0.elt, (ast.Tuple, ast.List)) and len(g0.elt.elts) == 2 and not any(g.is_async for g in g0.generators):
                        dc = ast.DictComp(key=g0.elt.elts[0], value=g0.elt.elts[1], generators=g0.generators)
                        ast.copy_location(dc, g0)
                        new1 = loops_for(st.value.func.value.id, dc)
                        ast.copy_location(new1, st)
                        ast.fix_missing_locations(new1)
                        seq[i] = new1
                        i += 1
                        continue
                if isinstance(st, ast.Assign) and len(st.targets) == 1 and isinstance(st.targets[0], ast.Name):
                    cs = comps_of(st.value)
                    nm = st.targets[0].id
                    if cs and not any(g.is_async for c in cs for g in c.generators) and not any(isinstance(x, ast.Name) and x.id == nm for c in cs for x in ast.walk(c)):
                        kind = cs[0]
                        init = ast.Call(func=ast.Name(id="set", ctx=ast.Load()), args=[], keywords=[]) if isinstance(kind, ast.SetComp) else (ast.List(elts=[], ctx=ast.Load()) if isinstance(kind, ast.ListComp) else ast.Dict(keys=[], values=[]))
                        new = [ast.Assign(targets=[ast.Name(id=nm, ctx=ast.Store())], value=init, lineno=st.lineno)] + [loops_for(nm, c) for c in cs]
                        for x in new:
                            ast.copy_location(x, st)
                            ast.fix_missing_locations(x)
                        seq[i:i + 1] = new
                        i += len(new)
                        continue
                i += 1
    A.set_parents(node)
    import dataclasses as _dc

    out = _dc.replace(fn, node=node)
    _LOOPFORM[key] = (fn.node, out)
    return out


def read_through_field_aliases(prog, fn_node: ast.AST) -> ast.AST:
    """A private copy of the function in which a local that was handed to a dataclass constructor as the value of
    a field is read, after that statement, as the field of the constructed object:
        g = SCFG(..); r = RegionBlock(.., subregion=g, ..); object.__setattr__(g, "region", r)
            ->  .. object.__setattr__(r.subregion, "region", r)
    Both locals are bound once in the function; the class is a dataclass of the package that has the field."""
    node = _deep_clone(fn_node)
    stores: Dict[str, int] = {}
    for n in ast.walk(node):
        if isinstance(n, ast.Name) and isinstance(n.ctx, (ast.Store, ast.Del)):
            stores[n.id] = stores.get(n.id, 0) + 1
    body = getattr(node, "body", [])
    for i, st in enumerate(body):
        if not (isinstance(st, ast.Assign) and len(st.targets) == 1 and isinstance(st.targets[0], ast.Name) and isinstance(st.value, ast.Call)):
            continue
        r = st.targets[0].id
        cname = (A.dotted(st.value.func) or "").split(".")[-1]
        ci = prog.classes.get(cname) if hasattr(prog, "classes") else None
        if ci is None or stores.get(r, 0) != 1:
            continue
        fnames = {f.name for f in ci.fields()}
        for kw in st.value.keywords:
            if kw.arg in fnames and isinstance(kw.value, ast.Name) and stores.get(kw.value.id, 0) == 1:
                alias = kw.value.id

                class _S(ast.NodeTransformer):
                    def visit_Name(self, n: ast.Name):
                        if n.id == alias and isinstance(n.ctx, ast.Load):
                            return ast.copy_location(ast.Attribute(value=ast.Name(id=r, ctx=ast.Load()), attr=kw.arg, ctx=ast.Load()), n)
                        return n

                for j in range(i + 1, len(body)):
                    body[j] = _S().visit(body[j])
    ast.fix_missing_locations(node)
    A.set_parents(node)
    return node


def expanded_function(fn: FunctionInfo) -> ast.AST:
    """A private copy of the function in which locals that merely name a selector expression are read
    through: `offset, opname = inst.offset, inst.opname`, `targets = b.jump_targets`, `t = self.table[k]`.
    For rules that compare texts; line numbers are those of the original nodes.  A local qualifies when it
    is bound exactly once, to an attribute / constant-subscript chain (or a tuple of such, unpacked), whose
    root names are themselves bound at most once (parameters, loop variables)."""
    key = id(fn.node)
    if key in _EXPANDED and _EXPANDED[key][0] is fn.node:
        return _EXPANDED[key][1]
    node = _deep_clone(fn.node)
    stores: Dict[str, int] = {}
    decls = {id(n.target) for n in ast.walk(node) if isinstance(n, ast.AnnAssign) and n.value is None}
    for n in ast.walk(node):
        if isinstance(n, ast.Name) and isinstance(n.ctx, (ast.Store, ast.Del)) and id(n) not in decls:
            # (a bare declaration `x: T` binds nothing)
            stores[n.id] = stores.get(n.id, 0) + 1

    def pure(x: ast.AST) -> bool:
        if isinstance(x, ast.Name):
            return True
        if isinstance(x, ast.Attribute):
            return pure(x.value)
        if isinstance(x, ast.Subscript):
            return pure(x.value) and isinstance(x.slice, (ast.Constant, ast.Name)) or (isinstance(x.slice, ast.UnaryOp) and isinstance(x.slice.operand, ast.Constant) and pure(x.value))
        return False

    def roots_ok(x: ast.AST) -> bool:
        return all(stores.get(n.id, 0) <= 1 for n in ast.walk(x) if isinstance(n, ast.Name))

    for _round in range(3):
        repl: Dict[str, ast.AST] = {}
        drop: List[Tuple[list, ast.stmt]] = []
        for holder in ast.walk(node):
            for fld in ("body", "orelse", "finalbody"):
                seq = getattr(holder, fld, None)
                if not (isinstance(seq, list) and seq and isinstance(seq[0], ast.stmt)):
                    continue
                for st in seq:
                    if not (isinstance(st, ast.Assign) and len(st.targets) == 1):
                        continue
                    tg, v = st.targets[0], st.value
                    pairs = []
                    if isinstance(tg, ast.Name) and not isinstance(v, ast.Name) and pure(v):
                        pairs = [(tg.id, v)]
                    elif isinstance(tg, ast.Tuple) and isinstance(v, ast.Tuple) and len(tg.elts) == len(v.elts) and all(isinstance(t_, ast.Name) for t_ in tg.elts) and all(pure(x) and not isinstance(x, ast.Name) for x in v.elts):
                        pairs = [(t_.id, x) for t_, x in zip(tg.elts, v.elts)]
                    # a temporary used once, in the very next statement (`ft = f(x); g(ft, y)`)
                    if not pairs and isinstance(tg, ast.Name) and stores.get(tg.id, 0) == 1 and not isinstance(v, (ast.Name, ast.Constant)):
                        i_ = seq.index(st)
                        uses_all = [n for n in ast.walk(node) if isinstance(n, ast.Name) and n.id == tg.id and isinstance(n.ctx, ast.Load)]
                        if i_ + 1 < len(seq) and len(uses_all) == 1:
                            nxt = seq[i_ + 1]
                            hdr = [nxt] if not isinstance(nxt, (ast.If, ast.For, ast.While, ast.With, ast.Try)) else [getattr(nxt, "test", None) or getattr(nxt, "iter", None)]
                            if any(h is not None and any(u is uses_all[0] for u in ast.walk(h)) for h in hdr) and not any(isinstance(x, (ast.Lambda, ast.ListComp, ast.SetComp, ast.DictComp, ast.GeneratorExp)) and any(u is uses_all[0] for u in ast.walk(x)) for h in hdr if h is not None for x in ast.walk(h)):
                                repl[tg.id] = v
                                drop.append((seq, st))
                                continue
                    if pairs and all(stores.get(nm, 0) == 1 and roots_ok(x) and nm not in {n.id for n in ast.walk(x) if isinstance(n, ast.Name)} for nm, x in pairs):
                        for nm, x in pairs:
                            repl[nm] = x
                        drop.append((seq, st))
        if not repl:
            break

        class R(ast.NodeTransformer):
            depth = 0

            def visit_Name(self, n: ast.Name) -> ast.AST:
                if isinstance(n.ctx, ast.Load) and n.id in repl and self.depth < 4:
                    self.depth += 1
                    new_ = self.visit(_deep_clone(repl[n.id]))  # the value may mention other aliases of this round
                    self.depth -= 1
                    return new_
                return n

        for seq, st in drop:
            if st in seq:
                seq.remove(st)
                if not seq:
                    seq.append(ast.copy_location(ast.Pass(), st))
        node = R().visit(node)
        for nm in repl:
            stores[nm] = 0
    A.set_parents(node)
    _EXPANDED[key] = (fn.node, node)  # the original is kept alive: its id cannot be re-used by another tree
    return node
