"""Engine STORE - discipline of the block store (DESIGN 5.3).

An edge u->v is stored in up to five places (u._jump_targets, u.backedges,
u.branch_value_table, the _jump_targets of every region whose exiting block is
u, and header/exiting/parent pointers).  These rules check that every writer
keeps the copies in step."""
from __future__ import annotations

import ast
from typing import Dict, List, Optional, Set, Tuple

from .. import astutil as A
from ..model import AnalysisError, FunctionInfo
from ..report import Ob, bad, ok, unresolved
from ..types import members, strip_none
from . import rule
from ..domains import _class_names
from .common import block_classes, constructor_sites, kw, method_calls, prog_is_sub

STRUCTURAL_TUPLE_FIELDS = {"_jump_targets", "backedges", "branch_value_table"}
POINTER_FIELDS = {"header", "exiting", "region", "parent_region"}
RETARGET = ("replace_jump_targets", "replace_backedges", "declare_backedge")
LIST_MUTATORS = {"pop", "remove", "append", "insert", "extend", "sort", "reverse", "clear"}


def _owner_modules(ctx):
    return (ctx.prog.module("scfg"), ctx.prog.module("transformations"))


def _core_functions(ctx) -> List[FunctionInfo]:
    """functions of scfg.py (SCFG class and module level, not the reader/writer) and transformations.py"""
    scfg_m, tr_m = _owner_modules(ctx)
    out = []
    for f in ctx.prog.functions:
        if f.module is tr_m:
            out.append(f)
        elif f.module is scfg_m:
            top = f.qualname.split(".")[0]
            if top not in ("SCFGIO", "NameGenerator", "AbstractGraphView", "ConcealedRegionView"):
                out.append(f)
    return out


# ------------------------------------------------------------------ STORE-1


def _fresh_own_region(ctx, fn, target: ast.AST) -> bool:
    """target is `<g>.region` where g is bound, in this function, to a freshly constructed SCFG(...)"""
    if not (isinstance(target, ast.Attribute) and target.attr == "region" and isinstance(target.value, ast.Name)):
        return False
    ds = [d for d in ctx.cfg(fn).reaching_defs(target.value) if d.stmt is not None]
    return bool(ds) and all(isinstance(d.stmt, ast.Assign) and isinstance(d.stmt.value, ast.Call) and (A.dotted(d.stmt.value.func) or "").split(".")[-1] == "SCFG" for d in ds)


@rule("STORE-1", 6, "frozen blocks are written only through the block API: no replace()/__setattr__ of payload fields anywhere, none of edge fields outside basic_block.py")
def store1(ctx) -> List[Ob]:
    out: List[Ob] = []
    prog = ctx.prog
    bbmod = prog.module("basic_block")
    block_names_ = {c.name for c in block_classes(prog)}
    all_fields = set()
    for c in block_classes(prog):
        all_fields |= {f.name for f in c.fields()}
    for fn in prog.functions:
        for c in A.walk_no_nested(fn.node):
            if not isinstance(c, ast.Call):
                continue
            d = A.dotted(c.func) or ""
            last = d.split(".")[-1]
            fields: List[str] = []
            target = None
            if last == "replace" and (d in ("replace", "dataclasses.replace")) and c.args:
                tt = ctx.type_of(fn, c.args[0])
                if not any(m[0] == "cls" and m[1] in block_names_ for m in members(strip_none(tt))):
                    continue
                fields = [k.arg for k in c.keywords if k.arg]
                target = c.args[0]
            elif d in ("object.__setattr__", "setattr") and len(c.args) == 3:
                if isinstance(c.args[1], ast.Constant) and isinstance(c.args[1].value, str):
                    fields = [c.args[1].value]
                else:
                    tt0 = ctx.type_of(fn, c.args[0])
                    may_block = any(m[0] == "cls" and (m[1] in block_names_ or m[1] in ("SCFG",)) for m in members(strip_none(tt0))) or (tt0 == ("any",) and fn.module in _owner_modules(ctx))
                    if may_block:
                        out.append(unresolved("STORE-1", fn.qualname, A.alpha_key(c), ctx.where(fn, c), "setattr with a computed attribute name on a value that may be a block"))
                    continue
                target = c.args[0]
            else:
                continue
            key = A.alpha_key(c)
            where = ctx.where(fn, c)
            in_api = fn.module is bbmod and fn.cls is not None and fn.cls.name in block_names_
            for f in fields:
                if f in STRUCTURAL_TUPLE_FIELDS:
                    if in_api:
                        out.append(ok("STORE-1", fn.qualname, key, where, f"edge field '{f}' written inside the block API"))
                    else:
                        out.append(bad("STORE-1", fn.qualname, key, where, f"edge field '{f}' of a frozen block is written outside the block API (basic_block.py): bypasses table maintenance and the replace_* contract"))
                elif f in POINTER_FIELDS:
                    if in_api or fn.module in _owner_modules(ctx):
                        out.append(ok("STORE-1", fn.qualname, key, where, f"hierarchy pointer '{f}' written by the module that owns the hierarchy"))
                    else:
                        out.append(bad("STORE-1", fn.qualname, key, where, f"hierarchy pointer '{f}' written outside scfg.py / transformations.py / the block API"))
                elif f in all_fields and _fresh_own_region(ctx, fn, target):
                    out.append(ok("STORE-1", fn.qualname, key, where, f"'{f}' of the region object created by the SCFG(...) constructed in this function (not an input block)"))
                elif f in all_fields:
                    out.append(bad("STORE-1", fn.qualname, key, where, f"payload / identity field '{f}' of a block is overwritten: original blocks must keep their payload untouched"))
                else:
                    out.append(ok("STORE-1", fn.qualname, key, where, f"'{f}' is not a block field", nontrivial=False))
    return out


# ------------------------------------------------------------------ STORE-2


@rule("STORE-2", 8, "restructuring code constructs only synthetic blocks and regions, never a payload-carrying block")
def store2(ctx) -> List[Ob]:
    out: List[Ob] = []
    prog = ctx.prog
    is_sub = prog_is_sub(prog)
    core = set(_core_functions(ctx))
    for fn, node, cls, via in constructor_sites(prog, ctx.typer, block_classes(prog)):
        if fn not in core:
            continue
        key = A.alpha_key(node.func) + "(...)"
        where = ctx.where(fn, node)
        allowed = is_sub(cls.name, "SyntheticBlock") or cls.name == "RegionBlock"
        if via == "direct":
            if allowed:
                out.append(ok("STORE-2", fn.qualname, key, where, f"constructs {cls.name}", nontrivial=False))
            else:
                out.append(bad("STORE-2", fn.qualname, key, where, f"restructuring code constructs a {cls.name}: an input block would be rebuilt (payload lost / duplicated) instead of moved"))
        else:
            # generic block_type(...): the static bound and every library argument must be synthetic
            var = A.dotted(node.func) or "?"
            if not allowed:
                out.append(bad("STORE-2", fn.qualname, key, where, f"generic constructor '{var}' is typed type[{cls.name}], which admits payload-carrying blocks"))
                continue
            params = [a.arg for a in fn.params]
            bad_args = []
            n_sites = 0
            if var in params:
                idx = params.index(var) - (1 if fn.cls is not None and not fn.is_static else 0)
                for site in ctx.cg.call_sites_of(fn):
                    arg = kw(site.node, var, idx)
                    if arg is None:
                        continue
                    n_sites += 1
                    an = (A.dotted(arg) or "").split(".")[-1]
                    if an in prog.classes:
                        if not (is_sub(an, "SyntheticBlock") or an == "RegionBlock"):
                            bad_args.append(f"{site.caller.qualname} passes {an}")
                    elif an != var:
                        bad_args.append(f"{site.caller.qualname} passes {A.unparse(arg)} (not a class name)")
            if bad_args:
                out.append(bad("STORE-2", fn.qualname, key, where, f"'{var}(...)' can build a non-synthetic block: " + "; ".join(bad_args)))
            else:
                out.append(ok("STORE-2", fn.qualname, key, where, f"'{var}' is bounded by type[{cls.name}] and all {n_sites} library call sites pass synthetic classes"))
    return out


# ------------------------------------------------------------------ carriers


def _site_key(call: ast.Call, ctx=None, fn=None) -> str:
    """stable key of a re-targeting call: receiver and method, not the argument text; locals that merely
    name a selector (`latch = backedge_blocks[0]`) are read through, so that naming a sub-expression does
    not change the key"""
    f = call.func
    if ctx is not None and fn is not None:
        try:
            from .common import expand_aliases

            f = expand_aliases(ctx, fn, call.func)
        except Exception:
            f = call.func
    return A.alpha_key(f) + "(...)"


def _assign_parts(stmt):
    """([targets], value) for Assign and for AnnAssign with a value, else None"""
    if isinstance(stmt, ast.Assign):
        return list(stmt.targets), stmt.value
    if isinstance(stmt, ast.AnnAssign) and stmt.value is not None:
        return [stmt.target], stmt.value
    return None


def _graph_pop(node: ast.AST) -> Optional[Tuple[str, str]]:
    """(G text, key text) when node is `G.graph.pop(k)`"""
    if isinstance(node, ast.Call) and isinstance(node.func, ast.Attribute) and node.func.attr == "pop" and node.args:
        recv = node.func.value
        if isinstance(recv, ast.Attribute) and recv.attr == "graph":
            return A.unparse(recv.value), A.unparse(node.args[0])
    return None


def _graph_view(node: ast.AST) -> Optional[Tuple[str, str]]:
    """(G, k) when node is `G.graph[k]` or `G[k]` (a view of the stored block)"""
    if isinstance(node, ast.Subscript) and not isinstance(node.slice, ast.Slice):
        v = node.value
        if isinstance(v, ast.Attribute) and v.attr == "graph":
            return A.unparse(v.value), A.unparse(node.slice)
        if isinstance(v, ast.Name):
            return A.unparse(v), A.unparse(node.slice)
    return None


def _is_store_of(stmt_node, G: str, carriers: Set[str]) -> bool:
    """statement stores a carrier back into graph G (add_block / subscript store)"""
    s = stmt_node.stmt
    if s is None:
        return False
    for n in stmt_node.walk():
        if isinstance(n, ast.Call) and isinstance(n.func, ast.Attribute) and n.func.attr == "add_block" and A.unparse(n.func.value) == G and n.args:
            if A.names_in(n.args[0]) & carriers or _graph_pop(_innermost_receiver(n.args[0])) is not None:
                return True
    if isinstance(s, ast.Assign):
        for t in s.targets:
            if isinstance(t, ast.Subscript):
                base = t.value
                bt = A.unparse(base)
                if bt in (G + ".graph", G) and A.names_in(s.value) & carriers:
                    return True
    return False


def _innermost_receiver(e: ast.AST) -> ast.AST:
    while isinstance(e, ast.Call) and isinstance(e.func, ast.Attribute) and e.func.attr in RETARGET:
        e = e.func.value
    return e


def _carrier_names(fn_node: ast.AST, first: str) -> Set[str]:
    """names the popped block may travel under: re-bindings from expressions mentioning a carrier"""
    carriers = {first}
    changed = True
    while changed:
        changed = False
        for s in A.walk_no_nested(fn_node):
            ap = _assign_parts(s)
            if ap is not None and A.names_in(ap[1]) & carriers:
                # x = carrier.method(...), x = f(carrier, ...)
                v = ap[1]
                ok_form = isinstance(v, ast.Name) or (isinstance(v, ast.Call) and ((isinstance(v.func, ast.Attribute) and A.names_in(v.func.value) & carriers) or any(isinstance(a, ast.Name) and a.id in carriers for a in v.args)))
                if ok_form:
                    for t in ap[0]:
                        if isinstance(t, ast.Name) and t.id not in carriers:
                            carriers.add(t.id)
                            changed = True
    return carriers


@rule("STORE-3", 7, "every block popped from a graph is stored back into the same graph on every path; blocks are deleted only after being moved, as the same objects, into a sub-graph")
def store3(ctx) -> List[Ob]:
    out: List[Ob] = []
    for fn in _core_functions(ctx):
        cfg = ctx.cfg(fn)
        for c in A.walk_no_nested(fn.node):
            gp = _graph_pop(c) if isinstance(c, ast.Call) else None
            if gp is None:
                continue
            G, k = gp
            key = A.alpha_key(A.enclosing_stmt(c) or c)
            where = ctx.where(fn, c)
            stmt = A.enclosing_stmt(c)
            n = cfg.node_of(c)
            if n is None:
                out.append(unresolved("STORE-3", fn.qualname, key, where, "pop site not found in the CFG"))
                continue
            # (a) chained: the pop is (a receiver inside) the argument of add_block in the same statement
            if _is_store_of(n, G, set()) or (isinstance(stmt, ast.Expr) and _is_store_of(n, G, {"<none>"})):
                out.append(ok("STORE-3", fn.qualname, key, where, f"popped block re-added to {G} in the same statement"))
                continue
            ap = _assign_parts(stmt)
            if not (ap is not None and len(ap[0]) == 1 and isinstance(ap[0][0], ast.Name)):
                out.append(bad("STORE-3", fn.qualname, key, where, f"block popped from {G}.graph is neither bound to a name nor re-added in the same statement: it is dropped"))
                continue
            carriers = _carrier_names(fn.node, ap[0][0].id)
            store = lambda x: _is_store_of(x, G, carriers)  # noqa: E731
            # every path from the pop to the normal exit, and back to the pop itself (next
            # iteration), passes a store of a carrier into the same graph
            reach = cfg.reachable(n, avoid=store)
            leaks = []
            if cfg.exit in reach:
                leaks.append("function exit")
            if n in reach:
                leaks.append("the next iteration (pop again)")
            if leaks:
                # a path witness: first statement after which no store follows
                wit = sorted((x.lineno for x in reach if x.stmt is not None and isinstance(x.stmt, (ast.Continue, ast.Return, ast.Break))), key=int)
                out.append(bad("STORE-3", fn.qualname, key, where,
                               f"block popped from {G}.graph can reach {' and '.join(leaks)} without being stored back: the block is lost",
                               [f"carriers: {sorted(carriers)}"] + ([f"escaping path passes line {wit[0]}"] if wit else [])))
            else:
                out.append(ok("STORE-3", fn.qualname, key, where, f"carrier {sorted(carriers)} stored back into {G} on every path"))
        # deletion confinement
        for c in A.walk_no_nested(fn.node):
            is_rm = isinstance(c, ast.Call) and isinstance(c.func, ast.Attribute) and c.func.attr == "remove_blocks"
            is_del = isinstance(c, ast.Delete) and any(isinstance(t, ast.Subscript) and A.unparse(t.value).endswith(".graph") for t in c.targets)
            if not (is_rm or is_del):
                continue
            if fn.name == "remove_blocks":
                continue  # the primitive itself
            key = A.alpha_key(c)
            where = ctx.where(fn, c)
            if is_del:
                out.append(bad("STORE-3", fn.qualname, key, where, "blocks are deleted from a graph directly"))
                continue
            G = A.unparse(c.func.value)
            S = A.unparse(c.args[0]) if c.args else "?"
            n = cfg.node_of(c)
            moved = None
            for d in A.walk_no_nested(fn.node):
                if isinstance(d, ast.DictComp) and len(d.generators) == 1:
                    g = d.generators[0]
                    if S in A.unparse(g.iter) and isinstance(g.target, ast.Name):
                        v = _graph_view(d.value)
                        if v is not None and v[0] == G and v[1] == g.target.id and A.unparse(d.key) == g.target.id:
                            dn = cfg.node_of(d)
                            par = A.parent(d)
                            into_scfg = isinstance(par, ast.Call) and (A.dotted(par.func) or "").split(".")[-1] == "SCFG"
                            if dn is not None and n is not None and cfg.dominates(dn, n) and into_scfg:
                                moved = d
            if moved is not None:
                out.append(ok("STORE-3", fn.qualname, key, where, f"removes exactly the blocks {S} that were moved, as the same objects {G}.graph[name], into a sub-SCFG before"))
            else:
                out.append(bad("STORE-3", fn.qualname, key, where, f"{G}.remove_blocks({S}) is not preceded by moving the very same block objects of {S} into a sub-graph: blocks are deleted (or were copied instead of moved)"))
    return out


# ------------------------------------------------------------------ STORE-4/5


class Retarget:
    """one replace_jump_targets / replace_backedges call outside basic_block.py"""

    def __init__(self, ctx, fn: FunctionInfo, call: ast.Call) -> None:
        self.ctx = ctx
        self.ctx = ctx
        self.fn = fn
        self.call = call
        self.cfg = ctx.cfg(fn)
        self.method = call.func.attr  # type: ignore[attr-defined]
        self.arg = kw(call, "jump_targets", 0) or kw(call, "backedges", 0)
        self.recv = call.func.value  # type: ignore[attr-defined]
        self.node = self.cfg.node_of(call)
        self.L: Optional[str] = None
        self.Ldef = None  # cfg node of `L = list(B.attr)`
        self.src_block: Optional[ast.AST] = None
        self.src_attr: Optional[str] = None
        self.problems: List[str] = []
        self._resolve()

    def _resolve(self) -> None:
        a = self.arg
        if isinstance(a, ast.Name):
            # new_targets = tuple(L); x.replace_jump_targets(new_targets)
            defs = [d for d in self.cfg.reaching_defs(self.call, a.id)]
            if len(defs) == 1 and defs[0].stmt is not None and _assign_parts(defs[0].stmt) is not None:
                a = _assign_parts(defs[0].stmt)[1]
            elif len(defs) > 1 and all(d.stmt is not None and _assign_parts(d.stmt) is not None for d in defs) and len({A.unparse(_assign_parts(d.stmt)[1]) for d in defs}) == 1:
                # the same expression on every path (`r = tuple(L)` at the end of each arm)
                a = _assign_parts(defs[0].stmt)[1]
        self.more: List[str] = []  # further carriers, one per arm (`r = tuple(L1)` / `r = tuple(L2)`)
        if isinstance(a, ast.Name):
            defs_ = [d for d in self.cfg.reaching_defs(self.call, a.id)]
            vals_ = [_assign_parts(d.stmt)[1] for d in defs_ if d.stmt is not None and _assign_parts(d.stmt) is not None]
            if len(defs_) > 1 and len(vals_) == len(defs_) and all(isinstance(v, ast.Call) and isinstance(v.func, ast.Name) and v.func.id == "tuple" and len(v.args) == 1 and isinstance(v.args[0], ast.Name) for v in vals_):
                # every arm ends with r = tuple(<its own list copy>): all the copies must come from the same tuple of
                # the same block; the first one is analysed in full, the others contribute their mutations
                srcs = set()
                for v in vals_:
                    ds = [d for d in self.cfg.nodes if d.stmt is not None and _assign_parts(d.stmt) is not None and any(isinstance(t, ast.Name) and t.id == v.args[0].id for t in (_assign_parts(d.stmt)[0] or []))]
                    for d in ds:
                        vv = _assign_parts(d.stmt)[1]
                        if isinstance(vv, ast.Call) and isinstance(vv.func, ast.Name) and vv.func.id == "list" and len(vv.args) == 1:
                            srcs.add(A.unparse(vv.args[0]))
                if len(srcs) == 1:
                    a = vals_[0]
                    self.more = [v.args[0].id for v in vals_[1:]]
        if isinstance(a, ast.Call) and isinstance(a.func, ast.Name) and a.func.id == "tuple" and len(a.args) == 1 and isinstance(a.args[0], ast.Name):
            self.L = a.args[0].id
            defs = [d for d in self.cfg.reaching_defs(defs_[0].stmt if self.more else self.call, self.L)]
            real = [d for d in defs if d.stmt is not None]
            if len(real) != 1 or len(defs) != 1:
                self.problems.append(f"list {self.L} has {len(defs)} reaching definitions")
                return
            d = real[0]
            ap = _assign_parts(d.stmt)
            v = ap[1] if ap else None
            # list(<alias>) with `<alias> = <block>.<targets>` bound once just before: read through the alias
            if isinstance(v, ast.Call) and isinstance(v.func, ast.Name) and v.func.id == "list" and len(v.args) == 1 and isinstance(v.args[0], ast.Name):
                from .common import see_through

                src_ = see_through(self.ctx, self.fn, v.args[0])
                if isinstance(src_, ast.Attribute):
                    v = ast.copy_location(ast.Call(func=v.func, args=[src_], keywords=[]), v)
            if isinstance(v, ast.Call) and isinstance(v.func, ast.Name) and v.func.id == "list" and len(v.args) == 1 and isinstance(v.args[0], ast.Attribute):
                self.Ldef = d
                self.src_block = v.args[0].value
                self.src_attr = v.args[0].attr
            elif v is not None and _comp_rename(v) is not None:
                cr = _comp_rename(v)
                self.Ldef = d
                self.src_block = cr[0]
                self.src_attr = cr[1]
            else:
                self.problems.append(f"{self.L} is not initialised as list(<block>.<targets>)")
        elif _comp_rename(a) is not None:
            cr = _comp_rename(a)
            self.L = "<comprehension>"
            self.Ldef = self.node
            self.src_block = cr[0]
            self.src_attr = cr[1]
        else:
            self.problems.append("argument is not tuple(<list copy>)")

    def block_identity(self, e: ast.AST, at: ast.AST) -> Optional[Tuple[str, str]]:
        """(graph, key) of the block denoted by expression e"""
        e = _innermost_receiver(e)
        gp = _graph_pop(e) if isinstance(e, ast.Call) else None
        if gp:
            return gp
        gv = _graph_view(e)
        if gv:
            return gv
        if isinstance(e, ast.Name):
            ids = set()
            seen = set()
            work = [(e.id, at)]
            while work:
                nm, site = work.pop()
                for d in self.cfg.reaching_defs(site, nm):
                    if d.stmt is None or id(d) in seen:
                        if d.stmt is None:
                            ids.add(("<param>", nm))
                        continue
                    seen.add(id(d))
                    if _assign_parts(d.stmt) is not None:
                        v = _innermost_receiver(_assign_parts(d.stmt)[1])
                        if isinstance(v, ast.Call) and not _graph_pop(v) and isinstance(v.func, ast.Name) and v.args and isinstance(v.args[0], ast.Name):
                            # x = update_exiting(x, ...)
                            work.append((v.args[0].id, d.stmt))
                            continue
                        r = (_graph_pop(v) if isinstance(v, ast.Call) else None) or _graph_view(v)
                        if r:
                            ids.add(r)
                        elif isinstance(v, ast.Name):
                            work.append((v.id, d.stmt))
                        else:
                            ids.add(("<expr>", A.unparse(v)[:40]))
                    elif isinstance(d.stmt, ast.For):
                        ids.add(("<loopvar>", nm))
            if len(ids) == 1:
                return next(iter(ids))
            if len(ids) > 1:
                return ("<several>", ",".join(sorted(str(i) for i in ids)))
        return None

    def mutations(self) -> List[Tuple[ast.AST, str]]:
        """(statement, kind) for every mutation of L in the function"""
        out = []
        if self.L is None:
            return out
        names_ = {self.L} | set(getattr(self, "more", []))
        for s in A.walk_no_nested(self.fn.node):
            if isinstance(s, ast.Assign):
                for t in s.targets:
                    if isinstance(t, ast.Subscript) and isinstance(t.value, ast.Name) and t.value.id in names_:
                        out.append((s, "slice-store" if isinstance(t.slice, ast.Slice) else "store"))
            elif isinstance(s, ast.AugAssign) and isinstance(s.target, ast.Name) and s.target.id in names_:
                out.append((s, "augassign"))
            elif isinstance(s, ast.Delete):
                for t in s.targets:
                    if isinstance(t, ast.Subscript) and isinstance(t.value, ast.Name) and t.value.id in names_:
                        out.append((s, "del"))
            elif isinstance(s, ast.Call) and isinstance(s.func, ast.Attribute) and isinstance(s.func.value, ast.Name) and s.func.value.id in names_ and s.func.attr in LIST_MUTATORS:
                out.append((s, s.func.attr))
        return out

    def relevant(self, stmt: ast.AST) -> bool:
        """the mutation can execute between L's definition and this call"""
        n = self.cfg.node_of(stmt)
        if n is None or self.Ldef is None or self.node is None:
            return True
        if getattr(self, "more", None):
            # several carriers: a mutation is relevant when the call is reachable from it
            return self.node in self.cfg.reachable(n) or n is self.node
        after_def = n in self.cfg.reachable(self.Ldef, avoid=lambda x: x is self.Ldef)
        before_call = self.node in self.cfg.reachable(n, avoid=lambda x: x is self.Ldef) or n is self.node
        return after_def and before_call


def _retargets(ctx) -> List[Retarget]:
    out = []
    bbmod = ctx.prog.module("basic_block")
    for fn in ctx.prog.functions:
        if fn.module is bbmod:
            continue
        if fn.module not in _owner_modules(ctx) and not fn.module.name.endswith("ast_transforms"):
            continue
        for c in method_calls(fn.node, "replace_jump_targets") + method_calls(fn.node, "replace_backedges"):
            out.append(Retarget(ctx, fn, c))
    return out


@rule("STORE-4", 6, "successors are re-targeted positionally: the new tuple is the block's own tuple with elements overwritten in place (same arity, same positions)")
def store4(ctx) -> List[Ob]:
    out: List[Ob] = []
    for rt in _retargets(ctx):
        fn, c = rt.fn, rt.call
        key = _site_key(c, ctx, fn)
        where = ctx.where(fn, c)
        if rt.problems:
            # an element-wise comprehension over the block's own tuple is positional too
            a = rt.arg
            comp = a.args[0] if isinstance(a, ast.Call) and isinstance(a.func, ast.Name) and a.func.id == "tuple" and a.args else a
            if isinstance(comp, (ast.GeneratorExp, ast.ListComp)) and len(comp.generators) == 1 and not comp.generators[0].ifs and isinstance(comp.generators[0].iter, ast.Attribute) and comp.generators[0].iter.attr in ("_jump_targets", "jump_targets", "backedges"):
                out.append(ok("STORE-4", fn.qualname, key, where, "element-wise comprehension over the block's own tuple"))
            else:
                out.append(bad("STORE-4", fn.qualname, key, where, f"the new target tuple is not derived positionally from the block's own tuple: {rt.problems[0]}"))
            continue
        # same block?
        rid = rt.block_identity(rt.recv, c)
        sid = rt.block_identity(rt.src_block, rt.Ldef.stmt)
        if rid is None or sid is None or rid != sid:
            out.append(bad("STORE-4", fn.qualname, key + " :: source", where,
                           f"the list {rt.L} is copied from block {sid} but written to block {rid}: targets of one block given to another"))
        else:
            out.append(ok("STORE-4", fn.qualname, key + " :: source", where, f"{rt.L} copied from and written to the same block {rid}", nontrivial=True))
        # the copy must be of the stored tuple, not of the filtered view, unless the field written is the same view
        want = {"replace_jump_targets": "_jump_targets", "replace_backedges": "backedges"}[rt.method]
        vkey = key + " :: view"
        if rt.src_attr == want:
            out.append(ok("STORE-4", fn.qualname, vkey, where, f"copy of the stored tuple '{want}'", nontrivial=False))
        elif rt.src_attr == "jump_targets" and want == "_jump_targets":
            out.append(bad("STORE-4", fn.qualname, vkey, where,
                           f"{rt.L} is a copy of the filtered view '.jump_targets' (declared back edges removed) but is written back as the full '_jump_targets': a block with a declared back edge loses that successor"))
        else:
            out.append(bad("STORE-4", fn.qualname, vkey, where, f"{rt.L} is copied from '.{rt.src_attr}' but written as '{want}'"))
        # mutations between the copy and the call
        for stmt, kind in rt.mutations():
            if not rt.relevant(stmt):
                continue
            from .ctrl import _guard_conditions

            # `if S:` around `for x in S:` adds nothing for what is inside the loop (an empty S runs no iteration)
            loop_iters = {A.unparse(a.iter) for a in A.ancestors(stmt) if isinstance(a, ast.For)}
            gconds = [(t, pol) for t, pol in _guard_conditions(fn.node, stmt) if not (pol and t in loop_iters)]
            gtxt = " & ".join(A.cond_key(t, pol) for t, pol in reversed(gconds[:3]))
            mkey = key + " :: " + A.alpha_key(stmt) + (" under " + gtxt if kind != "store" and gtxt else "")
            mwhere = ctx.where(fn, stmt)
            if kind == "store":
                out.append(ok("STORE-4", fn.qualname, mkey, mwhere, "in-place subscript store keeps arity and positions"))
            else:
                out.append(bad("STORE-4", fn.qualname, mkey, mwhere, f"'{A.unparse(stmt)[:50]}' ({kind}) changes the arity or the positions of the successor list before it is written back"))
    return out


def _admits(ctx, fn, expr: ast.AST, cls_name: str, rt: Optional[Retarget] = None) -> Tuple[bool, str]:
    """the static type of expr admits an instance of cls_name"""
    prog = ctx.prog
    e = _innermost_receiver(expr)
    if isinstance(e, ast.Call) and _graph_pop(e):
        return True, "BasicBlock (popped from a graph)"
    t = ctx.type_of(fn, e)
    target = prog.cls(cls_name)
    hits = []
    for m in members(strip_none(t)):
        if m[0] == "cls" and m[1] in prog.classes:
            c = prog.classes[m[1]]
            if target.is_subclass_of(c) or c.is_subclass_of(target):
                hits.append(c.name)
        elif m[0] == "any":
            hits.append("unknown")
    return bool(hits), ",".join(hits)


@rule("STORE-5", 6, "a block that may be a branching synthetic block gets at most one new target per re-targeting call, never a removal only (its value table can only follow one replacement)")
def store5(ctx) -> List[Ob]:
    out: List[Ob] = []
    for rt in _retargets(ctx):
        if rt.method != "replace_jump_targets":
            continue
        fn, c, cfg = rt.fn, rt.call, rt.cfg
        key = _site_key(c, ctx, fn)
        where = ctx.where(fn, c)
        admits, why = _admits(ctx, fn, rt.recv, "SyntheticBranch")
        if not admits:
            out.append(ok("STORE-5", fn.qualname, key, where, "receiver cannot be a branching block", nontrivial=False))
            continue
        if rt.problems or rt.node is None:
            out.append(unresolved("STORE-5", fn.qualname, key, where, f"cannot classify the edit ({'; '.join(rt.problems)})"))
            continue
        muts = [(s, k) for s, k in rt.mutations() if rt.relevant(s)]
        stores = [(s, k) for s, k in muts if k == "store"]
        removals = [(s, k) for s, k in muts if k in ("pop", "remove", "del", "clear")]
        verdict = "<=1"
        deriv: List[str] = []
        # many: a store that can execute twice without the call in between, with a right-hand side that varies
        for s, _k in stores:
            sn = cfg.node_of(s)
            again = sn in cfg.reachable(sn, avoid=lambda x: x is rt.node or x is rt.Ldef)
            rhs = s.value  # type: ignore[attr-defined]
            varies = False
            if again:
                for nm in A.names_in(rhs):
                    for d in cfg.reaching_defs(s, nm):
                        if d.stmt is not None and d in cfg.reachable(sn, avoid=lambda x: x is rt.node or x is rt.Ldef) and sn in cfg.reachable(d, avoid=lambda x: x is rt.node or x is rt.Ldef):
                            varies = True
                if varies:
                    verdict = "many"
                    deriv.append(f"line {A.lineno(s)}: {A.unparse(s)[:60]} repeats before the call at line {A.lineno(c)} with a fresh right-hand side each time")
        # two different stores on one path without the call in between
        for i, (s1, _a) in enumerate(stores):
            for s2, _b in stores[i + 1:]:
                n1, n2 = cfg.node_of(s1), cfg.node_of(s2)
                if A.unparse(s1.value) != A.unparse(s2.value):  # type: ignore[attr-defined]
                    if n2 in cfg.reachable(n1, avoid=lambda x: x is rt.node or x is rt.Ldef) or n1 in cfg.reachable(n2, avoid=lambda x: x is rt.node or x is rt.Ldef):
                        verdict = "many"
                        deriv.append(f"stores at lines {A.lineno(s1)} and {A.lineno(s2)} can both execute before one call")
        # removal-only: a path def -> call that passes a removal but no store
        if removals and verdict != "many":
            store_nodes = {cfg.node_of(s) for s, _ in stores}
            for s, k in removals:
                rn = cfg.node_of(s)
                # def -> removal without store, removal -> call without store
                pre = rn in cfg.reachable(rt.Ldef, avoid=lambda x: x in store_nodes) or rn is rt.Ldef
                post = rt.node in cfg.reachable(rn, avoid=lambda x: x in store_nodes)
                if pre and post:
                    verdict = "removal-only"
                    deriv.append(f"line {A.lineno(s)}: {A.unparse(s)[:50]} can reach the call without any store of a new target")
        if verdict == "<=1":
            out.append(ok("STORE-5", fn.qualname, key, where, f"receiver may be a SyntheticBranch ({why}); at most one fresh target is substituted per call", [f"{len(stores)} store(s), {len(removals)} removal(s) examined"]))
        else:
            out.append(bad("STORE-5", fn.qualname, key + f" :: {verdict}", where,
                           f"receiver may be a SyntheticBranch ({why}) but the edit is '{verdict}': SyntheticBranch.replace_jump_targets asserts that exactly one target is new (AssertionError / corrupt value table)", deriv))
    return out


# ------------------------------------------------------------------ STORE-6


def _propagator(ctx) -> FunctionInfo:
    f = ctx.prog.find_function("update_exiting")
    if f is not None:
        return f
    # by role: takes a RegionBlock, pops subregion.graph[<...exiting>], recurses
    for g in ctx.prog.functions:
        if g.params and g.params[0].annotation is not None and (A.dotted(g.params[0].annotation) or "") == "RegionBlock":
            txt = A.unparse(g.node)
            if ".subregion.graph.pop(" in txt and g.name + "(" in txt.split("\n", 1)[1]:
                return g
    raise AnalysisError("no propagator (update_exiting) found")


@rule("STORE-6", 8, "re-targeting a block that may be a region is propagated to the region's exiting block (recursively) before the result is stored")
def store6(ctx) -> List[Ob]:
    out: List[Ob] = []
    prog = ctx.prog
    prop = _propagator(ctx)
    bbmod = prog.module("basic_block")
    for fn in prog.functions:
        if fn.module is bbmod or fn.module not in _owner_modules(ctx):
            continue
        cfg = ctx.cfg(fn)
        calls = []
        for m in RETARGET:
            calls += method_calls(fn.node, m)
        # group chained calls on one receiver expression: the outermost call of a chain is the site
        inner = set()
        for c in calls:
            r = c.func.value
            while isinstance(r, ast.Call) and isinstance(r.func, ast.Attribute) and r.func.attr in RETARGET:
                inner.add(id(r))
                r = r.func.value
        for c in calls:
            if id(c) in inner:
                continue
            key = _site_key(c, ctx, fn)
            where = ctx.where(fn, c)
            admits, why = _admits(ctx, fn, c.func.value, "RegionBlock")
            if not admits:
                out.append(ok("STORE-6", fn.qualname, key, where, "receiver cannot be a region", nontrivial=False))
                continue
            stmt = A.enclosing_stmt(c)
            n = cfg.node_of(c)
            # result bound to a name?
            ap = _assign_parts(stmt)
            if ap is not None and len(ap[0]) == 1 and isinstance(ap[0][0], ast.Name) and ap[1] is c:
                x = ap[0][0].id
                carriers = _carrier_names(fn.node, x)
                cond_props: list = []

                def is_prop(node) -> bool:
                    # an `if isinstance(carrier, RegionBlock):` whose body calls the propagator on it
                    s = node.stmt
                    if node.kind != "if":
                        return False
                    t = s.test
                    conj = t.values if isinstance(t, ast.BoolOp) and isinstance(t.op, ast.And) else [t]
                    guard = any(isinstance(v, ast.Call) and isinstance(v.func, ast.Name) and v.func.id == "isinstance" and len(v.args) == 2 and isinstance(v.args[0], ast.Name) and v.args[0].id in carriers and any(n.split(".")[-1] == "RegionBlock" for n in (_class_names(v.args[1]) or [])) for v in conj)
                    # an exact type test is equivalent while RegionBlock has no subclass
                    if not guard and not prog.subclasses(prog.cls("RegionBlock"), strict=True):
                        for v in conj:
                            if isinstance(v, ast.Compare) and len(v.ops) == 1 and isinstance(v.ops[0], (ast.Is, ast.Eq)):
                                l, r = v.left, v.comparators[0]
                                if isinstance(l, ast.Call) and isinstance(l.func, ast.Name) and l.func.id == "type" and l.args and isinstance(l.args[0], ast.Name) and l.args[0].id in carriers and (A.dotted(r) or "").split(".")[-1] == "RegionBlock":
                                    guard = True
                    if not guard:
                        return False
                    if len(conj) > 1:
                        # isinstance(..) and <something else>: the propagation is conditional
                        for k in A.walk_no_nested(ast.Module(s.body, [])):
                            if isinstance(k, ast.Call) and (A.dotted(k.func) or "").split(".")[-1] == prop.name:
                                cond_props.append((k, s))
                        return False
                    for k in A.walk_no_nested(ast.Module(s.body, [])):
                        if isinstance(k, ast.Call) and (A.dotted(k.func) or "").split(".")[-1] == prop.name and k.args and isinstance(k.args[0], ast.Name) and k.args[0].id in carriers:
                            # the propagation itself must be unconditional inside the region guard
                            # (loops over the renamed names are fine, further `if`s are not)
                            extra = [a for a in A.ancestors(k) if isinstance(a, (ast.If, ast.IfExp, ast.While, ast.Try)) and a is not s and any(x is s for x in A.ancestors(a))]
                            if not extra:
                                return True
                            cond_props.append((k, extra[0]))
                    return False

                def is_store(node) -> bool:
                    if node.stmt is None:
                        return False
                    for k in node.walk():
                        if isinstance(k, ast.Call) and isinstance(k.func, ast.Attribute) and k.func.attr == "add_block" and k.args and A.names_in(k.args[0]) & carriers:
                            return True
                    s = node.stmt
                    if isinstance(s, ast.Assign) and any(isinstance(t, ast.Subscript) for t in s.targets) and A.names_in(s.value) & carriers:
                        return True
                    if isinstance(s, ast.Return) and s.value is not None and A.names_in(s.value) & carriers:
                        return True
                    return False

                # a later re-targeting of the same carrier restarts the obligation there
                def is_retarget(node) -> bool:
                    if node is n or node.stmt is None:
                        return False
                    ap2 = _assign_parts(node.stmt)
                    return ap2 is not None and isinstance(ap2[1], ast.Call) and isinstance(ap2[1].func, ast.Attribute) and ap2[1].func.attr in RETARGET and bool(A.names_in(ap2[1].func.value) & carriers)

                reach = cfg.reachable(n, avoid=lambda z: is_prop(z) or is_retarget(z))
                unprop = [z for z in reach if is_store(z)]
                # paths that stop at a later retarget are judged at that retarget
                if unprop:
                    extra_txt = ""
                    if cond_props:
                        k_, e_ = cond_props[0]
                        extra_txt = f" (the call at line {A.lineno(k_)} is only made under '{A.unparse(getattr(e_, 'test', e_))[:50]}')"
                    out.append(bad("STORE-6", fn.qualname, key, where,
                                   f"the receiver may be a RegionBlock ({why}); its result is stored (line {unprop[0].lineno}) on a path without an unconditional `if isinstance(.., RegionBlock): {prop.name}(..)`{extra_txt}: the region's exiting block keeps the old target name",
                                   [f"carriers {sorted(carriers)}"]))
                else:
                    # pair check: the propagator renames the same (old, new) pair as the list edit
                    pair = _pair_check(ctx, fn, cfg, n, carriers, prop)
                    # one propagation per re-targeting: when the call sits in a loop that binds the renamed pair
                    # (one arc per iteration), the propagation must sit in that loop too - after the loop it sees
                    # only the last pair
                    if not pair:
                        inner = cfg.loops_containing(n)[:1]
                        if inner:
                            lp_stmt = inner[0].stmt
                            bound = {x.id for x in ast.walk(lp_stmt.target) if isinstance(x, ast.Name)} if isinstance(lp_stmt, ast.For) else set()
                            for st_ in A.walk_no_nested(ast.Module(lp_stmt.body, [])):
                                if isinstance(st_, (ast.Assign, ast.AnnAssign, ast.AugAssign)):
                                    tg_ = st_.targets if isinstance(st_, ast.Assign) else [st_.target]
                                    for t_ in tg_:
                                        bound |= {x.id for x in ast.walk(t_) if isinstance(x, ast.Name) and isinstance(x.ctx, ast.Store)}
                            for z in cfg.nodes:
                                if z.kind == "if" and is_prop(z) and not any(a is lp_stmt for a in A.ancestors(z.stmt)):
                                    pcs_ = [k for k in A.walk_no_nested(ast.Module(z.stmt.body, [])) if isinstance(k, ast.Call) and (A.dotted(k.func) or "").split(".")[-1] == prop.name]
                                    used = set()
                                    for k in pcs_:
                                        for a_ in k.args[1:]:
                                            used |= A.names_in(a_)
                                    if used & bound and z in cfg.reachable(n):
                                        pair = f"the re-targeting runs once per iteration of the loop at line {A.lineno(lp_stmt)} but {prop.name}({', '.join(sorted(used & bound))}) runs after that loop, with the names of the last iteration only: when several arcs of a region are re-targeted, all but the last keep the old name in the exiting block"
                    if pair:
                        out.append(bad("STORE-6", fn.qualname, key + " :: pair", where, pair))
                    else:
                        out.append(ok("STORE-6", fn.qualname, key, where, f"result passes the guarded propagator {prop.name} before every store"))
            else:
                out.append(bad("STORE-6", fn.qualname, key, where,
                               f"the receiver may be a RegionBlock ({why}) and the result is stored in the same expression: no propagation to the region's exiting block is possible"))
    return out


def _pair_check(ctx, fn, cfg, n, carriers, prop) -> Optional[str]:
    """the (old, new) arguments of the propagator call must be the pair substituted in the target list"""
    stmt = n.stmt
    call = _assign_parts(stmt)[1]
    arg = kw(call, "jump_targets", 0) or kw(call, "backedges", 0)
    if not (isinstance(arg, ast.Call) and arg.args and isinstance(arg.args[0], ast.Name)):
        return None
    L = arg.args[0].id
    stores = []
    for s in A.walk_no_nested(fn.node):
        if isinstance(s, ast.Assign):
            for t in s.targets:
                if isinstance(t, ast.Subscript) and isinstance(t.value, ast.Name) and t.value.id == L and not isinstance(t.slice, ast.Slice):
                    # the old name: compared in the guard or used to find the index
                    olds = set(A.names_in(t.slice))
                    for anc in A.ancestors(s):
                        if isinstance(anc, ast.If):
                            olds |= A.names_in(anc.test)
                        if anc is fn.node:
                            break
                    stores.append((A.unparse(s.value), olds))
    for st in A.walk_no_nested(fn.node):
        ap2 = _assign_parts(st) if isinstance(st, (ast.Assign, ast.AnnAssign)) else None
        if ap2 is not None and len(ap2[0]) == 1 and isinstance(ap2[0][0], ast.Name) and ap2[0][0].id == L:
            cr = _comp_rename(ap2[1])
            if cr is not None:
                stores.append((cr[3], {cr[2]}))
    if not stores:
        return None
    pcs = []
    for z in cfg.reachable(n):
        if z.stmt is None:
            continue
        for k in z.walk():
            if isinstance(k, ast.Call) and (A.dotted(k.func) or "").split(".")[-1] == prop.name and len(k.args) >= 3 and isinstance(k.args[0], ast.Name) and k.args[0].id in carriers:
                pcs.append(k)
    # two loops over the same sequence may name their variable differently (`for s in successors` in the
    # propagation, `for succ in successors` in the list edit): a loop variable stands for the sequence it walks
    dom = {}
    for lp_ in A.walk_no_nested(fn.node):
        if isinstance(lp_, ast.For) and isinstance(lp_.target, ast.Name):
            dom.setdefault(lp_.target.id, set()).add(A.unparse(lp_.iter))

    def same_old(old: str, olds) -> bool:
        if old in olds:
            return True
        return bool(dom.get(old)) and any(dom.get(o, set()) & dom[old] for o in olds)

    for k in pcs:
        old, new = A.unparse(k.args[1]), A.unparse(k.args[2])
        if not any(new == rhs and same_old(old, olds) for rhs, olds in stores):
            return f"{prop.name}({A.unparse(k.args[0])}, {old}, {new}) at line {A.lineno(k)} renames a different pair than the list edit ({'; '.join(f'new={r}' for r, _ in stores[:2])}): the exiting block gets the wrong name"
    return None


# ------------------------------------------------------------------ STORE-7


def _comp_rename(v: ast.AST):
    """(block expr, attr, OLD, NEW) for `[NEW if s == OLD else s for s in B.attr]` (also tuple(...)/list(...) of it)"""
    while isinstance(v, ast.Call) and isinstance(v.func, ast.Name) and v.func.id in ("tuple", "list") and len(v.args) == 1:
        v = v.args[0]
    if not (isinstance(v, (ast.ListComp, ast.GeneratorExp)) and len(v.generators) == 1):
        return None
    g = v.generators[0]
    if g.ifs or not isinstance(g.target, ast.Name) or not isinstance(g.iter, ast.Attribute):
        return None
    e = v.elt
    sv = g.target.id
    if isinstance(e, ast.IfExp) and isinstance(e.test, ast.Compare) and len(e.test.ops) == 1 and isinstance(e.test.ops[0], (ast.Eq, ast.NotEq)):
        names = [A.unparse(e.test.left), A.unparse(e.test.comparators[0])]
        if sv in names:
            oldn = [n for n in names if n != sv]
            if len(oldn) == 1:
                eq = isinstance(e.test.ops[0], ast.Eq)
                newe, keep = (e.body, e.orelse) if eq else (e.orelse, e.body)
                if A.unparse(keep) == sv:
                    return g.iter.value, g.iter.attr, oldn[0], A.unparse(newe)
    return None


def _rename_loops(fn_node: ast.AST):
    """loops of the form `for i, s in enumerate(L): if s == OLD: L[i] = NEW`
    and element-wise comprehensions `L = [NEW if s == OLD else s for s in B.attr]`
    -> [(L, OLD, NEW, node)]"""
    out = []
    for st in A.walk_no_nested(fn_node):
        ap = _assign_parts(st) if isinstance(st, (ast.Assign, ast.AnnAssign)) else None
        if ap is not None and len(ap[0]) == 1 and isinstance(ap[0][0], ast.Name):
            cr = _comp_rename(ap[1])
            if cr is not None:
                out.append((ap[0][0].id, cr[2], cr[3], st))
    # the comprehension handed straight to the block API: b.replace_jump_targets(jump_targets=tuple(NEW if ..))
    for c in A.walk_no_nested(fn_node):
        if isinstance(c, ast.Call) and isinstance(c.func, ast.Attribute) and c.func.attr in ("replace_jump_targets", "replace_backedges"):
            arg = kw(c, "jump_targets", 0) or kw(c, "backedges", 0)
            cr = _comp_rename(arg) if arg is not None else None
            if cr is not None:
                st_ = A.enclosing_stmt(c) or c
                out.append((f"<{c.func.attr} argument>", cr[2], cr[3], st_))
    for lp in A.walk_no_nested(fn_node):
        if not (isinstance(lp, ast.For) and isinstance(lp.iter, ast.Call) and isinstance(lp.iter.func, ast.Name) and lp.iter.func.id == "enumerate" and lp.iter.args and isinstance(lp.iter.args[0], ast.Name)):
            continue
        L = lp.iter.args[0].id
        if not (isinstance(lp.target, ast.Tuple) and len(lp.target.elts) == 2 and all(isinstance(e, ast.Name) for e in lp.target.elts)):
            continue
        iv, sv = lp.target.elts[0].id, lp.target.elts[1].id
        for st in lp.body:
            if isinstance(st, ast.If) and isinstance(st.test, ast.Compare) and len(st.test.ops) == 1 and isinstance(st.test.ops[0], ast.Eq):
                l, r = st.test.left, st.test.comparators[0]
                names = {A.unparse(l), A.unparse(r)}
                if sv in names:
                    old = (names - {sv}).pop() if len(names) == 2 else sv
                    for b in st.body:
                        if isinstance(b, ast.Assign) and len(b.targets) == 1 and isinstance(b.targets[0], ast.Subscript) and A.unparse(b.targets[0].value) == L and A.unparse(b.targets[0].slice) == iv:
                            out.append((L, old, A.unparse(b.value), lp))
    return out


@rule("STORE-7", 2, "a rename reaches both tuples of a block (targets and back edges) and every position")
def store7(ctx) -> List[Ob]:
    out: List[Ob] = []
    prog = ctx.prog
    # (a) rename sites in the hierarchy code
    for fn in prog.functions:
        if fn.module not in _owner_modules(ctx):
            continue
        cfg = ctx.cfg(fn)
        loops = _rename_loops(fn.node)
        if not loops:
            if fn.name in ("update_exiting", "extract_region") and fn.parent_fn is None:
                # the two places that rename a header to its region must rename every occurrence
                single = [a_ for a_ in A.walk_no_nested(fn.node) if isinstance(a_, ast.Assign) and len(a_.targets) == 1 and isinstance(a_.targets[0], ast.Subscript)
                          and isinstance(a_.targets[0].slice, ast.Call) and isinstance(a_.targets[0].slice.func, ast.Attribute) and a_.targets[0].slice.func.attr == "index"]
                if single:
                    out.append(bad("STORE-7", fn.qualname, "rename reaches every position", ctx.where(fn, single[0]), f"{A.unparse(single[0])[:60]} renames the first occurrence only: a block with two arcs to the renamed header keeps the old name in the other position, the region and its exiting block disagree"))
                else:
                    out.append(unresolved("STORE-7", fn.qualname, "rename reaches every position", ctx.where(fn), f"{fn.name} no longer renames a target position by position: cannot see that every occurrence is renamed"))
            continue
        # origin of each renamed list
        origin = {}
        for L, old, new, lp in loops:
            if not isinstance(lp, ast.For):
                cr = None
                if L.startswith("<"):
                    meth_ = L[1:].split(" ")[0]
                    for c_ in A.walk_no_nested(lp):
                        if isinstance(c_, ast.Call) and isinstance(c_.func, ast.Attribute) and c_.func.attr == meth_:
                            a_ = kw(c_, "jump_targets", 0) or kw(c_, "backedges", 0)
                            cr = _comp_rename(a_) if a_ is not None else None
                            if cr is not None:
                                break
                else:
                    ap_ = _assign_parts(lp)
                    cr = _comp_rename(ap_[1]) if ap_ is not None else None
                if cr is not None:
                    origin[id(lp)] = (A.unparse(cr[0]), cr[1])
                continue
            for d in cfg.reaching_defs(lp.iter, L):
                if d.stmt is not None and isinstance(d.stmt, ast.Assign):
                    v = d.stmt.value
                    if isinstance(v, ast.Call) and isinstance(v.func, ast.Name) and v.func.id == "list" and v.args and isinstance(v.args[0], ast.Attribute):
                        origin[id(lp)] = (A.unparse(v.args[0].value), v.args[0].attr)
        by_block: Dict[str, Dict[str, Tuple[str, str, ast.AST]]] = {}
        for L, old, new, lp in loops:
            o = origin.get(id(lp))
            if o is None:
                continue
            by_block.setdefault(o[0], {})[o[1]] = (old, new, lp)
        for blk, attrs in by_block.items():
            key = f"rename in targets of '{A.alpha_key(ast.parse(blk, mode='eval').body)}'"
            tg = attrs.get("_jump_targets") or attrs.get("jump_targets")
            be = attrs.get("backedges")
            if tg is None:
                continue
            where = ctx.where(fn, tg[2])
            if be is None:
                out.append(bad("STORE-7", fn.qualname, key, where, f"{tg[0]} is renamed to {tg[1]} in the jump targets of {blk} but not in its back edges: a declared back edge keeps the old name"))
            elif (be[0], be[1]) != (tg[0], tg[1]):
                out.append(bad("STORE-7", fn.qualname, key, where, f"targets of {blk} rename {tg[0]}->{tg[1]} but its back edges rename {be[0]}->{be[1]}"))
            else:
                # both results must be written back
                txt = A.unparse(fn.node)
                if "replace_backedges" not in txt:
                    out.append(bad("STORE-7", fn.qualname, key, where, "back edges are renamed in a copy that is never written back (no replace_backedges)"))
                else:
                    out.append(ok("STORE-7", fn.qualname, key, where, f"{tg[0]}->{tg[1]} applied to both _jump_targets and backedges of {blk}"))
    return out


@rule("STORE-10", 1, "where successors are renamed position by position under a length test, every position is treated by an independent test")
def store10(ctx) -> List[Ob]:
    out: List[Ob] = []
    prog = ctx.prog
    for fn in prog.functions:
        for st in A.walk_no_nested(fn.node):
            if not isinstance(st, ast.If):
                continue
            n_len, X = _len_eq(st.test)
            if n_len is None or n_len < 1:
                continue
            handled: Dict[int, str] = {}
            chained = False
            for sub in A.walk_no_nested(ast.Module(st.body, [])):
                if isinstance(sub, ast.If):
                    idx = _pos_test(sub.test, X)
                    if idx is not None and _stores_pos(sub.body, X, idx):
                        handled[idx] = "independent"
                        # elif arms
                        cur = sub
                        while len(cur.orelse) == 1 and isinstance(cur.orelse[0], ast.If):
                            cur = cur.orelse[0]
                            j = _pos_test(cur.test, X)
                            if j is not None and _stores_pos(cur.body, X, j):
                                handled[j] = "elif"
                                chained = True
            if not handled:
                continue
            key = f"positional rename under len({A.alpha_key(ast.parse(X, mode='eval').body)}) == {n_len}"
            where = ctx.where(fn, st)
            missing = set(range(n_len)) - set(handled)
            if chained:
                which = sorted(i for i, h in handled.items() if h == "elif")
                out.append(bad("STORE-10", fn.qualname, key, where, f"positions of {X} are renamed in an if/elif chain: when several positions hold the name only the first is rewired, position(s) {which} keep a name that no longer exists"))
            elif missing:
                out.append(bad("STORE-10", fn.qualname, key, where, f"position(s) {sorted(missing)} of {X} are never renamed"))
            else:
                out.append(ok("STORE-10", fn.qualname, key, where, f"every position {sorted(handled)} renamed by an independent test"))
    # the same rename written with list.index(): only the first occurrence is replaced
    # (the front end does produce blocks whose two successors are the same block)
    for fn in prog.functions:
        if not fn.module.name.endswith("ast_transforms"):
            continue
        for st in A.walk_no_nested(fn.node):
            if not (isinstance(st, ast.Assign) and len(st.targets) == 1 and isinstance(st.targets[0], ast.Subscript)):
                continue
            t = st.targets[0]
            sl = t.slice
            if isinstance(sl, ast.Slice) and sl.lower is None and sl.upper is None and "jump_targets" in A.unparse(t.value) and isinstance(st.value, ast.ListComp) and len(st.value.generators) == 1:
                g = st.value.generators[0]
                e = st.value.elt
                if A.unparse(g.iter) == A.unparse(t.value) and not g.ifs and isinstance(e, ast.IfExp) and isinstance(e.test, ast.Compare) and isinstance(e.test.ops[0], ast.Eq) and A.unparse(e.test.left) == A.unparse(g.target) and A.unparse(e.orelse) == A.unparse(g.target):
                    out.append(ok("STORE-10", fn.qualname, "element-wise rename of " + A.alpha_key(t.value), ctx.where(fn, st), "every occurrence is renamed, positions kept"))
                continue
            if isinstance(sl, ast.Call) and isinstance(sl.func, ast.Attribute) and sl.func.attr == "index" and A.unparse(sl.func.value) == A.unparse(t.value) and "jump_targets" in A.unparse(t.value) and sl.args:
                X = A.unparse(t.value)
                old = A.unparse(sl.args[0])
                key = "rename through index() of " + A.alpha_key(t.value)
                looped = any(isinstance(a, ast.While) and A.unparse(a.test) == f"{old} in {X}" for a in A.ancestors(st))
                if looped:
                    out.append(ok("STORE-10", fn.qualname, key, ctx.where(fn, st), f"repeated while {old} in {X}: every occurrence is renamed"))
                else:
                    out.append(bad("STORE-10", fn.qualname, key, ctx.where(fn, st), f"'{A.unparse(st)[:60]}' renames only the first occurrence of {old}: a block whose two successors are both {old} (if/else arms that are both empty) keeps a successor that no longer exists"))
    return out


def _len_eq(test: ast.AST):
    if isinstance(test, ast.Compare) and len(test.ops) == 1 and isinstance(test.ops[0], ast.Eq):
        l, r = test.left, test.comparators[0]
        if isinstance(l, ast.Call) and isinstance(l.func, ast.Name) and l.func.id == "len" and l.args and isinstance(r, ast.Constant) and isinstance(r.value, int):
            return r.value, A.unparse(l.args[0])
    return None, None


def _pos_test(test: ast.AST, X: str) -> Optional[int]:
    if isinstance(test, ast.Compare) and len(test.ops) == 1 and isinstance(test.ops[0], ast.Eq):
        for side in (test.left, test.comparators[0]):
            if isinstance(side, ast.Subscript) and A.unparse(side.value) == X and isinstance(side.slice, ast.Constant) and isinstance(side.slice.value, int):
                return side.slice.value
    return None


def _stores_pos(body: List[ast.stmt], X: str, idx: int) -> bool:
    for b in body:
        if isinstance(b, ast.Assign):
            for t in b.targets:
                if isinstance(t, ast.Subscript) and A.unparse(t.value) == X and isinstance(t.slice, ast.Constant) and t.slice.value == idx:
                    return True
    return False


# ------------------------------------------------------------------ STORE-8


@rule("STORE-8", 8, "a region is built with kind, header, exiting, sub-graph and parent, takes its targets from its exiting block, and all back pointers are fixed up afterwards")
def store8(ctx) -> List[Ob]:
    out: List[Ob] = []
    prog = ctx.prog
    er = prog.find_function("extract_region")
    if er is None:
        raise AnalysisError("extract_region not found")
    cfg = ctx.cfg(er)
    ctors = [c for c in A.walk_no_nested(er.node) if isinstance(c, ast.Call) and (A.dotted(c.func) or "").split(".")[-1] == "RegionBlock"]
    if not ctors:
        raise AnalysisError("no RegionBlock(...) construction in extract_region")
    c = ctors[0]
    cn = cfg.node_of(c)
    where = ctx.where(er, c)
    kws = {k.arg: k.value for k in c.keywords if k.arg}
    need = ["name", "_jump_targets", "kind", "header", "subregion", "exiting", "parent_region"]
    miss = [k for k in need if k not in kws]
    if miss:
        out.append(bad("STORE-8", er.qualname, "RegionBlock(...) fields", where, f"region constructed without {miss}"))
    else:
        out.append(ok("STORE-8", er.qualname, "RegionBlock(...) fields", where, "kind, header, exiting, subregion, parent_region all given"))
    if miss:
        return out
    params = {p.arg for p in er.params}
    # kind and parent come from the parameters
    for fld, what in (("kind", "region_kind"), ("parent_region", "parent_region")):
        v = kws[fld]
        key = f"RegionBlock({fld}=...)"
        if isinstance(v, ast.Name) and v.id in params:
            out.append(ok("STORE-8", er.qualname, key, where, f"{fld} is the parameter {v.id}", nontrivial=False))
        else:
            out.append(bad("STORE-8", er.qualname, key, where, f"{fld}={A.unparse(v)} is not the caller's {what}"))
    # _jump_targets read from the block named by the same definition as exiting=
    jt = kws["_jump_targets"]
    ex = kws["exiting"]
    key = "RegionBlock(_jump_targets=...) from the exiting block"
    src = None
    if isinstance(jt, ast.Attribute) and jt.attr in ("jump_targets", "_jump_targets"):
        v = _graph_view(jt.value)
        if v:
            src = v[1]
    if src is not None and src == A.unparse(ex):
        out.append(ok("STORE-8", er.qualname, key, where, f"targets read from block {src}, the same definition as exiting="))
    else:
        out.append(bad("STORE-8", er.qualname, key, where, f"the region's outgoing targets ({A.unparse(jt)[:50]}) are not read from its exiting block ({A.unparse(ex)})"))
    # header / exiting are the unique header / exiting block of the set (definitions from the find_* results)
    for fld, finder, pos in (("header", "find_headers_and_entries", 0), ("exiting", "find_exiting_and_exits", 0)):
        v = kws[fld]
        key = f"RegionBlock({fld}=...) provenance"
        good = False
        if isinstance(v, ast.Name):
            for d in cfg.reaching_defs(c, v.id):
                if d.stmt is not None and isinstance(d.stmt, ast.Assign) and "next(iter(" in A.unparse(d.stmt.value):
                    inner = A.unparse(d.stmt.value)
                    srcname = inner[len("next(iter("):-2]
                    for d2 in cfg.reaching_defs(d.stmt, srcname):
                        if d2.stmt is not None and isinstance(d2.stmt, ast.Assign) and finder in A.unparse(d2.stmt.value):
                            t = d2.stmt.targets[0]
                            if isinstance(t, ast.Tuple) and isinstance(t.elts[pos], ast.Name) and t.elts[pos].id == srcname:
                                good = True
        if good:
            out.append(ok("STORE-8", er.qualname, key, where, f"{fld} is the single element of the first result of {finder}"))
        else:
            out.append(bad("STORE-8", er.qualname, key, where, f"{fld}={A.unparse(v)} is not the unique {fld} block computed by {finder}"))
    # the sub-graph is the one handed to subregion= and is stored under name=
    nm = kws["name"]
    stores = [s for s in A.walk_no_nested(er.node) if isinstance(s, ast.Assign) and any(isinstance(t, ast.Subscript) and A.unparse(t.value).endswith(".graph") for t in s.targets)]
    key = "region stored under its own name"
    good = False
    for s in stores:
        t = s.targets[0]
        rc = None
        if isinstance(s.value, ast.Name):
            for d in cfg.reaching_defs(s, s.value.id):
                if d is cn:
                    rc = True
        if A.unparse(t.slice) == A.unparse(nm) and rc:
            good = True
    add = [k for k in method_calls(er.node, "add_block") if k.args and isinstance(k.args[0], ast.Name) and any(d is cn for d in cfg.reaching_defs(k, k.args[0].id))]
    if good or add:
        out.append(ok("STORE-8", er.qualname, key, where, f"stored as graph[{A.unparse(nm)}]"))
    else:
        out.append(bad("STORE-8", er.qualname, key, where, f"the new region is not stored under its own name {A.unparse(nm)}"))
    # follow-ups after construction, on all paths to exit
    rvar = None
    st = A.enclosing_stmt(c)
    if isinstance(st, ast.Assign) and isinstance(st.targets[0], ast.Name):
        rvar = st.targets[0].id

    def follows(pred) -> bool:
        return cfg.exit not in cfg.reachable(cn, avoid=pred)

    def setattr_of(attr: str):
        def p(z) -> bool:
            for k in z.walk():
                if isinstance(k, ast.Call) and (A.dotted(k.func) or "") in ("object.__setattr__", "setattr") and len(k.args) == 3 and isinstance(k.args[1], ast.Constant) and k.args[1].value == attr:
                    return True
            return False

        return p

    key = "sub-graph back pointer 'region'"
    if follows(setattr_of("region")):
        out.append(ok("STORE-8", er.qualname, key, where, "subregion.region set to the new region on every path"))
    else:
        out.append(bad("STORE-8", er.qualname, key, where, "the sub-graph's 'region' back pointer is not set to the new region: it still points at a throw-away meta region"))
    # (ii) header / exiting fix-up of the parent
    for fld, meth in (("header", "replace_header"), ("exiting", "replace_exiting")):
        key = f"parent {fld} fix-up"
        hit = None
        for z in cfg.nodes:
            if z.kind == "if" and f"parent_region.{fld}" in A.unparse(z.stmt.test) and A.unparse(kws[fld]) in A.unparse(z.stmt.test):
                calls = method_calls(ast.Module(z.stmt.body, []), meth)
                if calls and calls[0].args and A.unparse(calls[0].args[0]) == A.unparse(nm):
                    hit = z
        callee = prog.cls("RegionBlock").methods.get(meth)
        in_place = callee is not None and any(
            isinstance(k, ast.Call) and (A.dotted(k.func) or "") in ("object.__setattr__", "setattr") and len(k.args) == 3 and A.unparse(k.args[0]) == "self" and isinstance(k.args[1], ast.Constant) and k.args[1].value == fld
            for k in A.walk_no_nested(callee.node))
        if hit is not None and not in_place:
            # a copying method: the call site must use its result
            cs = method_calls(ast.Module(hit.stmt.body, []), meth)
            used = cs and not isinstance(A.parent(cs[0]), ast.Expr)
            if not used:
                out.append(bad("STORE-8", er.qualname, key, ctx.where(er, hit.stmt), f"RegionBlock.{meth} does not update the region in place (no object.__setattr__(self, '{fld}', ..)) and extract_region drops its result: the parent keeps naming a block that is no longer at its level"))
                continue
        if hit is not None and cfg.dominates(cn, hit) or (hit is not None and follows(lambda z, h=hit: z is h)):
            out.append(ok("STORE-8", er.qualname, key, ctx.where(er, hit.stmt), f"parent's {fld} renamed to the region when it named the wrapped {fld} block"))
        else:
            out.append(bad("STORE-8", er.qualname, key, where, f"the parent region's '{fld}' is not updated when the wrapped block was the parent's {fld}: the parent names a block that is no longer at its level"))
    # (iii) re-parenting of nested regions
    key = "re-parenting of nested regions"
    rep = None
    for z in cfg.nodes:
        if z.kind == "for" and ".graph" in A.unparse(z.stmt.iter):
            for k in A.walk_no_nested(ast.Module(z.stmt.body, [])):
                if isinstance(k, ast.Call) and (A.dotted(k.func) or "") in ("object.__setattr__", "setattr") and len(k.args) == 3 and isinstance(k.args[1], ast.Constant) and k.args[1].value == "parent_region" and rvar and A.unparse(k.args[2]) == rvar:
                    # applied to exactly the regions among the members: under a positive RegionBlock test
                    tgt_ = A.unparse(k.args[0])
                    guards_ = [a for a in A.ancestors(k) if isinstance(a, ast.If) and any(x is z.stmt for x in A.ancestors(a))]
                    pos = [g for g in guards_ if any(c is k or any(a2 is c for a2 in A.ancestors(k)) for c in g.body) and isinstance(g.test, ast.Call) and A.unparse(g.test) == f"isinstance({tgt_}, RegionBlock)"]
                    if pos and len(guards_) == 1:
                        rep = z
    if rep is not None and follows(lambda z: z is rep):
        out.append(ok("STORE-8", er.qualname, key, ctx.where(er, rep.stmt), "every RegionBlock inside the new sub-graph gets the new region as parent"))
    else:
        out.append(bad("STORE-8", er.qualname, key, where, "regions moved into the new sub-graph keep their old parent_region"))
    # (iii') the two in-place replacers of a region write the object that is stored in the hierarchy
    rb = prog.classes.get("RegionBlock")
    for mname, fld in (("replace_header", "header"), ("replace_exiting", "exiting")):
        mm = rb.find_method(mname) if rb is not None else None
        key = f"{mname} changes the stored region"
        if mm is None:
            out.append(unresolved("STORE-8", "RegionBlock", key, where, f"RegionBlock.{mname} not found"))
            continue
        sets = [c for c in A.walk_no_nested(mm.node) if isinstance(c, ast.Call) and (A.dotted(c.func) or "") in ("object.__setattr__", "setattr") and len(c.args) == 3 and A.unparse(c.args[0]) == "self" and isinstance(c.args[1], ast.Constant) and c.args[1].value == fld]
        copies = [c for c in A.walk_no_nested(mm.node) if isinstance(c, ast.Call) and (A.dotted(c.func) or "").split(".")[-1] == "replace" and c.args and A.unparse(c.args[0]) == "self"]
        if sets and not copies:
            out.append(ok("STORE-8", mm.qualname, key, ctx.where(mm, sets[0]), f"object.__setattr__(self, '{fld}', ..): the region block that the enclosing graph holds is updated"))
        else:
            out.append(bad("STORE-8", mm.qualname, key, ctx.where(mm), f"{mname} does not write '{fld}' of the region itself (it returns a copy): the copy is stored nowhere - the parent region in the enclosing graph keeps naming a block that has moved into a nested region"))
    # (iv) the entry loop substitutes the region's own name
    key = "entries re-targeted to the region's name"
    loops = _rename_loops(er.node)
    news = {new for _L, _old, new, _lp in loops}
    olds = {old for _L, old, _new, _lp in loops}
    if loops and news == {A.unparse(nm)} and olds == {A.unparse(kws["header"])}:
        out.append(ok("STORE-8", er.qualname, key, where, f"entries rename {A.unparse(kws['header'])} -> {A.unparse(nm)}"))
    elif not loops:
        out.append(unresolved("STORE-8", er.qualname, key, where, "no rename loop found for the entries"))
    else:
        out.append(bad("STORE-8", er.qualname, key, where, f"entries are renamed {sorted(olds)} -> {sorted(news)}, expected {A.unparse(kws['header'])} -> {A.unparse(nm)}"))
    # (v) callers: the parent handed over is the very region whose sub-graph is edited
    erp = [p.arg for p in er.params]
    for fn in prog.functions:
        for c in A.walk_no_nested(fn.node):
            if not (isinstance(c, ast.Call) and (A.dotted(c.func) or "").split(".")[-1] == "extract_region" and fn is not er):
                continue
            args = {erp[i]: a for i, a in enumerate(c.args) if i < len(erp)}
            args.update({k.arg: k.value for k in c.keywords if k.arg})
            g, par = args.get(erp[0]), args.get(erp[3]) if len(erp) > 3 else None
            key = "caller passes the region it restructures: " + A.alpha_key(c)[:60]
            wherec = ctx.where(fn, c)
            if g is None or par is None:
                out.append(unresolved("STORE-8", fn.qualname, key, wherec, "cannot see the graph / parent arguments of extract_region"))
                continue
            gsrc = g
            if isinstance(g, ast.Name):
                ds = [d for d in ctx.cfg(fn).reaching_defs(g) if d.stmt is not None]
                if len(ds) == 1 and isinstance(ds[0].stmt, (ast.Assign, ast.AnnAssign)) and ds[0].stmt.value is not None:
                    gsrc = ds[0].stmt.value
            fparams = {p.arg for p in fn.params}
            if isinstance(par, ast.Name) and par.id in fparams and A.unparse(gsrc) == f"{par.id}.subregion":
                out.append(ok("STORE-8", fn.qualname, key, wherec, f"graph = {par.id}.subregion, parent = {par.id} (the object the caller was given)"))
            else:
                out.append(bad("STORE-8", fn.qualname, key, wherec, f"extract_region is given the graph {A.unparse(gsrc)[:40]} but the parent {A.unparse(par)[:40]}: header / exiting replacement must be applied to the region object whose sub-graph is edited (a pointer read back from the graph can name a stale copy made by dataclasses.replace)"))
    return out


# ------------------------------------------------------------------ STORE-9


@rule("STORE-9", 5, "the edit primitives touch only the given predecessors and the blocks they create; the new block's successors are exactly the given successors")
def store9(ctx) -> List[Ob]:
    out: List[Ob] = []
    scfg_cls = ctx.prog.cls("SCFG")
    for mname in ("insert_block", "insert_block_and_control_blocks"):
        fn = scfg_cls.find_method(mname)
        if fn is None:
            raise AnalysisError(f"SCFG.{mname} not found")
        cfg = ctx.cfg(fn)
        params = [p.arg for p in fn.params]
        if "predecessors" not in params or "successors" not in params:
            raise AnalysisError(f"SCFG.{mname}: parameters predecessors / successors not found")
        # names constructed in this function
        built: Set[str] = set()
        ctor_calls = []
        for c in A.walk_no_nested(fn.node):
            if isinstance(c, ast.Call):
                t = ctx.type_of(fn, c.func)
                if any(m[0] == "type" for m in members(t)):
                    nmv = kw(c, "name")
                    if nmv is not None:
                        built.add(A.unparse(nmv))
                        ctor_calls.append(c)
        # keys popped / looked up for writing
        for c in A.walk_no_nested(fn.node):
            gp = _graph_pop(c) if isinstance(c, ast.Call) else None
            if gp is None:
                continue
            G, k = gp
            key = f"pop key {k}"
            where = ctx.where(fn, c)
            okk = False
            if G == "self":
                kn = c.args[0]
                if isinstance(kn, ast.Name):
                    for d in cfg.reaching_defs(c, kn.id):
                        if d.kind == "for" and A.unparse(d.stmt.iter) == "predecessors":
                            okk = True
            if okk:
                out.append(ok("STORE-9", fn.qualname, key, where, "popped key iterates over the predecessors parameter"))
            else:
                out.append(bad("STORE-9", fn.qualname, key, where, f"a block other than a given predecessor is taken out of the graph ({G}.graph.pop({k}))"))
        for c in method_calls(fn.node, "add_block"):
            if A.unparse(c.func.value) != "self" or not c.args:
                continue
            a = c.args[0]
            key = "add_block " + A.alpha_key(a)
            where = ctx.where(fn, c)
            src = None
            if isinstance(a, ast.Name):
                defs = [d for d in cfg.reaching_defs(c, a.id) if d.stmt is not None]
                kinds = set()
                for d in defs:
                    v = d.stmt.value if isinstance(d.stmt, ast.Assign) else None
                    vv = _innermost_receiver(v) if v is not None else None
                    if vv is not None and isinstance(vv, ast.Call) and any(vv is cc for cc in ctor_calls):
                        kinds.add("constructed here")
                    elif v is not None and (A.names_in(v) & _carrier_names(fn.node, a.id)) or (vv is not None and _graph_pop(vv)):
                        kinds.add("predecessor carrier")
                    else:
                        kinds.add("other")
                src = kinds
            elif isinstance(a, ast.Call):
                ir_ = _innermost_receiver(a)
                if ir_ is not None and isinstance(ir_, ast.Call) and any(ir_ is cc for cc in ctor_calls):
                    src = {"constructed here"}  # the constructor call written straight into add_block(..)
                else:
                    src = {"predecessor carrier"} if _graph_pop(ir_) else {"other"}
            if src and src <= {"constructed here", "predecessor carrier"}:
                out.append(ok("STORE-9", fn.qualname, key, where, f"stores a block that is {' / '.join(sorted(src))}"))
            else:
                out.append(bad("STORE-9", fn.qualname, key, where, "stores a block that is neither a given predecessor nor created by this primitive"))
        # new block's successors
        for c in ctor_calls:
            nmv = kw(c, "name")
            if nmv is not None and A.unparse(nmv) == "new_name":
                jt = kw(c, "_jump_targets")
                key = "successors of the inserted block"
                if jt is not None and A.unparse(jt) == "tuple(successors)":
                    out.append(ok("STORE-9", fn.qualname, key, ctx.where(fn, c), "_jump_targets=tuple(successors)"))
                else:
                    out.append(bad("STORE-9", fn.qualname, key, ctx.where(fn, c), f"the inserted block's successors are {A.unparse(jt) if jt is not None else 'missing'}, not exactly the given successors in order"))
    return out


# ------------------------------------------------------------------ STORE-11/12/13


@rule("STORE-11", 3, "the block API stores the successor / back-edge tuple it is given as it is (no filtering, de-duplication or re-ordering inside replace_*)")
def store11(ctx) -> List[Ob]:
    out: List[Ob] = []
    prog = ctx.prog
    for c in block_classes(prog):
        for mname, fld in (("replace_jump_targets", "_jump_targets"), ("replace_backedges", "backedges")):
            m = c.methods.get(mname)
            if m is None:
                continue
            params = [p.arg for p in m.params if p.arg != "self"]
            key = f"{c.name}.{mname}"
            where = ctx.where(m)
            rets = [r for r in A.walk_no_nested(m.node) if isinstance(r, ast.Return) and r.value is not None]
            good = bool(rets) and bool(params)
            why = ""
            for r in rets:
                v = r.value
                if not (isinstance(v, ast.Call) and (A.dotted(v.func) or "").split(".")[-1] == "replace"):
                    good, why = False, f"returns {A.unparse(v)[:40]}, not replace(self, ...)"
                    continue
                kws = {k.arg: k.value for k in v.keywords}
                if fld not in kws:
                    good, why = False, f"replace(...) does not set {fld}"
                elif not (isinstance(kws[fld], ast.Name) and kws[fld].id == params[0]):
                    good, why = False, f"{fld} is set to {A.unparse(kws[fld])[:50]}, not to the tuple it was given"
                else:
                    # the parameter must not be re-bound before
                    cfg = ctx.cfg(m)
                    defs = cfg.reaching_defs(r, params[0])
                    if any(d.stmt is not None for d in defs):
                        good, why = False, f"the parameter {params[0]} is re-bound before it is stored"
            if good:
                out.append(ok("STORE-11", m.qualname, key, where, f"{fld} = {params[0]} unchanged"))
            else:
                out.append(bad("STORE-11", m.qualname, key, where, f"{c.name}.{mname}: {why}: arity / order of the successors changes behind the caller's back"))
    # each API method rewrites exactly its own field(s)
    allowed = {"replace_jump_targets": {"_jump_targets", "branch_value_table"}, "replace_backedges": {"backedges"}, "declare_backedge": {"backedges"}}
    for c in block_classes(prog):
        for mname, okf in allowed.items():
            m = c.methods.get(mname)
            if m is None:
                continue
            for r in [x for x in A.walk_no_nested(m.node) if isinstance(x, ast.Call) and (A.dotted(x.func) or "").split(".")[-1] == "replace"]:
                flds = {k.arg for k in r.keywords if k.arg}
                key = f"{c.name}.{mname}: fields rewritten"
                extra = flds - okf
                if extra:
                    out.append(bad("STORE-11", m.qualname, key, ctx.where(m, r), f"{c.name}.{mname} also rewrites {sorted(extra)}: a caller that only {mname.replace('_', ' ')}s changes the block's other edge data (successor count / order)"))
                else:
                    out.append(ok("STORE-11", m.qualname, key, ctx.where(m, r), f"rewrites only {sorted(flds)}", nontrivial=False))
    dm = prog.cls("BasicBlock").methods.get("declare_backedge")
    if dm is not None:
        key = "BasicBlock.declare_backedge: declares exactly the given target"
        reps = [x for x in A.walk_no_nested(dm.node) if isinstance(x, ast.Call) and (A.dotted(x.func) or "").split(".")[-1] == "replace"]
        tp = [p.arg for p in dm.params if p.arg != "self"][0]
        if reps and all(any(k.arg == "backedges" and isinstance(k.value, ast.Tuple) and [A.unparse(e) for e in k.value.elts] == [tp] for k in r.keywords) for r in reps):
            out.append(ok("STORE-11", dm.qualname, key, ctx.where(dm), f"backedges=({tp},)"))
        else:
            out.append(bad("STORE-11", dm.qualname, key, ctx.where(dm), "declare_backedge does not set backedges to exactly the given target"))
    # the filtered view keeps the order of the stored tuple
    bb = prog.cls("BasicBlock")
    jt = bb.methods.get("jump_targets")
    if jt is None:
        raise AnalysisError("BasicBlock.jump_targets not found")
    from .order import order_provenance

    key = "BasicBlock.jump_targets view"
    rets = [r for r in A.walk_no_nested(jt.node) if isinstance(r, ast.Return) and r.value is not None]
    why = []
    for r in rets:
        why += order_provenance(ctx, jt, r.value)
    from .common import expanded_function as _xf11

    jtx = _xf11(jt)  # locals that merely name self.backedges / self._jump_targets are read through
    A.set_parents(jtx)
    loops = [n for n in A.walk_no_nested(jtx) if isinstance(n, (ast.For, ast.comprehension))]
    src_ok = any(A.unparse(n.iter) == "self._jump_targets" for n in loops)
    # what the view drops: exactly the declared back edges
    conds = []
    for n in loops:
        if A.unparse(n.iter) != "self._jump_targets":
            continue
        v_ = A.unparse(n.target)
        if isinstance(n, ast.comprehension):
            conds += [(v_, c_) for c_ in n.ifs]
        else:
            from .ctrl import _guard_conditions as _gc11

            for c_ in method_calls(n, "append"):
                for t_, p_ in _gc11(n, c_):
                    te_ = ast.parse(t_, mode="eval").body
                    for cj in (te_.values if isinstance(te_, ast.BoolOp) and isinstance(te_.op, ast.And) and p_ else [te_ if p_ else ast.UnaryOp(op=ast.Not(), operand=te_)]):
                        conds.append((v_, cj))
    flat = []
    for v_, c_ in conds:
        for cj in (c_.values if isinstance(c_, ast.BoolOp) and isinstance(c_.op, ast.And) else [c_]):
            flat.append(A.cond_key(A.unparse(cj), True).replace(v_, "x") if False else (v_, A.unparse(cj)))
    extra = [t_ for v_, t_ in flat if t_ not in (f"{v_} not in self.backedges", f"not {v_} in self.backedges")]
    if src_ok and extra and not why:
        out.append(bad("STORE-11", jt.qualname, key, ctx.where(jt), f"the jump_targets view also drops successors under '{extra[0][:50]}': a block with two arcs to one target (or whatever else the test excludes) shows fewer successors than it stores, and code that copies the view back as the full tuple loses an arc"))
        return out
    if src_ok and not flat and not why:
        out.append(bad("STORE-11", jt.qualname, key, ctx.where(jt), "the jump_targets view does not drop the declared back edges"))
        return out
    if why or not src_ok:
        out.append(bad("STORE-11", jt.qualname, key, ctx.where(jt), f"the jump_targets view does not present the stored successors in their stored order ({(why or ['does not iterate self._jump_targets'])[0]})"))
    else:
        out.append(ok("STORE-11", jt.qualname, key, ctx.where(jt), "iterates self._jump_targets in order, dropping declared back edges"))
    return out


@rule("STORE-12", 3, "the raw successor tuple (which includes declared back edges) is read only where a block is copied for re-targeting or serialised; structure queries use the filtered view")
def store12(ctx) -> List[Ob]:
    out: List[Ob] = []
    prog = ctx.prog
    # only code that takes part in restructuring, editing, reading / writing or code generation: a
    # convenience query that nothing in the library calls cannot disturb them
    live = set()
    for grp in ("restructure", "edit", "io", "backend_ast", "frontend_ast"):
        try:
            live |= set(ctx.cg.reachable_from(ctx.entry_points(grp)))
        except AnalysisError:
            pass
    for fn in prog.functions:
        if fn.module not in _owner_modules(ctx):
            continue
        for n in A.walk_no_nested(fn.node):
            if not (isinstance(n, ast.Attribute) and n.attr == "_jump_targets" and isinstance(n.ctx, ast.Load)):
                continue
            if fn not in live and fn.cls is not None and not any(fn is f_ or fn.parent_fn is f_ for f_ in live):
                out.append(ok("STORE-12", fn.qualname, A.alpha_key(A.enclosing_stmt(n) or n), ctx.where(fn, n), "read by a method that no restructuring / editing / IO / code-generation path calls", nontrivial=False))
                continue
            par = A.parent(n)
            # keyed by the expression that consumes the raw tuple (the call / comparison / loop header it is an
            # operand of), not by the whole statement: naming the result differently, or building a table of
            # such results, is the same read
            cons = par if isinstance(par, (ast.Call, ast.Compare, ast.BinOp, ast.Subscript, ast.Starred)) else None
            key = "raw successors consumed by " + A.alpha_key(cons) if cons is not None else A.alpha_key(A.enclosing_stmt(n) or n)
            where = ctx.where(fn, n)
            # (a) list(X._jump_targets) / element-wise comprehension feeding replace_jump_targets in this function
            is_copy = (isinstance(par, ast.Call) and isinstance(par.func, ast.Name) and par.func.id in ("list", "tuple") and par.args and par.args[0] is n) or isinstance(par, ast.comprehension)
            if is_copy and (method_calls(fn.node, "replace_jump_targets") or fn.qualname.startswith("SCFGIO.")):
                out.append(ok("STORE-12", fn.qualname, key, where, "copied for positional re-targeting / serialisation"))
            elif fn.qualname.startswith("SCFGIO.") and isinstance(par, ast.For) and par.iter is n and any(isinstance(b_, ast.Attribute) and b_.attr == "backedges" for b_ in ast.walk(par)):
                # a writer walks the raw tuple and tells the declared back edges apart element by element
                out.append(ok("STORE-12", fn.qualname, key, where, "serialised element by element, back edges told apart inside the loop"))
            else:
                out.append(bad("STORE-12", fn.qualname, key, where, f"{A.unparse(n)[:40]} (raw successors incl. declared back edges) is read by a structure query: loops that are already restructured are seen again, back edges count as forward arcs"))
    return out


PAYLOAD_FIELDS = {"tree", "variable_assignment", "branch_value_table", "_jump_targets", "backedges"}


def _inplace_reduce_sites(prog):
    """functools.reduce(operator.iadd / iconcat / list.extend, seq) without an initial value: the first element
    of seq is extended in place"""
    out = []
    for fn in prog.functions:
        for n in A.walk_no_nested(fn.node):
            if isinstance(n, ast.Call) and (A.dotted(n.func) or "").split(".")[-1] == "reduce" and len(n.args) == 2 and not n.keywords:
                f0 = (A.dotted(n.args[0]) or "")
                if f0.split(".")[-1] in ("iadd", "iconcat", "extend", "__iadd__"):
                    out.append((fn, n))
    return out


@rule("STORE-13", 1, "a block's payload containers are never mutated in place (blocks are shared between graph, sub-graphs and callers)")
def store13(ctx) -> List[Ob]:
    out: List[Ob] = []
    prog, typer = ctx.prog, ctx.typer
    bnames = {c.name for c in block_classes(prog)}
    n_sites = 0
    for fn in prog.functions:
        env = typer.env(fn)
        for n in A.walk_no_nested(fn.node):
            tgt = None
            how = None
            if isinstance(n, (ast.Assign, ast.AugAssign, ast.Delete)):
                tg = n.targets if isinstance(n, (ast.Assign, ast.Delete)) else [n.target]
                for t in tg:
                    if isinstance(t, ast.Subscript) and isinstance(t.value, ast.Attribute) and t.value.attr in PAYLOAD_FIELDS:
                        tgt, how = t.value, "subscript store"
            elif isinstance(n, ast.Call) and isinstance(n.func, ast.Attribute) and n.func.attr in ("append", "extend", "insert", "pop", "remove", "clear", "update", "setdefault", "sort", "reverse") and isinstance(n.func.value, ast.Attribute) and n.func.value.attr in PAYLOAD_FIELDS:
                tgt, how = n.func.value, f".{n.func.attr}()"
            if tgt is None:
                continue
            bt = typer.type_of(tgt.value, env, fn)
            is_block = any(m[0] == "cls" and m[1] in bnames for m in members(strip_none(bt))) or (bt == ("any",) and fn.module.name.endswith("ast_transforms") and A.unparse(tgt.value) in ("block", "b"))
            if not is_block:
                continue
            n_sites += 1
            key = A.alpha_key(A.enclosing_stmt(n) or n)
            out.append(bad("STORE-13", fn.qualname, key, ctx.where(fn, n), f"{A.unparse(tgt)[:40]} of a block is mutated in place ({how}): the graph changes as a side effect (a second code generation / walk sees different blocks)"))
    # the same through an alias: a function that hands a payload container out as it is (`return block.tree`, or the
    # result of such a function) makes every local bound to its result a possible alias of the payload
    leaking: Set[str] = set()
    rets_of = {}
    for fn in prog.functions:
        rets_of[fn] = [r.value for r in A.walk_no_nested(fn.node) if isinstance(r, ast.Return) and r.value is not None]
    changed = True
    while changed:
        changed = False
        for fn, rets in rets_of.items():
            if fn.name in leaking:
                continue
            for v in rets:
                if isinstance(v, ast.Call) and isinstance(v.func, ast.Name) and v.func.id == "cast" and len(v.args) == 2:
                    v = v.args[1]
                hit = isinstance(v, ast.Attribute) and v.attr in PAYLOAD_FIELDS - {"_jump_targets", "backedges"}
                if isinstance(v, ast.Call):
                    cn = v.func.attr if isinstance(v.func, ast.Attribute) else (v.func.id if isinstance(v.func, ast.Name) else None)
                    hit = cn in leaking
                if hit:
                    leaking.add(fn.name)
                    changed = True
                    break
    MUT = ("append", "extend", "insert", "pop", "remove", "clear", "update", "setdefault", "sort", "reverse")
    for fn in prog.functions:
        aliases: Dict[str, ast.AST] = {}
        fresh: Set[str] = set()
        for st in A.walk_no_nested(fn.node):
            if isinstance(st, ast.Assign) and len(st.targets) == 1 and isinstance(st.targets[0], ast.Name):
                v = st.value
                cn = None
                if isinstance(v, ast.Call):
                    cn = v.func.attr if isinstance(v.func, ast.Attribute) else (v.func.id if isinstance(v.func, ast.Name) else None)
                if cn in leaking:
                    aliases.setdefault(st.targets[0].id, v)
                else:
                    fresh.add(st.targets[0].id)
        for nm, src in aliases.items():
            if nm in fresh:
                continue  # also bound to something else: which one is mutated is not decided here
            for n in A.walk_no_nested(fn.node):
                hit = None
                if isinstance(n, ast.Call) and isinstance(n.func, ast.Attribute) and n.func.attr in MUT and isinstance(n.func.value, ast.Name) and n.func.value.id == nm:
                    hit = f".{n.func.attr}()"
                elif isinstance(n, ast.AugAssign) and isinstance(n.target, ast.Name) and n.target.id == nm:
                    hit = "augmented assignment"
                elif isinstance(n, (ast.Assign, ast.Delete)) and any(isinstance(t, ast.Subscript) and isinstance(t.value, ast.Name) and t.value.id == nm for t in n.targets):
                    hit = "subscript store"
                if hit:
                    n_sites += 1
                    out.append(bad("STORE-13", fn.qualname, "alias: " + A.alpha_key(A.enclosing_stmt(n) or n), ctx.where(fn, n), f"{nm} is the result of {A.unparse(src)[:40]}, which can be a block's own container handed out uncopied ({', '.join(sorted(leaking))} return a payload as it is); it is mutated in place ({hit}): the graph changes as a side effect of reading it (a second code generation emits the statements twice)"))
    for fn_, call_ in _inplace_reduce_sites(prog):
        out.append(bad("STORE-13", fn_.qualname, "in-place reduce: " + A.alpha_key(call_)[:70], ctx.where(fn_, call_), f"'{A.unparse(call_)[:60]}' has no initial value: the first list of the sequence is extended in place - when that list is a block's own statement list (PythonASTBlock.tree) the graph is changed by reading it"))
    out.append(ok("STORE-13", "<module>", "census of in-place payload mutations", "numba_scfg:1", f"{n_sites} in-place mutation(s) of block payload containers in {len(prog.functions)} functions", nontrivial=False))
    return out


# ------------------------------------------------------------------ STORE-14

_MUTATION_CALLS = {"insert_block_and_control_blocks", "join_tails_and_exits", "insert_SyntheticFill", "insert_SyntheticTail", "insert_SyntheticExit", "insert_SyntheticReturn", "insert_block", "join_returns", "add_block", "remove_blocks", "extract_region", "loop_restructure_helper", "update_exiting"}


@rule("STORE-14", 10, "census of the places where the restructuring pipeline changes a graph: every call of an edit primitive, add_block / remove_blocks / pop on a graph in the pipeline functions is one of the audited sites (the sites the other STORE / CTRL rules reason about); a new one is a change of the algorithm that nothing checks")
def store14(ctx) -> List[Ob]:
    out: List[Ob] = []
    prog = ctx.prog
    tr = prog.module("transformations")
    scfg_cls = prog.cls("SCFG")
    fns = [f for f in prog.functions if f.module is tr]
    for nm in ("restructure", "restructure_loop", "restructure_branch", "join_returns", "join_tails_and_exits"):
        m = scfg_cls.find_method(nm)
        if m is not None:
            fns.append(m)
    for fn in fns:
        for n in A.walk_no_nested(fn.node):
            what = None
            if isinstance(n, ast.Call):
                d = (A.dotted(n.func) or "").split(".")[-1]
                if d in _MUTATION_CALLS:
                    what = d
                    if d == "insert_block":
                        bt = kw(n, "block_type", 3)
                        what += "(" + ((A.dotted(bt) or "?").split(".")[-1] if bt is not None else "?") + ")"
                    elif d.startswith("insert_Synthetic"):
                        # the typed wrapper and the primitive it forwards to are one kind of site
                        what = "insert_block(" + d[len("insert_"):] + ")"
                    elif d == "extract_region":
                        k_ = kw(n, "region_kind", 2)
                        what += "(" + (repr(k_.value) if isinstance(k_, ast.Constant) else "?") + ")"
                elif isinstance(n.func, ast.Attribute) and n.func.attr == "pop" and isinstance(n.func.value, ast.Attribute) and n.func.value.attr == "graph":
                    what = "graph.pop"
            elif isinstance(n, ast.Delete) and any(isinstance(t, ast.Subscript) and isinstance(t.value, ast.Attribute) and t.value.attr == "graph" for t in n.targets):
                what = "del graph[..]"
            elif isinstance(n, ast.Assign) and any(isinstance(t, ast.Subscript) and isinstance(t.value, ast.Attribute) and t.value.attr == "graph" for t in n.targets):
                what = "graph[..] ="
            if what is None:
                continue
            out.append(bad("STORE-14", fn.qualname, "mutation: " + what, ctx.where(fn, n), f"{fn.qualname} changes a graph through {what} at a place that is not one of the audited mutation sites of the pipeline: a step was added to (or duplicated in) the restructuring algorithm, and the rules that check path preservation, conservation and the region bookkeeping only cover the audited steps"))
    return out


# ------------------------------------------------------------------ STORE-15

# kinds of blocks that loop_restructure_helper creates *outside* the loop (one line of reason each)
_OUTSIDE_LOOP_KINDS = {
    "synth_exit": "the exit branch is entered from the latch after the loop has been left; its targets are the exit blocks",
}


@rule("STORE-15", 4, "every block that loop restructuring creates inside the loop joins the loop set on every path to the end of the helper (the set is what extract_region wraps): directly, or through a collection that is merged into the set on every path")
def store15(ctx) -> List[Ob]:
    out: List[Ob] = []
    fn = ctx.prog.find_function("loop_restructure_helper", "transformations")
    if fn is None:
        raise AnalysisError("loop_restructure_helper not found")
    params = [p.arg for p in fn.params]
    if len(params) < 2:
        raise AnalysisError("loop_restructure_helper: expected (scfg, loop)")
    L = params[1]
    cfg = ctx.cfg(fn)
    m = fn.module

    def kind_of(call: ast.Call) -> Optional[str]:
        if call.args:
            try:
                v = ctx.prog.const_value(m, call.args[0])
                return v if isinstance(v, str) else None
            except AnalysisError:
                return None
        return None

    # created names: N = <..>.new_block_name(K)
    created = []
    for st in A.walk_no_nested(fn.node):
        if isinstance(st, ast.Assign) and len(st.targets) == 1 and isinstance(st.targets[0], ast.Name) and isinstance(st.value, ast.Call) and isinstance(st.value.func, ast.Attribute) and st.value.func.attr == "new_block_name":
            created.append((st.targets[0].id, st, kind_of(st.value)))
    if not created:
        raise AnalysisError("loop_restructure_helper creates no block names")

    def names_for(nm: str, def_stmt: ast.AST) -> Set[str]:
        """nm and the locals that may hold the same name (x = nm)"""
        al = {nm}
        for st in A.walk_no_nested(fn.node):
            if isinstance(st, ast.Assign) and len(st.targets) == 1 and isinstance(st.targets[0], ast.Name) and isinstance(st.value, ast.Name) and st.value.id in al:
                al.add(st.targets[0].id)
        return al

    def adds_to(coll: str, names: Set[str]):
        return [c for c in method_calls(fn.node, "add") if A.unparse(c.func.value) == coll and c.args and isinstance(c.args[0], ast.Name) and c.args[0].id in names]

    exits = [cfg.exit]
    bnames15 = {c_.name for c_ in block_classes(ctx.prog)}
    seen_keys: Dict[str, int] = {}
    for nm, st, kind in created:
        key0 = f"{kind or '?'} block {nm} joins {L}"
        seen_keys[key0] = seen_keys.get(key0, 0) + 1
        key = key0 if seen_keys[key0] == 1 else f"{key0} #{seen_keys[key0]}"
        where = ctx.where(fn, st)
        if kind in _OUTSIDE_LOOP_KINDS:
            joins = adds_to(L, names_for(nm, st))
            if joins:
                out.append(bad("STORE-15", fn.qualname, key, ctx.where(fn, joins[0]), f"the {kind} block is added to the loop set: {_OUTSIDE_LOOP_KINDS[kind]}"))
            else:
                out.append(ok("STORE-15", fn.qualname, key.replace("joins", "stays out of"), where, _OUTSIDE_LOOP_KINDS[kind], nontrivial=False))
            continue
        names = names_for(nm, st)
        dn = cfg.node_of(st)
        # insertion sites of this name: add_block(<ctor>(name=N ..)) / insert_*(N, ..) reachable from its definition
        ins = []
        for c in A.walk_no_nested(fn.node):
            if not isinstance(c, ast.Call):
                continue
            d = (A.dotted(c.func) or "").split(".")[-1]
            if d.startswith("insert_") and c.args and isinstance(c.args[0], ast.Name) and c.args[0].id in names:
                ins.append(c)
            elif d == "add_block" and c.args:
                a0 = c.args[0]
                if isinstance(a0, ast.Name):
                    from .common import see_through

                    a0 = see_through(ctx, fn, a0) or a0
                if isinstance(a0, ast.Call) and (A.dotted(a0.func) or "").split(".")[-1] in bnames15:
                    nmk = kw(a0, "name", 0)
                    if isinstance(nmk, ast.Name) and nmk.id in names:
                        ins.append(c)
        ins = [c for c in ins if dn is None or cfg.node_of(c) in cfg.reachable(dn)]
        if not ins:
            out.append(ok("STORE-15", fn.qualname, key, where, f"{nm} is never inserted into the graph here", nontrivial=False))
            continue
        # joins: L.add(N), or M.add(N) with L.update(M) / L |= M later on every path
        direct = [cfg.node_of(c) for c in adds_to(L, names)]
        via = []
        for c in method_calls(fn.node, "add"):
            coll = A.unparse(c.func.value)
            if coll != L and c.args and isinstance(c.args[0], ast.Name) and c.args[0].id in names and isinstance(c.func.value, ast.Name):
                merges = [cfg.node_of(u) for u in method_calls(fn.node, "update") if A.unparse(u.func.value) == L and u.args and A.unparse(u.args[0]) == coll]
                merges += [cfg.node_of(u) for u in A.walk_no_nested(fn.node) if isinstance(u, ast.AugAssign) and isinstance(u.op, ast.BitOr) and A.unparse(u.target) == L and A.unparse(u.value) == coll]
                via.append((cfg.node_of(c), [x for x in merges if x is not None]))
        problems = []
        for c in ins:
            i_node = cfg.node_of(c)
            if i_node is None:
                continue
            ok_here = False
            for j in direct:
                if j is not None and (cfg.dominates(j, i_node) or all(cfg.all_paths_pass(i_node, e, lambda z, j=j: z is j) for e in exits)):
                    ok_here = True
            for j, merges in via:
                if j is None or not merges:
                    continue
                recorded = cfg.dominates(j, i_node) or all(cfg.all_paths_pass(i_node, e, lambda z, j=j: z is j) for e in exits)
                start = i_node if cfg.dominates(j, i_node) else j
                merged = all(cfg.all_paths_pass(start, e, lambda z, ms=merges: z in ms) for e in exits)
                if recorded and merged:
                    ok_here = True
            if not ok_here:
                problems.append(c)
        if problems:
            c = problems[0]
            out.append(bad("STORE-15", fn.qualname, key, ctx.where(fn, c), f"block {nm} is inserted into the graph (line {A.lineno(c)}) but some path to the end of the helper does not add it to {L}: the region extracted from {L} leaves it outside, the loop region gets a second header / loses its latch and extract_region aborts",
                           [f"insertion: {A.unparse(c)[:80]}", f"joins seen: {[A.unparse(n_.stmt)[:40] for n_ in direct if n_ is not None] + [A.unparse(j.stmt)[:40] for j, _ in via if j is not None]}"]))
        else:
            out.append(ok("STORE-15", fn.qualname, key, where, f"{nm} is in {L} on every path from its insertion to the end of the helper"))
    return out


# ------------------------------------------------------------------ STORE-16


def _forall_not_inner(test: ast.AST, L: str, H: str) -> Optional[bool]:
    """Does `test` imply: no element v of <block>.jump_targets is in the loop set L without being a header H?
    Recognised: not any(B(v) for v in X.jump_targets) / all(B(v) for v in ..), B a boolean combination of
    `v in L`, `v not in L`, `v in H`, `v not in H` (H possibly wrapped in set()/frozenset()).
    True: implied; False: recognised but weaker; None: not of this form."""
    neg = False
    t = test
    while isinstance(t, ast.UnaryOp) and isinstance(t.op, ast.Not):
        t, neg = t.operand, not neg
    if not (isinstance(t, ast.Call) and isinstance(t.func, ast.Name) and t.func.id in ("any", "all") and len(t.args) == 1 and isinstance(t.args[0], (ast.GeneratorExp, ast.ListComp)) and len(t.args[0].generators) == 1):
        return None
    g = t.args[0].generators[0]
    if not (isinstance(g.target, ast.Name) and isinstance(g.iter, ast.Attribute) and g.iter.attr == "jump_targets"):
        return None
    v = g.target.id
    body = t.args[0].elt
    if g.ifs:
        # any(B for v in X if C)  ==  any(C and B ..);  all(B for v in X if C)  ==  all(not C or B ..)
        c = g.ifs[0] if len(g.ifs) == 1 else ast.BoolOp(op=ast.And(), values=list(g.ifs))
        body = ast.BoolOp(op=ast.And(), values=[c, body]) if t.func.id == "any" else ast.BoolOp(op=ast.Or(), values=[ast.UnaryOp(op=ast.Not(), operand=c), body])

    def ev(e, inL, inH):
        if isinstance(e, ast.BoolOp):
            vals = [ev(x, inL, inH) for x in e.values]
            if any(x is None for x in vals):
                return None
            return all(vals) if isinstance(e.op, ast.And) else any(vals)
        if isinstance(e, ast.UnaryOp) and isinstance(e.op, ast.Not):
            r = ev(e.operand, inL, inH)
            return None if r is None else not r
        if isinstance(e, ast.Compare) and len(e.ops) == 1 and isinstance(e.ops[0], (ast.In, ast.NotIn)) and isinstance(e.left, ast.Name) and e.left.id == v:
            c = e.comparators[0]
            while isinstance(c, ast.Call) and isinstance(c.func, ast.Name) and c.func.id in ("set", "frozenset", "list", "tuple") and len(c.args) == 1:
                c = c.args[0]
            if isinstance(c, ast.Name) and c.id in (L, H):
                r = inL if c.id == L else inH
                return r if isinstance(e.ops[0], ast.In) else not r
        return None

    implied = True
    for inL in (False, True):
        for inH in (False, True):
            b = ev(body, inL, inH)
            if b is None:
                return None
            offending = inL and not inH
            if t.func.id == "any":
                # guard (after negation) says: no v with B(v).  Needed: offending => B
                holds_for_all = neg  # `not any(..)`
                if not holds_for_all:
                    return False
                if offending and not b:
                    implied = False
            else:
                # all(B): needed (un-negated): offending => not B
                if neg:
                    return False
                if offending and b:
                    implied = False
    return implied


@rule("STORE-16", 1, "a back edge is declared on an existing block of the loop (the single-exiting-latch short cut) only when that block has no successor inside the loop other than the header(s): a latch that also takes part in an inner cycle is re-targeted there from its filtered successor view and loses the declared arc")
def store16(ctx) -> List[Ob]:
    out: List[Ob] = []
    fn = ctx.prog.find_function("loop_restructure_helper", "transformations")
    if fn is None:
        raise AnalysisError("loop_restructure_helper not found")
    params = [p.arg for p in fn.params]
    L = params[1]
    # the headers variable: first target of `H, E = scfg.find_headers_and_entries(L)`
    H = None
    for st in A.walk_no_nested(fn.node):
        if isinstance(st, ast.Assign) and isinstance(st.value, ast.Call) and (A.dotted(st.value.func) or "").endswith("find_headers_and_entries") and isinstance(st.targets[0], ast.Tuple):
            H = A.unparse(st.targets[0].elts[0])
    if H is None:
        raise AnalysisError("loop_restructure_helper: headers not found")
    from .ctrl import _guard_conditions
    from .common import see_through

    sites = []
    for c in A.walk_no_nested(fn.node):
        if isinstance(c, ast.Call) and isinstance(c.func, ast.Attribute) and c.func.attr == "declare_backedge":
            recv = c.func.value
            if isinstance(recv, ast.Name):
                recv = see_through(ctx, fn, recv) or recv
            # an existing block: taken out of / read from the graph (not a block built on the spot)
            txt = A.unparse(recv)
            if ".pop(" in txt or "graph[" in txt or txt.startswith("scfg[") or isinstance(recv, ast.Subscript):
                sites.append(c)
    if not sites:
        out.append(ok("STORE-16", fn.qualname, "no short cut: back edges are declared on freshly built latches only", ctx.where(fn), "loop_restructure_helper declares no back edge on an existing block", nontrivial=False))
        return out
    for c in sites:
        key = "short cut guarded: " + A.alpha_key(c)
        where = ctx.where(fn, c)
        verdicts = []
        for t_, pol in _guard_conditions(fn.node, c):
            try:
                te = ast.parse(t_, mode="eval").body
            except SyntaxError:
                continue
            conj = te.values if isinstance(te, ast.BoolOp) and isinstance(te.op, ast.And) and pol else [te if pol else ast.UnaryOp(op=ast.Not(), operand=te)]
            for cj in conj:
                if isinstance(cj, ast.Name):
                    d_ = see_through(ctx, fn, cj)
                    cj = d_ if d_ is not None else cj
                # `not xs` / `len(xs) == 0` for xs = [v for v in B.jump_targets if C(v)]  is  not any(C(v) for v in ..)
                inner_, neg_ = cj, False
                while isinstance(inner_, ast.UnaryOp) and isinstance(inner_.op, ast.Not):
                    inner_, neg_ = inner_.operand, not neg_
                if isinstance(inner_, ast.Compare) and len(inner_.ops) == 1 and isinstance(inner_.ops[0], ast.Eq) and isinstance(inner_.comparators[0], ast.Constant) and inner_.comparators[0].value == 0 and isinstance(inner_.left, ast.Call) and A.unparse(inner_.left.func) == "len" and inner_.left.args:
                    inner_, neg_ = inner_.left.args[0], not neg_
                if isinstance(inner_, (ast.Name, ast.ListComp, ast.SetComp)):
                    if isinstance(inner_, ast.Name):
                        defs2 = [a_.value for a_ in A.walk_no_nested(fn.node) if isinstance(a_, ast.Assign) and len(a_.targets) == 1 and isinstance(a_.targets[0], ast.Name) and a_.targets[0].id == inner_.id]
                        d2 = defs2[0] if len(defs2) == 1 else None
                    else:
                        d2 = inner_
                    if isinstance(d2, (ast.ListComp, ast.SetComp, ast.GeneratorExp)) and len(d2.generators) == 1 and d2.generators[0].ifs:
                        g2 = d2.generators[0]
                        anyc = ast.Call(func=ast.Name(id="any", ctx=ast.Load()), args=[ast.GeneratorExp(elt=g2.ifs[0] if len(g2.ifs) == 1 else ast.BoolOp(op=ast.And(), values=list(g2.ifs)), generators=[ast.comprehension(target=g2.target, iter=g2.iter, ifs=[], is_async=0)])], keywords=[])
                        cj = ast.UnaryOp(op=ast.Not(), operand=anyc) if neg_ else anyc
                        ast.fix_missing_locations(cj)
                verdicts.append(_forall_not_inner(cj, L, H))
        if any(v is True for v in verdicts):
            out.append(ok("STORE-16", fn.qualname, key, where, f"taken only when no successor of the latch is in {L} without being in {H}"))
        elif any(v is False for v in verdicts):
            out.append(bad("STORE-16", fn.qualname, key, where, f"the guard on the latch's successors does not exclude every successor that is in {L} and not in {H}"))
        else:
            out.append(bad("STORE-16", fn.qualname, key, where, f"{A.unparse(c)[:60]} is reached without a test that the latch has no other successor inside {L}: a three-way latch (exit, header, inner block or itself) keeps an inner cycle; restructuring that cycle copies the latch's filtered successors back as the full tuple, the declared arc is lost (or declare_backedge asserts on the second declaration)"))
    return out


# ------------------------------------------------------------------ STORE-17


@rule("STORE-17", 2, "the stage drivers hand every region to the transformation as the block that is stored in the hierarchy (the top-level region, then each block yielded by iter_subregions): they do not recurse through a sub-graph's own back pointer, which goes stale whenever an edit re-creates the (frozen) region block")
def store17(ctx) -> List[Ob]:
    out: List[Ob] = []
    scfg = ctx.prog.cls("SCFG")
    for mname in ("restructure_loop", "restructure_branch"):
        m = scfg.find_method(mname)
        if m is None:
            raise AnalysisError(f"SCFG.{mname} not found")
        key = f"{mname}: regions come from the hierarchy walk"
        where = ctx.where(m)
        calls = [c for c in A.walk_no_nested(m.node) if isinstance(c, ast.Call) and isinstance(c.func, ast.Name) and c.func.id == mname and len(c.args) == 1]
        rec = [c for c in A.walk_no_nested(m.node) if isinstance(c, ast.Call) and isinstance(c.func, ast.Attribute) and c.func.attr in ("restructure_loop", "restructure_branch", "restructure") and A.unparse(c.func.value) != "self"]
        if rec:
            out.append(bad("STORE-17", m.qualname, key, ctx.where(m, rec[0]), f"{A.unparse(rec[0])[:60]} lets a sub-graph restructure itself: it starts from the sub-graph's own `region` back pointer, which still names the old object after insert_block / insert_block_and_control_blocks re-created the region block - header and exiting replacements are then written to a copy that is not in the hierarchy"))
            continue
        top = [c for c in calls if A.unparse(c.args[0]) == "self.region"]
        walk = []
        for lp in [n for n in A.walk_no_nested(m.node) if isinstance(n, ast.For)]:
            if isinstance(lp.iter, ast.Call) and isinstance(lp.iter.func, ast.Attribute) and lp.iter.func.attr == "iter_subregions" and A.unparse(lp.iter.func.value) == "self":
                walk += [c for c in calls if any(c is x for x in ast.walk(lp)) and A.unparse(c.args[0]) == A.unparse(lp.target)]
        other = [c for c in calls if c not in top and c not in walk]
        if top and walk and not other:
            out.append(ok("STORE-17", m.qualname, key, where, f"{mname}(self.region), then {mname}(region) for region in self.iter_subregions()"))
        elif other:
            out.append(bad("STORE-17", m.qualname, key, ctx.where(m, other[0]), f"{A.unparse(other[0])[:60]}: the region handed to the transformation is neither the top-level region nor a block yielded by iter_subregions"))
        else:
            out.append(unresolved("STORE-17", m.qualname, key, where, "the stage driver is not written as 'top-level region, then every region of iter_subregions()'"))
    return out


@rule("STORE-18", 3, "restructure() closes the graph, then restructures loops, then branches, on every path to its return: no stage is skipped or taken out of order under a condition on the graph")
def store18(ctx) -> List[Ob]:
    out: List[Ob] = []
    scfg = ctx.prog.cls("SCFG")
    m = scfg.find_method("restructure")
    if m is None:
        raise AnalysisError("SCFG.restructure not found")
    stages = ["join_returns", "restructure_loop", "restructure_branch"]
    cfg = ctx.cfg(m)
    where = ctx.where(m)

    def calls_stage(n, st) -> bool:
        if n.stmt is None or isinstance(n.stmt, (ast.FunctionDef, ast.AsyncFunctionDef, ast.ClassDef)):
            return False
        roots = [n.stmt.test] if n.kind in ("if", "while") else ([n.stmt.iter] if n.kind == "for" else [n.stmt])
        for r in roots:
            for c in ast.walk(r):
                if isinstance(c, ast.Call) and isinstance(c.func, ast.Attribute) and c.func.attr == st and A.unparse(c.func.value) == "self":
                    return True
        return False

    # the stages handed to a loop as bound methods:  for stage in (self.join_returns, ..): stage()
    for lp in [n for n in A.walk_no_nested(m.node) if isinstance(n, ast.For)]:
        if isinstance(lp.iter, (ast.Tuple, ast.List)) and isinstance(lp.target, ast.Name) and not lp.orelse:
            names = [e.attr if isinstance(e, ast.Attribute) and A.unparse(e.value) == "self" else None for e in lp.iter.elts]
            body_calls = [s_ for s_ in lp.body if isinstance(s_, ast.Expr) and isinstance(s_.value, ast.Call) and isinstance(s_.value.func, ast.Name) and s_.value.func.id == lp.target.id and not s_.value.args]
            if names and all(names) and len(body_calls) == 1 and len(lp.body) == 1 and cfg.all_paths_pass(cfg.entry, cfg.exit, lambda n, lp=lp: n.stmt is lp):
                key = "stages in order on every path"
                if [x for x in names if x in stages] == stages:
                    out.append(ok("STORE-18", m.qualname, key, where, "one unconditional loop calls " + ", ".join(names) + " in this order"))
                else:
                    out.append(bad("STORE-18", m.qualname, key, ctx.where(m, lp), f"the stages are run in the order {names}: branch restructuring needs the closed graph with its loops already extracted"))
                return out
    present = [st for st in stages if any(calls_stage(n, st) for n in cfg.nodes)]
    for st in stages:
        key = f"{st} on every path"
        if st not in present:
            out.append(bad("STORE-18", m.qualname, key, where, f"restructure() does not call self.{st}(): the stage is missing from the pipeline"))
            continue
        if cfg.exit in cfg.reachable(cfg.entry, avoid=lambda n, st=st: calls_stage(n, st)):
            skip = next((n for n in cfg.nodes if n.kind == "if" and n.stmt is not None), None)
            out.append(bad("STORE-18", m.qualname, key, ctx.where(m, skip.stmt) if skip is not None else where, f"there is a path through restructure() that returns without running self.{st}(): for the graphs that take it the result is not closed / keeps its loops / keeps blocks with two successors outside of head regions"))
        else:
            out.append(ok("STORE-18", m.qualname, key, where, f"every path from the entry to the return runs self.{st}()"))
    key = "stage order"
    if len(present) == 3:
        bad_order = None
        for i, later in enumerate(stages):
            for earlier in stages[:i]:
                # a node that runs `later` must not be reachable without having run `earlier`
                reach = cfg.reachable(cfg.entry, avoid=lambda n, e=earlier: calls_stage(n, e), include_src=True)
                if any(calls_stage(n, later) and not calls_stage(n, earlier) for n in reach):
                    bad_order = (earlier, later)
        if bad_order:
            out.append(bad("STORE-18", m.qualname, key, where, f"self.{bad_order[1]}() can run before self.{bad_order[0]}(): loops are looked for in a graph that is not closed yet / branches in a graph that still has its loops"))
        else:
            out.append(ok("STORE-18", m.qualname, key, where, "join_returns, then restructure_loop, then restructure_branch"))
    return out


@rule("STORE-19", 1, "insert_block gives a predecessor an arc to the new block that it did not have only when no successors are given (closing an exit): the append is keyed on the `successors` argument, never on the predecessor's own successor list")
def store19(ctx) -> List[Ob]:
    out: List[Ob] = []
    from .ctrl import _guard_conditions

    fn = ctx.prog.cls("SCFG").find_method("insert_block")
    if fn is None:
        raise AnalysisError("SCFG.insert_block not found")
    params = [p.arg for p in fn.params if p.arg != "self"]
    if len(params) < 3:
        raise AnalysisError("insert_block: expected (new_name, predecessors, successors, ..)")
    new_name, _preds, succs = params[0], params[1], params[2]
    sites = []
    for c in A.walk_no_nested(fn.node):
        if isinstance(c, ast.Call) and isinstance(c.func, ast.Attribute) and c.func.attr in ("append", "insert", "extend") and c.args and new_name in A.names_in(c.args[-1]):
            sites.append(c)
        elif isinstance(c, ast.AugAssign) and isinstance(c.op, ast.Add) and new_name in A.names_in(c.value):
            sites.append(c)
        elif isinstance(c, ast.Assign) and isinstance(c.value, ast.BinOp) and isinstance(c.value.op, ast.Add) and new_name in A.names_in(c.value.right) and isinstance(c.value.right, (ast.Tuple, ast.List)):
            sites.append(c)
    key = "arc to the new block added only when no successors are given"
    if not sites:
        out.append(unresolved("STORE-19", fn.qualname, key, ctx.where(fn), "no statement that appends the new block's name to a successor list found (closing a block without successors relies on it)"))
        return out
    empt_true = {f"len({succs}) == 0", f"len({succs}) < 1", f"{succs} == []"}
    empt_false = {succs, f"len({succs}) > 0", f"len({succs})", f"len({succs}) != 0", f"len({succs}) >= 1"}
    for c in sites:
        st = A.enclosing_stmt(c) or c
        gs = _guard_conditions(fn.node, st)
        about_succ = [(t, p) for t, p in gs if t in empt_true and p or t in empt_false and not p]
        other = [(t, p) for t, p in gs if (t, p) not in about_succ and not t.startswith("isinstance(")]
        where = ctx.where(fn, c)
        if about_succ and not other:
            out.append(ok("STORE-19", fn.qualname, key, where, f"'{A.unparse(st)[:40]}' runs exactly when `{succs}` is empty"))
        elif not about_succ:
            out.append(bad("STORE-19", fn.qualname, key, where, f"'{A.unparse(st)[:40]}' runs under {[t if p else 'not ' + t for t, p in gs] or 'no condition'}, not under `{succs}` being empty: a predecessor that has no arc into the given successors (a return block among the tails; a latch whose only arc is a declared back edge) gains an arc to the inserted block, and closing the graph skips an exit that still has raw targets"))
        else:
            out.append(bad("STORE-19", fn.qualname, key, where, f"'{A.unparse(st)[:40]}' additionally depends on {[t if p else 'not ' + t for t, p in other]}: with no successors given, a predecessor for which that fails is not connected to the new block"))
    return out


@rule("STORE-20", 2, "where loop restructuring / header unification re-points one arc of a block (a subscript store into the copy of its successor list), the new target is a name drawn from the generator for this arc on every path - never a name carried over from an earlier arc or a placeholder")
def store20(ctx) -> List[Ob]:
    out: List[Ob] = []
    from .name import _fresh

    fns = []
    f1 = ctx.prog.find_function("loop_restructure_helper")
    if f1 is not None:
        fns.append(f1)
    f2 = ctx.prog.cls("SCFG").find_method("insert_block_and_control_blocks")
    if f2 is not None:
        fns.append(f2)
    if not fns:
        raise AnalysisError("loop_restructure_helper / insert_block_and_control_blocks not found")
    n = 0
    for fn in fns:
        for st in A.walk_no_nested(fn.node):
            if not (isinstance(st, ast.Assign) and len(st.targets) == 1 and isinstance(st.targets[0], ast.Subscript) and isinstance(st.targets[0].value, ast.Name) and isinstance(st.value, ast.Name)):
                continue
            L = st.targets[0].value.id
            # the list is a copy of a block's successor tuple
            ldefs = [d for d in ctx.cfg(fn).reaching_defs(st, L) if d.stmt is not None and isinstance(d.stmt, ast.Assign)]
            if not ldefs or not all("jump_targets" in A.unparse(d.stmt.value) for d in ldefs):
                continue
            n += 1
            key = "arc re-pointed to a name drawn for it: " + A.alpha_key(st)
            v, deriv = _fresh(ctx, fn, st.value, st)
            if v == "fresh":
                out.append(ok("STORE-20", fn.qualname, key, ctx.where(fn, st), f"{st.value.id} comes from the name generator on every path"))
            else:
                out.append(bad("STORE-20", fn.qualname, key, ctx.where(fn, st), f"{st.value.id} is not a freshly drawn name on every path to this store ({(deriv or ['?'])[-1][:80]}): a second arc of the same block is sent to the assignment block of the first - its control value selects the first arc's target", deriv))
    if n == 0:
        out.append(unresolved("STORE-20", fns[0].qualname, "arc re-pointing stores", ctx.where(fns[0]), "no subscript store into a copy of a successor list found"))
    return out

