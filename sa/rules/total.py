"""Engine TOTAL - totality of case analyses, rejection points, termination idioms (DESIGN 5.7)."""
from __future__ import annotations

import ast
from typing import Dict, List, Optional, Set

from .. import astutil as A
from ..domains import LEN_CLASSES, eval_len_test
from ..model import AnalysisError
from .. import types as T
from ..report import Ob, bad, ok, unresolved
from . import rule
from .common import is_raise_of, kw, method_calls


def _run_lens(stmts, lens, is_target=None):
    """abstractly run a statement list whose branch conditions are len() guards:
    returns ('return', node) / ('reject', node) / ('target', node) / ('unknown', node) / ('end', None)"""
    for st in stmts:
        if is_target is not None and is_target(st):
            return "target", st
        if isinstance(st, ast.If):
            v = eval_len_test(st.test, lens)
            if v is None:
                return "unknown", st
            r = _run_lens(st.body if v else st.orelse, lens, is_target)
            if r[0] != "end":
                return r
            continue
        if isinstance(st, ast.Return):
            return "return", st
        if isinstance(st, ast.Raise):
            return "reject", st
        if isinstance(st, ast.Assert) and isinstance(st.test, ast.Constant) and not st.test.value:
            return "reject", st
    return "end", None


def _run_lens_all(stmts, lens, is_target=None, forks=None):
    """like _run_lens, but a test that is not a len() guard is followed both ways: the set of outcome kinds
    ('return' / 'reject' / 'target' / 'end'); the tests that were followed both ways are appended to forks"""
    outs = set()
    for i, st in enumerate(stmts):
        if is_target is not None and is_target(st):
            outs.add("target")
            return outs
        if isinstance(st, ast.If):
            v = eval_len_test(st.test, lens)
            arms = [st.body if v else st.orelse] if v is not None else [st.body, st.orelse]
            if v is None and forks is not None:
                forks.append(st)
            go_on = False
            for arm in arms:
                r = _run_lens_all(arm, lens, is_target, forks)
                if "end" in r:
                    go_on = True
                outs |= r - {"end"}
            if not go_on:
                return outs
            continue
        if isinstance(st, ast.Return):
            outs.add("return")
            return outs
        if isinstance(st, ast.Raise) or isinstance(st, ast.Assert) and isinstance(st.test, ast.Constant) and not st.test.value:
            outs.add("reject")
            return outs
    outs.add("end")
    return outs


@rule("TOTAL-1", 16, "the case analysis of join_tails_and_exits covers every combination of one-or-more tails and exits")
def total1(ctx) -> List[Ob]:
    out: List[Ob] = []
    fn = ctx.prog.cls("SCFG").find_method("join_tails_and_exits")
    if fn is None:
        raise AnalysisError("SCFG.join_tails_and_exits not found")
    params = [p.arg for p in fn.params if p.arg != "self"]
    if len(params) != 2:
        raise AnalysisError("join_tails_and_exits: expected two parameters")
    body = A.body_without_docstring(fn.node)
    for lt in LEN_CLASSES[1:]:
        for le in LEN_CLASSES[1:]:
            lens = {params[0]: lt, params[1]: le}
            name = lambda v: f"{v}+" if v == 4 else str(v)  # noqa: E731
            key = f"len({params[0]})={name(lt)}, len({params[1]})={name(le)}"
            kind_, node_ = _run_lens(body, lens)
            if kind_ == "unknown":
                jr = _JoinRun(params[0], params[1], lt, le)
                k2 = jr.run(body)
                if k2 in ("return", "reject"):
                    kind_, node_ = k2, jr.node
            if kind_ == "return":
                guard = next((a for a in A.ancestors(node_) if isinstance(a, ast.If)), None)
                verdict = ("ok", f"handled by 'if {A.unparse(guard.test)}'" if guard is not None else "default return", node_)
            elif kind_ == "reject":
                verdict = ("bad", f"falls through every case to '{A.unparse(node_)[:40]}'", node_)
            elif kind_ == "unknown":
                verdict = ("unresolved", f"guard '{A.unparse(node_.test)}' cannot be evaluated on length classes", node_)
            else:
                verdict = ("bad", "no case returns", fn.node)
            k, msg, node = verdict
            where = ctx.where(fn, node)
            if k == "ok":
                out.append(ok("TOTAL-1", fn.qualname, key, where, msg))
            elif k == "unresolved":
                out.append(unresolved("TOTAL-1", fn.qualname, key, where, msg))
            else:
                out.append(bad("TOTAL-1", fn.qualname, key, where, f"{key}: {msg} (AssertionError instead of joining)"))
    return out


@rule("TOTAL-2", 4, "closing the graph changes it exactly when there are two or more exits")
def total2(ctx) -> List[Ob]:
    out: List[Ob] = []
    fn = ctx.prog.cls("SCFG").find_method("join_returns")
    if fn is None:
        raise AnalysisError("SCFG.join_returns not found")
    muts = [c for c in A.walk_no_nested(fn.node) if isinstance(c, ast.Call) and isinstance(c.func, ast.Attribute) and c.func.attr.startswith("insert_")]
    if not muts:
        raise AnalysisError("join_returns: no insertion found")
    c = muts[0]
    body = A.body_without_docstring(fn.node)
    stmt_c = A.enclosing_stmt(c)
    lst = None
    for x in A.walk_no_nested(fn.node):
        if isinstance(x, ast.Call) and isinstance(x.func, ast.Name) and x.func.id == "len" and x.args and isinstance(x.args[0], ast.Name):
            lst = x.args[0].id
    for n in LEN_CLASSES:
        key = f"{n if n < 4 else '4+'} exit block(s)"
        where = ctx.where(fn, c)
        kind_, node_ = _run_lens(body, {lst: n} if lst else {}, is_target=lambda st: st is stmt_c or any(a is st for a in A.ancestors(stmt_c)) and not isinstance(st, ast.If))
        v = True if kind_ == "target" else (None if kind_ == "unknown" else False)
        want = n >= 2
        if v is None:
            # a guard that is not about the number of exits: followed both ways
            forks: list = []
            kinds = _run_lens_all(body, {lst: n} if lst else {}, is_target=lambda st: st is stmt_c or any(a is st for a in A.ancestors(stmt_c)) and not isinstance(st, ast.If), forks=forks)
            if kinds == {"target"}:
                v = True
            elif "target" not in kinds:
                v = False
            elif want and forks:
                out.append(bad("TOTAL-2", fn.qualname, key, ctx.where(fn, forks[0]), f"with {key} the common exit is inserted only when '{A.unparse(forks[0].test)[:70]}' allows it: a graph with several exits for which it does not is left open (no unique exit, no common post-dominator for its branches)"))
                continue
        if v is None:
            out.append(unresolved("TOTAL-2", fn.qualname, key, where, "guard of the insertion cannot be evaluated"))
        elif v == want:
            out.append(ok("TOTAL-2", fn.qualname, key, where, "a common exit is inserted" if want else "no-op"))
        else:
            out.append(bad("TOTAL-2", fn.qualname, key, where, f"with {key} the graph is {'changed' if v else 'left with several exits'}: closing must be a no-op for at most one exit and leave exactly one exit otherwise"))
    # the predecessors are all exit blocks and the successors empty
    key = "common exit fed by every exit block"
    preds = c.args[1] if len(c.args) > 1 else None
    succ = c.args[2] if len(c.args) > 2 else None
    cfg = ctx.cfg(fn)
    okp = False
    if isinstance(preds, ast.Name):
        for d in cfg.reaching_defs(c, preds.id):
            if d.stmt is not None and isinstance(d.stmt, ast.Assign) and isinstance(d.stmt.value, ast.Call) and isinstance(d.stmt.value.func, ast.Name) and d.stmt.value.func.id in ("tuple", "list", "sorted") and len(d.stmt.value.args) == 1 and isinstance(d.stmt.value.args[0], (ast.GeneratorExp, ast.ListComp)):
                # tuple(x for ..) / list(x for ..) of the same comprehension: read as the list comprehension
                g_ = d.stmt.value.args[0]
                d_stmt_value = ast.copy_location(ast.ListComp(elt=g_.elt, generators=g_.generators), g_)
            else:
                d_stmt_value = d.stmt.value if d.stmt is not None and isinstance(d.stmt, ast.Assign) else None
            if d.stmt is not None and isinstance(d.stmt, ast.Assign) and isinstance(d_stmt_value, ast.ListComp):
                lc = d_stmt_value
                g0 = lc.generators[0]
                it_txt = A.unparse(g0.iter)
                if len(lc.generators) == 1 and len(g0.ifs) == 1 and "is_exiting" in A.unparse(g0.ifs[0]):
                    if it_txt in ("self.graph", "self.graph.keys()") and A.unparse(lc.elt) == A.unparse(g0.target):
                        okp = True
                    # for name, block in self.graph.items() if block.is_exiting -> name
                    elif it_txt == "self.graph.items()" and isinstance(g0.target, ast.Tuple) and len(g0.target.elts) == 2 and A.unparse(lc.elt) == A.unparse(g0.target.elts[0]) and A.unparse(g0.ifs[0]) in (f"{A.unparse(g0.target.elts[1])}.is_exiting",):
                        okp = True
            elif d.stmt is not None and isinstance(d.stmt, ast.Assign) and isinstance(d.stmt.value, ast.List) and not d.stmt.value.elts:
                # the same as a loop: nodes = []; for name in self.graph: if self.graph[name].is_exiting: nodes.append(name)
                for lp in A.walk_no_nested(fn.node):
                    if isinstance(lp, ast.For) and A.unparse(lp.iter) in ("self.graph", "self.graph.keys()", "self.graph.items()"):
                        nm = A.unparse(lp.target.elts[0]) if isinstance(lp.target, ast.Tuple) else A.unparse(lp.target)
                        apps = [c2 for c2 in A.walk_no_nested(lp) if isinstance(c2, ast.Call) and isinstance(c2.func, ast.Attribute) and c2.func.attr == "append" and A.unparse(c2.func.value) == preds.id and c2.args and A.unparse(c2.args[0]) == nm]
                        gds = [a for c2 in apps for a in A.ancestors(c2) if isinstance(a, ast.If) and any(x is lp for x in A.ancestors(a))]
                        if len(apps) == 1 and len(gds) == 1 and "is_exiting" in A.unparse(gds[0].test) and not isinstance(gds[0].test, ast.UnaryOp):
                            okp = True
    oks = isinstance(succ, (ast.List, ast.Tuple)) and not succ.elts
    if okp and oks:
        out.append(ok("TOTAL-2", fn.qualname, key, ctx.where(fn, c), "predecessors = all blocks with is_exiting, successors = []"))
    else:
        out.append(bad("TOTAL-2", fn.qualname, key, ctx.where(fn, c), "the synthetic return is not inserted after exactly the blocks without successors with no successors of its own"))
    return out


def _raise_key(n: ast.Raise) -> str:
    """a raise is keyed by the exception class, not by its message (messages get reworded)"""
    if n.exc is None:
        return "raise"
    e = n.exc.func if isinstance(n.exc, ast.Call) else n.exc
    d = A.dotted(e)
    if d and d.split(".")[-1][:1].isupper():
        return "raise " + d.split(".")[-1] + ("(...)" if isinstance(n.exc, ast.Call) else "")
    return "raise " + A.alpha_key(n.exc)


def _dead_else_arm(n: ast.AST) -> bool:
    """n sits in an arm of an if/elif chain that cannot run: an arm whose test repeats the test of an earlier
    arm, or the final `else` of a chain two of whose tests are exact complements (`x in s` ... `x not in s`)"""
    child = n
    for anc in A.ancestors(n):
        if isinstance(anc, ast.If) and (child in anc.body or (child in anc.orelse and not (len(anc.orelse) == 1 and isinstance(anc.orelse[0], ast.If)))):
            in_body = child in anc.body
            earlier = []
            cur = anc
            while True:
                par = A.parent(cur)
                if isinstance(par, ast.If) and len(par.orelse) == 1 and par.orelse[0] is cur:
                    earlier.append(par.test)
                    cur = par
                else:
                    break
            if in_body:
                mine = A.cond_key(A.unparse(anc.test), True)
                if mine in {A.cond_key(A.unparse(t), True) for t in earlier}:
                    return True
            else:
                tests = [anc.test] + earlier
                keys_pos = {A.cond_key(A.unparse(t), True) for t in tests}
                keys_neg = {A.cond_key(A.unparse(t), False) for t in tests}
                if keys_pos & keys_neg:
                    return True
        if isinstance(anc, (ast.FunctionDef, ast.AsyncFunctionDef)):
            break
        child = anc
    return False


def _is_narrowing(test: ast.AST) -> bool:
    """assert x is not None / assert isinstance(x, C): type narrowing, not a shape condition"""
    if isinstance(test, ast.BoolOp):
        return all(_is_narrowing(v) for v in test.values)
    if isinstance(test, ast.Compare) and len(test.ops) == 1 and isinstance(test.ops[0], (ast.IsNot,)) and isinstance(test.comparators[0], ast.Constant) and test.comparators[0].value is None:
        return True
    if isinstance(test, ast.Call) and isinstance(test.func, ast.Name) and test.func.id == "isinstance":
        return True
    return False


@rule("TOTAL-3", 15, "no rejection point (assert, raise, next(iter()) without default, single-target unpack) is reachable from restructure() other than the audited ones")
def total3(ctx) -> List[Ob]:
    out: List[Ob] = []
    cg = ctx.cg
    roots = ctx.entry_points("restructure")
    reach = cg.reachable_from(roots)
    ctx.stats["TOTAL-3.reachable_functions"] = sorted(f.qualname for f in reach)
    from .order import FnOrder, _analysis

    oa = _analysis(ctx)
    for fn in sorted(reach, key=lambda f: (f.module.name, f.qualname)):
        fo = FnOrder(oa, fn)
        for n in A.walk_no_nested(fn.node):
            if isinstance(n, ast.Assert):
                key = "assert " + A.alpha_key(n.test)
                where = ctx.where(fn, n)
                if _is_narrowing(n.test):
                    out.append(ok("TOTAL-3", fn.qualname, key, where, "type-narrowing assertion (not a condition on the graph's shape)", nontrivial=False))
                elif isinstance(n.test, ast.Constant) and n.test.value is False and _dead_else_arm(n):
                    out.append(ok("TOTAL-3", fn.qualname, key, where, "in an arm of a chain whose tests are exhaustive (a test and its negation): the arm cannot run"))
                else:
                    out.append(bad("TOTAL-3", fn.qualname, key, where, f"shape-dependent assertion '{A.unparse(n.test)[:60]}' reachable from restructure(): a closed CFG that violates it is rejected with AssertionError",
                                   ["call path: " + " -> ".join(f.qualname for f in (cg.path(roots[0], fn) or []))]))
            elif isinstance(n, ast.Raise):
                key = _raise_key(n)
                where = ctx.where(fn, n)
                if _dead_else_arm(n):
                    out.append(ok("TOTAL-3", fn.qualname, key, where, "final else of a chain whose tests are exhaustive (a test and its negation): the arm cannot run"))
                    continue
                out.append(bad("TOTAL-3", fn.qualname, key, where, f"'{A.unparse(n)[:60]}' reachable from restructure()",
                               ["call path: " + " -> ".join(f.qualname for f in (cg.path(roots[0], fn) or []))]))
            elif isinstance(n, ast.Call) and isinstance(n.func, ast.Name) and n.func.id == "next" and len(n.args) == 1 and isinstance(n.args[0], ast.Call) and isinstance(n.args[0].func, ast.Name) and n.args[0].func.id == "iter":
                src = n.args[0].args[0] if n.args[0].args else n
                key = "next(iter) of " + A.alpha_key(src)
                where = ctx.where(fn, n)
                if fo._singleton_guard(n, src):
                    out.append(ok("TOTAL-3", fn.qualname, key, where, f"{A.unparse(n)} under a guard that {A.unparse(src)[:30]} is non-empty (exactly one element)"))
                else:
                    out.append(bad("TOTAL-3", fn.qualname, key, where, f"{A.unparse(n)[:50]} raises StopIteration when {A.unparse(src)[:30]} is empty"))
            elif isinstance(n, ast.Assign) and any(isinstance(t, (ast.List, ast.Tuple)) and len(t.elts) == 1 for t in n.targets):
                key = "unpack " + A.alpha_key(n)
                if fo._singleton_guard(n, n.value):
                    out.append(ok("TOTAL-3", fn.qualname, key, ctx.where(fn, n), f"single-target unpack '{A.unparse(n)[:50]}' under a guard that {A.unparse(n.value)[:30]} has exactly one element"))
                else:
                    out.append(bad("TOTAL-3", fn.qualname, key, ctx.where(fn, n), f"single-target unpack '{A.unparse(n)[:50]}' raises ValueError unless exactly one element"))
    return out


@rule("TOTAL-4", 6, "every while loop reachable from restructure() matches a termination idiom")
def total4(ctx) -> List[Ob]:
    out: List[Ob] = []
    reach = ctx.cg.reachable_from(ctx.entry_points("restructure"))
    for fn in sorted(reach, key=lambda f: (f.module.name, f.qualname)):
        for w in A.walk_no_nested(fn.node):
            if not isinstance(w, ast.While):
                continue
            # keyed by the condition under which the loop goes on: `while C:` and
            # `while True: ..; if not C: break; ..` (one top-level exit test) give the same key
            cont = w.test
            if isinstance(w.test, ast.Constant) and w.test.value is True:
                exits_ = [s_ for s_ in w.body if isinstance(s_, ast.If) and s_.body and isinstance(s_.body[-1], ast.Break) and len(s_.body) == 1]
                if len(exits_) == 1 and not any(isinstance(b_, ast.Break) for s_ in w.body if s_ is not exits_[0] for b_ in A.walk_no_nested(s_)):
                    cont = ast.parse(A.cond_key(A.unparse(exits_[0].test), False), mode="eval").body
                    key = "while " + A.cond_key(A.unparse(exits_[0].test), False)
                else:
                    key = "while " + A.alpha_key(w.test)
            else:
                key = "while " + A.alpha_key(w.test)
            where = ctx.where(fn, w)
            idiom = _termination_idiom(ctx, fn, w)
            if idiom[0]:
                out.append(ok("TOTAL-4", fn.qualname, key, where, idiom[1]))
            else:
                out.append(bad("TOTAL-4", fn.qualname, key, where, f"loop matches no termination idiom: {idiom[1]}"))
    return out


def _termination_idiom(ctx, fn, w: ast.While):
    body_txt = A.unparse(ast.Module(w.body, []))
    test = w.test
    # (a) work-list with visited set
    work = None
    if isinstance(test, ast.Name):
        work = test.id
    elif isinstance(test, ast.Constant) and test.value is True:
        # `while True: if work: x = work.pop() else: return`
        for s in w.body:
            if isinstance(s, ast.If) and isinstance(s.test, ast.Name) and any(isinstance(r, ast.Return) for r in s.orelse):
                work = s.test.id
    if work is not None:
        pops = [c for c in A.walk_no_nested(ast.Module(w.body, [])) if isinstance(c, ast.Call) and isinstance(c.func, ast.Attribute) and c.func.attr in ("pop", "popleft") and A.unparse(c.func.value) == work]
        grows = [c for c in A.walk_no_nested(ast.Module(w.body, [])) if isinstance(c, ast.Call) and isinstance(c.func, ast.Attribute) and c.func.attr in ("extend", "append", "update", "add", "appendleft") and A.unparse(c.func.value) == work]
        if pops:
            if not grows:
                return True, f"work-list {work} only shrinks"
            # every growth must happen after the popped item was added to a seen-collection that gates re-processing
            cfg = ctx.cfg(fn)
            popped = None
            for s in A.walk_no_nested(ast.Module(w.body, [])):
                if isinstance(s, ast.Assign) and s.value in pops and isinstance(s.targets[0], ast.Name):
                    popped = s.targets[0].id
                if isinstance(s, ast.Assign) and isinstance(s.targets[0], ast.Tuple) and s.value in pops:
                    popped = A.unparse(s.targets[0].elts[0])
            seen_adds = [c for c in A.walk_no_nested(ast.Module(w.body, [])) if isinstance(c, ast.Call) and isinstance(c.func, ast.Attribute) and c.func.attr in ("add", "append") and A.unparse(c.func.value) != work and c.args and popped is not None and A.unparse(c.args[0]) == popped]
            def _gate_cmps(t):
                # membership tests of the popped item: the test itself, or a disjunct of an `or` whose arm skips the item
                if isinstance(t, ast.Compare) and isinstance(t.ops[0], (ast.In, ast.NotIn)) and popped is not None and A.unparse(t.left) == popped:
                    return [t]
                if isinstance(t, ast.BoolOp) and isinstance(t.op, ast.Or):
                    return [c for v in t.values for c in _gate_cmps(v) if isinstance(c.ops[0], ast.In)]
                return []

            gates = [s for s in A.walk_no_nested(ast.Module(w.body, [])) if isinstance(s, ast.If) and _gate_cmps(s.test) and (isinstance(s.test, ast.Compare) or (s.body and isinstance(s.body[-1], ast.Continue)))]
            if seen_adds and gates:
                seen_name = A.unparse(seen_adds[0].func.value)
                if any(A.unparse(c.comparators[0]) == seen_name for g in gates for c in _gate_cmps(g.test)):
                    # each growth is dominated (within the iteration) by the seen-add or happens on the not-seen side
                    ok_all = True
                    for gcall in grows:
                        gn = cfg.node_of(gcall)
                        adds_n = [cfg.node_of(a) for a in seen_adds]
                        wn = cfg.node_of(w)
                        # path from loop header to the growth that avoids every seen-add
                        if gn in cfg.reachable(wn, avoid=lambda z: z in adds_n):
                            ok_all = False
                    if ok_all:
                        return True, f"visited-set work-list: {popped} is added to {seen_name} on every path that grows {work}, and seen items are skipped"
                    return False, f"{work} can grow on a path that does not record {popped} as seen"
            # (a') marked when pushed: every growth is `work.append(x)` on the `x not in S` side of a test, next to
            # `S.add(x)` - each push puts a new element into S, which only holds names of the (finite) graph
            def _push_gated(gcall) -> bool:
                if gcall.func.attr not in ("append", "add", "appendleft") or len(gcall.args) != 1:
                    return False
                x = A.unparse(gcall.args[0])
                child = A.enclosing_stmt(gcall)
                for anc in A.ancestors(child):
                    if isinstance(anc, ast.If):
                        t = anc.test
                        side = None
                        if isinstance(t, ast.Compare) and len(t.ops) == 1 and A.unparse(t.left) == x:
                            if isinstance(t.ops[0], ast.NotIn) and any(child is y for b_ in anc.body for y in ast.walk(b_)):
                                side = anc.body
                            elif isinstance(t.ops[0], ast.In) and any(child is y for b_ in anc.orelse for y in ast.walk(b_)):
                                side = anc.orelse
                        if side is not None:
                            S = A.unparse(t.comparators[0])
                            if S != work and any(isinstance(c, ast.Call) and isinstance(c.func, ast.Attribute) and c.func.attr == "add" and A.unparse(c.func.value) == S and c.args and A.unparse(c.args[0]) == x for b_ in side for c in ast.walk(b_)):
                                # S is never shrunk in the loop
                                if not any(isinstance(c, ast.Call) and isinstance(c.func, ast.Attribute) and c.func.attr in ("remove", "discard", "pop", "clear", "difference_update") and A.unparse(c.func.value) == S for c in ast.walk(w)):
                                    return True
                    if anc is w:
                        break
                return False

            if grows and all(_push_gated(g_) for g_ in grows):
                return True, f"marked-when-pushed work-list: every push onto {work} is of an element that the same branch adds to a set it was not in"
            return False, f"work-list {work} grows without a visited set gating re-processing"
    # (b) monotone fix-point flag
    if isinstance(test, ast.Name):
        flag = test.id
        resets = [s for s in w.body if isinstance(s, ast.Assign) and any(isinstance(t, ast.Name) and t.id == flag for t in s.targets) and isinstance(s.value, ast.Constant) and s.value.value is False]
        sets = [s for s in A.walk_no_nested(ast.Module(w.body, [])) if isinstance(s, ast.Assign) and any(isinstance(t, ast.Name) and t.id == flag for t in s.targets) and isinstance(s.value, ast.Constant) and s.value.value is True]
        if resets and w.body[0] is resets[0] and sets:
            strict = all(any(isinstance(a, ast.If) and isinstance(a.test, ast.Compare) and isinstance(a.test.ops[0], (ast.Lt, ast.Gt)) and "len(" in A.unparse(a.test) for a in A.ancestors(s)) for s in sets)
            if strict:
                return True, f"fix-point flag {flag}: reset at the top, set again only when a set strictly shrank"
            return False, f"flag {flag} is set again without a strict decrease"
    # (c) bounded comparison walk
    if isinstance(test, ast.Compare) and len(test.ops) == 1 and isinstance(test.ops[0], (ast.Lt, ast.LtE)) and isinstance(test.left, ast.Name):
        v = test.left.id
        adv = [s for s in A.walk_no_nested(ast.Module(w.body, [])) if isinstance(s, (ast.Assign, ast.AugAssign)) and v in A.names_in(s.targets[0] if isinstance(s, ast.Assign) else s.target)]
        if adv:
            return True, f"bounded walk: {v} advances towards {A.unparse(test.comparators[0])}"
    # (d) `while Q and <cond>:` whose body pops Q unconditionally and never grows it
    if isinstance(test, ast.BoolOp) and isinstance(test.op, ast.And) and isinstance(test.values[0], ast.Name):
        q = test.values[0].id
        body_calls = [c for c in A.walk_no_nested(ast.Module(w.body, [])) if isinstance(c, ast.Call) and isinstance(c.func, ast.Attribute) and A.unparse(c.func.value) == q]
        # a pop executed on every iteration: a top-level simple statement that contains Q.pop() (possibly as an
        # argument: `acc.add(Q.pop())`)
        top_pops = [s for s in w.body if isinstance(s, (ast.Assign, ast.Expr, ast.AugAssign, ast.AnnAssign)) and any(c in body_calls and c.func.attr in ("pop", "popleft") for c in ast.walk(s) if isinstance(c, ast.Call) and isinstance(c.func, ast.Attribute))]
        grows = [c for c in body_calls if c.func.attr in ("append", "extend", "insert", "appendleft", "add", "update")]
        rebinds = [s for s in A.walk_no_nested(ast.Module(w.body, [])) if isinstance(s, (ast.Assign, ast.AugAssign)) and q in A.names_in(s.targets[0] if isinstance(s, ast.Assign) else s.target)]
        conts = [s for s in A.walk_no_nested(ast.Module(w.body, [])) if isinstance(s, ast.Continue)]
        if top_pops and not grows and not rebinds and not conts:
            return True, f"every iteration pops {q}, which the condition requires to be non-empty, and nothing grows it"
    return False, f"'while {A.unparse(test)[:40]}' has no recognised variant"


class _JoinRun:
    """abstract run of join_tails_and_exits for one pair of length classes (finite domain, no execution):
    follows len() guards and boolean temporaries bound to them, records where the two result names come
    from and which insertions are made with which arguments"""

    def __init__(self, tails: str, exits: str, lt: int, le: int) -> None:
        self.P = (tails, exits)
        self.lists: Dict[str, tuple] = {tails: ("param", tails), exits: ("param", exits)}
        self.plen = {tails: lt, exits: le}
        self.bools: Dict[str, Optional[bool]] = {}
        self.origin: Dict[str, str] = {}
        self.events: List[tuple] = []
        self.result: Optional[tuple] = None
        self.status = "end"
        self.node: Optional[ast.AST] = None

    def length(self, name: str) -> Optional[int]:
        d = self.lists.get(name)
        if d is None:
            return None
        return self.plen[d[1]] if d[0] == "param" else len(d[1])

    def test(self, t: ast.AST) -> Optional[bool]:
        if isinstance(t, ast.Name):
            if t.id in self.bools:
                return self.bools.get(t.id)
            n_ = self.length(t.id)  # the truth value of a list is its being non-empty
            return None if n_ is None else n_ > 0
        if isinstance(t, ast.UnaryOp) and isinstance(t.op, ast.Not):
            v = self.test(t.operand)
            return None if v is None else not v
        if isinstance(t, ast.BoolOp):
            vs = [self.test(x) for x in t.values]
            if isinstance(t.op, ast.And):
                return False if False in vs else (None if None in vs else True)
            return True if True in vs else (None if None in vs else False)
        lens = {n: self.length(n) for n in self.lists}
        if any(v is None for v in lens.values()):
            return None
        return eval_len_test(t, lens)

    def desc(self, e: ast.AST) -> str:
        if isinstance(e, ast.IfExp):
            # an argument chosen by a flag / length test that the abstract state decides
            c = self.test(e.test)
            if c is not None:
                return self.desc(e.body if c else e.orelse)
        if isinstance(e, ast.Name):
            d = self.lists.get(e.id)
            if d is not None:
                return d[1] if d[0] == "param" else "[" + ", ".join(d[1]) + "]"
            return e.id
        if isinstance(e, (ast.List, ast.Tuple)):
            # [x] with x the only element of L is L
            if len(e.elts) == 1 and isinstance(e.elts[0], ast.Name) and str(self.origin.get(e.elts[0].id, "")).startswith("only:"):
                return str(self.origin[e.elts[0].id])[len("only:"):]
            return "[" + ", ".join(A.unparse(x) for x in e.elts) + "]"
        return A.unparse(e)

    def only_of(self, v: ast.AST) -> Optional[str]:
        """L when v picks the only element of list L (next(iter(L)), L[0])"""
        if isinstance(v, ast.Call) and isinstance(v.func, ast.Name) and v.func.id == "next" and v.args and isinstance(v.args[0], ast.Call) and isinstance(v.args[0].func, ast.Name) and v.args[0].func.id == "iter" and v.args[0].args and isinstance(v.args[0].args[0], ast.Name):
            return v.args[0].args[0].id
        if isinstance(v, ast.Subscript) and isinstance(v.value, ast.Name) and isinstance(v.slice, ast.Constant) and v.slice.value in (0, -1):
            return v.value.id
        return None

    def run(self, stmts) -> str:
        for st in stmts:
            if isinstance(st, ast.If):
                v = self.test(st.test)
                if v is None:
                    self.status, self.node = "unknown", st
                    return self.status
                r = self.run(st.body if v else st.orelse)
                if r != "end":
                    return r
                continue
            if isinstance(st, ast.Return):
                self.status, self.node = "return", st
                if isinstance(st.value, ast.Tuple) and len(st.value.elts) == 2:
                    self.result = tuple(A.unparse(x) for x in st.value.elts)
                return self.status
            if isinstance(st, ast.Raise) or (isinstance(st, ast.Assert) and isinstance(st.test, ast.Constant) and not st.test.value):
                self.status, self.node = "reject", st
                return self.status
            if isinstance(st, (ast.Assign, ast.AnnAssign)) and st.value is not None:
                tg = st.targets[0] if isinstance(st, ast.Assign) else st.target
                v = st.value
                if isinstance(tg, (ast.Tuple, ast.List)) and len(tg.elts) == 1 and isinstance(tg.elts[0], ast.Name) and isinstance(v, ast.Name) and v.id in self.lists:
                    ln = self.length(v.id)
                    self.origin[tg.elts[0].id] = ("only:" + self.desc(v)) if ln == 1 else ("one-of-many:" + self.desc(v))
                    continue
                if not isinstance(tg, ast.Name):
                    continue
                if isinstance(v, (ast.Compare, ast.BoolOp, ast.UnaryOp)):
                    self.bools[tg.id] = self.test(v)
                    continue
                L = self.only_of(v)
                if L is not None and L in self.lists:
                    ln = self.length(L)
                    self.origin[tg.id] = ("only:" + self.desc(ast.Name(id=L))) if ln == 1 else ("one-of-many:" + self.desc(ast.Name(id=L)))
                    continue
                if isinstance(v, ast.IfExp):
                    c = self.test(v.test)
                    if c is None:
                        self.status, self.node = "unknown", st
                        return self.status
                    v = v.body if c else v.orelse
                    L = self.only_of(v)
                    if L is not None and L in self.lists:
                        self.origin[tg.id] = ("only:" + self.desc(ast.Name(id=L))) if self.length(L) == 1 else ("one-of-many:" + self.desc(ast.Name(id=L)))
                        continue
                if any(isinstance(c, ast.Call) and isinstance(c.func, ast.Attribute) and c.func.attr == "new_block_name" for c in ast.walk(v)):
                    self.origin[tg.id] = "fresh"
                    continue
                if isinstance(v, (ast.List, ast.Tuple)) and all(isinstance(x, ast.Name) for x in v.elts):
                    self.lists[tg.id] = ("list", [x.id for x in v.elts])
                    continue
                if isinstance(v, ast.Name) and v.id in self.lists:
                    self.lists[tg.id] = self.lists[v.id]
                    continue
                if isinstance(v, ast.Name) and v.id in self.origin:
                    self.origin[tg.id] = self.origin[v.id]
                    continue
                if tg.id in self.origin or tg.id in self.lists:
                    self.origin[tg.id] = "other:" + A.unparse(v)[:30]
                continue
            if isinstance(st, ast.Expr) and isinstance(st.value, ast.Call) and isinstance(st.value.func, ast.Attribute):
                c = st.value
                cls_ = None
                if c.func.attr.startswith("insert_Synthetic"):
                    cls_ = c.func.attr[len("insert_"):]
                elif c.func.attr == "insert_block":
                    bt = kw(c, "block_type", 3)
                    cls_ = (A.dotted(bt) or "?").split(".")[-1] if bt is not None else "?"
                if cls_ is not None and len(c.args) >= 3:
                    self.events.append((cls_, A.unparse(c.args[0]), self.desc(c.args[1]), self.desc(c.args[2]), st))
        return "end"


@rule("TOTAL-5", 4, "each case of join_tails_and_exits inserts the tail after the given tails and the exit before the given exits, and returns exactly the names it inserted (or the single given ones)")
def total5(ctx) -> List[Ob]:
    out: List[Ob] = []
    fn = ctx.prog.cls("SCFG").find_method("join_tails_and_exits")
    if fn is None:
        raise AnalysisError("SCFG.join_tails_and_exits not found")
    tails, exits = [p.arg for p in fn.params if p.arg != "self"]
    body = A.body_without_docstring(fn.node)
    name = lambda v: f"{v}+" if v == 4 else str(v)  # noqa: E731
    for lt in LEN_CLASSES[1:]:
        for le in LEN_CLASSES[1:]:
            key = f"wiring for len({tails})={name(lt)}, len({exits})={name(le)}"
            run = _JoinRun(tails, exits, lt, le)
            st = run.run(body)
            where = ctx.where(fn, run.node) if run.node is not None else ctx.where(fn)
            if st == "unknown":
                out.append(unresolved("TOTAL-5", fn.qualname, key, where, f"a condition cannot be evaluated on length classes ('{A.unparse(getattr(run.node, 'test', run.node))[:50]}')"))
                continue
            if st != "return" or run.result is None:
                continue  # TOTAL-1 reports cases that are not handled
            r_tail, r_exit = run.result
            tail_ins = [e for e in run.events if e[0] == "SyntheticTail"]
            exit_ins = [e for e in run.events if e[0] == "SyntheticExit"]
            other = [e for e in run.events if e[0] not in ("SyntheticTail", "SyntheticExit")]
            probs = []
            ot, oe = run.origin.get(r_tail, "undefined"), run.origin.get(r_exit, "undefined")
            want_tail, want_exit = lt >= 2, le >= 2
            if other:
                probs.append(f"a block of another kind is inserted ({other[0][0]})")
            if len(tail_ins) != (1 if want_tail else 0):
                probs.append(f"{len(tail_ins)} tail block(s) inserted for {name(lt)} tail(s)")
            if len(exit_ins) != (1 if want_exit else 0):
                probs.append(f"{len(exit_ins)} exit block(s) inserted for {name(le)} exit(s)")
            if want_tail and tail_ins:
                _c, nm, preds, succs, _s = tail_ins[0]
                if ot != "fresh" or nm != r_tail:
                    probs.append(f"a tail block is inserted as {nm} but {r_tail} ({ot}) is returned as the tail")
                if (preds, succs) != (tails, exits):
                    probs.append(f"the tail is inserted between ({preds}, {succs}) instead of ({tails}, {exits})")
            elif not want_tail and ot != f"only:{tails}":
                probs.append(f"no tail is inserted but the returned tail {r_tail} is {ot}, not the single given tail")
            if want_exit and exit_ins:
                _c, nm, preds, succs, s_exit = exit_ins[0]
                want_pred = f"[{r_tail}]" if want_tail else tails
                if oe != "fresh" or nm != r_exit:
                    probs.append(f"an exit block is inserted as {nm} but {r_exit} ({oe}) is returned as the exit")
                if (preds, succs) != (want_pred, exits):
                    probs.append(f"the exit is inserted between ({preds}, {succs}) instead of ({want_pred}, {exits})")
                if want_tail and tail_ins and run.events.index(exit_ins[0]) < run.events.index(tail_ins[0]):
                    probs.append("the exit is inserted before the tail")
            elif not want_exit and oe != f"only:{exits}":
                probs.append(f"no exit is inserted but the returned exit {r_exit} is {oe}, not the single given exit")
            if probs:
                out.append(bad("TOTAL-5", fn.qualname, key, where, "; ".join(probs)))
            else:
                out.append(ok("TOTAL-5", fn.qualname, key, where, f"tail: {'inserted' if want_tail else 'given'}, exit: {'inserted' if want_exit else 'given'}; returned names are those"))
    return out


@rule("TOTAL-6", 5, "a work-list search is left only when the list is exhausted or with a positive answer: no break, no negative answer while items remain")
def total6(ctx) -> List[Ob]:
    out: List[Ob] = []
    for fn in ctx.prog.functions:
        cfg = ctx.cfg(fn)
        for w in A.walk_no_nested(fn.node):
            if not isinstance(w, ast.While):
                continue
            # work-list loops: `while work:` or `while True: if work: x = work.pop() else: return ...`
            work = None
            empty_branch: List[ast.stmt] = []
            extra_stop = None
            if isinstance(w.test, ast.Name):
                work = w.test.id
            elif isinstance(w.test, ast.BoolOp) and isinstance(w.test.op, ast.And) and isinstance(w.test.values[0], ast.Name):
                # `while work and <cond>`: a work-list only if the body also feeds it
                cand = w.test.values[0].id
                feeds = [c for c in A.walk_no_nested(ast.Module(w.body, [])) if isinstance(c, ast.Call) and isinstance(c.func, ast.Attribute) and A.unparse(c.func.value) == cand and c.func.attr in ("append", "extend", "update", "add", "appendleft")]
                if feeds:
                    work = cand
                    extra_stop = " and ".join(A.unparse(v) for v in w.test.values[1:])
            elif isinstance(w.test, ast.Constant) and w.test.value is True:
                for s in w.body:
                    if isinstance(s, ast.If) and isinstance(s.test, ast.Name) and s.orelse:
                        work = s.test.id
                        empty_branch = s.orelse
            if work is not None and extra_stop is not None:
                out.append(bad("TOTAL-6", fn.qualname, f"work-list {work} drained", ctx.where(fn, w), f"the loop also stops when '{extra_stop[:50]}' fails, while {work} still holds items: blocks reachable through the abandoned items are never visited"))
                continue
            if work is None:
                continue
            pops = [c for c in A.walk_no_nested(ast.Module(w.body, [])) if isinstance(c, ast.Call) and isinstance(c.func, ast.Attribute) and c.func.attr in ("pop", "popleft") and A.unparse(c.func.value) == work]
            if not pops:
                continue
            key = f"work-list {work} in " + A.alpha_key(w.test)
            where = ctx.where(fn, w)
            probs = []
            for n in A.walk_no_nested(ast.Module(w.body, [])):
                inner_loop = any(isinstance(a, (ast.For, ast.While)) and a is not w and any(x is w for x in A.ancestors(a)) for a in A.ancestors(n))
                if isinstance(n, ast.Break) and not inner_loop:
                    probs.append(f"line {A.lineno(n)}: 'break' abandons the remaining items of {work}")
                if isinstance(n, ast.Return) and not any(n is x or any(a is x for a in A.ancestors(n)) for x in empty_branch):
                    v = n.value
                    negative = v is None or (isinstance(v, ast.Constant) and v.value in (False, None))
                    if negative:
                        probs.append(f"line {A.lineno(n)}: negative answer '{A.unparse(n)}' while {work} still holds items")
            if probs:
                out.append(bad("TOTAL-6", fn.qualname, key, where, "; ".join(probs) + ": blocks reachable through the abandoned items are never visited"))
            else:
                out.append(ok("TOTAL-6", fn.qualname, key, where, f"{work} is drained completely unless a positive answer is found"))
    return out


@rule("ITER-1", 8, "the hierarchy iterator and the region-concealing view are head-seeded FIFO work-lists with a visited gate; every item in the graph is yielded once after the gate; regions continue at their exiting block's targets")
def iter1(ctx) -> List[Ob]:
    out: List[Ob] = []
    prog = ctx.prog
    targets = []
    it = prog.cls("SCFG").methods.get("__iter__")
    rv = prog.cls("ConcealedRegionView").methods.get("region_view_iterator")
    if it is None or rv is None:
        raise AnalysisError("SCFG.__iter__ / ConcealedRegionView.region_view_iterator not found")
    for fn, concealed in ((it, False), (rv, True)):
        cfg = ctx.cfg(fn)
        loops = [w for w in A.walk_no_nested(fn.node) if isinstance(w, ast.While) and (isinstance(w.test, ast.Name) or (isinstance(w.test, ast.BoolOp) and isinstance(w.test.op, ast.And) and isinstance(w.test.values[0], ast.Name)))]
        if not loops:
            out.append(unresolved("ITER-1", fn.qualname, "work-list loop", ctx.where(fn), "no `while <work-list>:` loop found"))
            continue
        w = loops[0]
        if isinstance(w.test, ast.BoolOp):
            work = w.test.values[0].id
            out.append(bad("ITER-1", fn.qualname, "walk ends only when the work-list is empty", ctx.where(fn, w), f"the walk also ends when '{' and '.join(A.unparse(v) for v in w.test.values[1:])[:60]}' fails: items still queued (and everything reachable through them) are not yielded"))
        else:
            work = w.test.id
        wn = cfg.node_of(w)
        # (1) seeded with the head
        key = "seeded with the head"
        seeds = []
        for d in cfg.reaching_defs(w, work):
            ap = None
            if d.stmt is not None and isinstance(d.stmt, (ast.Assign, ast.AnnAssign)):
                ap = d.stmt.value
            if ap is not None and not any(a is w for a in A.ancestors(d.stmt)):
                # a seed kept in a local first (`head = self.find_head()` / `head = "0"` in the fallback arm;
                # `start = head if head else self.scfg.find_head()` written as an if / else)
                inner = []
                data_names = [x for x in ast.walk(ap) if isinstance(x, ast.Name) and x.id not in ("deque", "list", "set")]
                for nm_ in data_names:
                    for d2 in cfg.reaching_defs(d.stmt, nm_.id):
                        if d2.stmt is not None and isinstance(d2.stmt, (ast.Assign, ast.AnnAssign)) and d2.stmt.value is not None:
                            inner.append(A.unparse(d2.stmt.value).replace("'0'", "['0']") if isinstance(d2.stmt.value, ast.Constant) else A.unparse(d2.stmt.value))
                if not (inner and len(data_names) == 1 and isinstance(ap, ast.Call)):
                    seeds.append(A.unparse(ap))
                seeds += inner
        # a constant start name is only a fallback: it may be bound in an `except` handler (find_head failed),
        # never chosen by a test on the graph
        const_seed_defs = []
        for d in cfg.reaching_defs(w, work):
            if d.stmt is None:
                continue
            stmts_ = [d.stmt]
            for nm_ in [x for x in ast.walk(d.stmt) if isinstance(x, ast.Name) and isinstance(x.ctx, ast.Load)]:
                stmts_ += [d2.stmt for d2 in cfg.reaching_defs(d.stmt, nm_.id) if d2.stmt is not None]
            for st_ in stmts_:
                v_ = getattr(st_, "value", None)
                if v_ is not None and any(isinstance(c_, ast.Constant) and isinstance(c_.value, str) for c_ in ast.walk(v_)) and "find_head" not in A.unparse(v_):
                    if not any(isinstance(a_, ast.ExceptHandler) for a_ in A.ancestors(st_)):
                        const_seed_defs.append(st_)
        if const_seed_defs:
            out.append(bad("ITER-1", fn.qualname, "seeded with the head", ctx.where(fn, const_seed_defs[0]), f"the walk can start from a fixed name ('{A.unparse(const_seed_defs[0])[:40]}') chosen outside the fallback for a failed find_head(): a graph whose head has another name is enumerated from the wrong block"))
        elif seeds and all("find_head()" in s_ or "['0']" in s_ or "head" in s_ for s_ in seeds) and any("find_head()" in s_ for s_ in seeds):
            out.append(ok("ITER-1", fn.qualname, key, ctx.where(fn, w), f"work-list starts from {seeds[0][:60]}"))
        else:
            out.append(bad("ITER-1", fn.qualname, key, ctx.where(fn, w), f"the walk does not start from the head of the graph ({seeds[:1]}): items are missed or come before their predecessors"))
        # (2) FIFO
        key = "first-in first-out"
        pops = [c for c in A.walk_no_nested(ast.Module(w.body, [])) if isinstance(c, ast.Call) and isinstance(c.func, ast.Attribute) and A.unparse(c.func.value) == work and c.func.attr in ("pop", "popleft")]
        pushes = [c for c in A.walk_no_nested(ast.Module(w.body, [])) if isinstance(c, ast.Call) and isinstance(c.func, ast.Attribute) and A.unparse(c.func.value) == work and c.func.attr in ("extend", "append", "appendleft", "extendleft", "insert")]
        fifo_pop = pops and all(c.func.attr == "popleft" or (c.args and isinstance(c.args[0], ast.Constant) and c.args[0].value == 0) for c in pops)
        fifo_push = pushes and all(c.func.attr in ("extend", "append") for c in pushes)
        if fifo_pop and fifo_push:
            out.append(ok("ITER-1", fn.qualname, key, ctx.where(fn, pops[0]), "pops at the front, extends at the back (breadth first: an item comes after one of its predecessors)"))
        else:
            out.append(bad("ITER-1", fn.qualname, key, ctx.where(fn, w), "the work-list is not used first-in first-out: the documented breadth-first order (head first, predecessors before successors) is lost"))
        # (3) visited gate before the yield; yield on every path for names in the graph
        popped = None
        for s_ in A.walk_no_nested(ast.Module(w.body, [])):
            if isinstance(s_, ast.Assign) and s_.value in pops and isinstance(s_.targets[0], ast.Name):
                popped = s_.targets[0].id
        yields = [y for y in A.walk_no_nested(ast.Module(w.body, [])) if isinstance(y, ast.Yield)]
        # the gate in either spelling: `if <name> in <seen>: continue` before the yield, or the yield inside
        # `if <name> not in <seen>:` (the normal form of the former, see astutil.canonicalise)
        def _gated(g_: ast.If, y_: ast.AST) -> bool:
            inside_body = any(a is g_ for a in A.ancestors(y_)) and any(y_ is x or any(a is x for a in A.ancestors(y_)) for x in g_.body)
            inside_else = any(a is g_ for a in A.ancestors(y_)) and not inside_body
            if isinstance(g_.test.ops[0], ast.In):
                return (A.always_leaves(g_.body) and not inside_body and cfg.dominates(cfg.node_of(g_), cfg.node_of(y_))) or inside_else
            return inside_body

        gates = [g for g in A.walk_no_nested(ast.Module(w.body, [])) if isinstance(g, ast.If) and isinstance(g.test, ast.Compare) and len(g.test.ops) == 1 and isinstance(g.test.ops[0], (ast.In, ast.NotIn)) and popped and A.unparse(g.test.left) == popped
                 and yields and all(_gated(g, y_) for y_ in yields)]
        key = "visited gate and single yield"
        probs = []
        if not popped or not yields:
            probs.append("no yield of the popped name found")
        elif not gates:
            probs.append("no `if <name> in <seen>: continue` gate: items reachable along two paths are yielded twice")
        else:
            g = gates[0]
            seen = A.unparse(g.test.comparators[0])
            adds = [c for c in A.walk_no_nested(ast.Module(w.body, [])) if isinstance(c, ast.Call) and isinstance(c.func, ast.Attribute) and A.unparse(c.func.value) == seen and c.func.attr in ("add", "append") and c.args and A.unparse(c.args[0]) == popped]
            gn = cfg.node_of(g)
            if not adds:
                probs.append(f"{popped} is never recorded in {seen}")
            else:
                an = cfg.node_of(adds[0])
                for y in yields:
                    yn = cfg.node_of(y)
                    if not (_gated(g, y) and cfg.dominates(an, yn)):
                        probs.append(f"the yield at line {A.lineno(y)} is not preceded by the visited gate and the recording of {popped}")
                if len([y for y in yields]) != 1:
                    probs.append(f"{len(yields)} yields of single items in one iteration")
                # what is yielded is the popped name (and its block)
                if yields and popped not in A.names_in(yields[0].value):
                    probs.append("the yielded value is not the popped name")
        if probs:
            out.append(bad("ITER-1", fn.qualname, key, ctx.where(fn, w), "; ".join(probs)))
        else:
            out.append(ok("ITER-1", fn.qualname, key, ctx.where(fn, w), f"each popped name passes `in {seen}` -> continue, is recorded, and is yielded once"))
        # (4) successors
        key = "continuation of an item"
        ext_args = []
        for c in pushes:
            if not c.args:
                continue
            a0 = c.args[0]
            if isinstance(a0, ast.Name):
                # one push of a local that an if / else in front of it chose: read as the pushes of its definitions
                dv = [d.stmt.value for d in cfg.reaching_defs(c, a0.id) if d.stmt is not None and isinstance(d.stmt, ast.Assign)]
                if dv and len(dv) == len(cfg.reaching_defs(c, a0.id)):
                    ext_args += [A.unparse(v) for v in dv]
                    continue
            if isinstance(a0, ast.Attribute) and isinstance(a0.value, ast.Name) and a0.attr in ("jump_targets", "_jump_targets"):
                # .. or of the block whose targets are pushed: `last = block.subregion[block.exiting]` | `last = block`
                dv = [d.stmt.value for d in cfg.reaching_defs(c, a0.value.id) if d.stmt is not None and isinstance(d.stmt, ast.Assign)]
                if len(dv) >= 2 and len(dv) == len(cfg.reaching_defs(c, a0.value.id)):
                    ext_args += [A.unparse(v) + "." + a0.attr for v in dv]
                    continue
            ext_args.append(A.unparse(a0))
        if concealed:
            want_region = [a for a in ext_args if ".subregion[" in a and ".exiting]" in a and a.endswith(".jump_targets")]
            want_plain = [a for a in ext_args if a.endswith(".jump_targets") and ".subregion" not in a]
            if want_region and want_plain and len(ext_args) == 2:
                out.append(ok("ITER-1", fn.qualname, key, ctx.where(fn, w), f"region: {want_region[0]}; block: {want_plain[0]}"))
            else:
                out.append(bad("ITER-1", fn.qualname, key, ctx.where(fn, w), f"the view continues at {ext_args}: a region must continue at its exiting block's targets and a block at its own"))
        else:
            yf = [y for y in A.walk_no_nested(ast.Module(w.body, [])) if isinstance(y, ast.YieldFrom)]
            rec = [y for y in yf if ".subregion" in A.unparse(y.value)]
            plain = [a for a in ext_args if a.endswith(".jump_targets") and ".subregion" not in a]
            if rec and plain and len(ext_args) == 1:
                # the recursion is guarded by a region test and comes after the region itself was yielded
                out.append(ok("ITER-1", fn.qualname, key, ctx.where(fn, w), f"a region is followed by everything inside it ({A.unparse(rec[0])}), then its targets ({plain[0]})"))
            else:
                out.append(bad("ITER-1", fn.qualname, key, ctx.where(fn, w), f"the hierarchy walk does not descend into regions (yield from <region>.subregion) or does not continue at the block's jump targets ({ext_args})"))
    # the view's __iter__ is the walk: every path returns region_view_iterator(..) (no shortcut through the
    # storage order of the graph)
    cv = prog.cls("ConcealedRegionView")
    vi = cv.methods.get("__iter__")
    if vi is not None:
        rets = [r for r in A.walk_no_nested(vi.node) if isinstance(r, ast.Return)]
        other = [r for r in rets if not (r.value is not None and rv.name in A.unparse(r.value))]
        key = "the view iterates by walking from the head"
        if rets and not other:
            out.append(ok("ITER-1", vi.qualname, key, ctx.where(vi), f"every path returns {rv.name}()"))
        elif other:
            out.append(bad("ITER-1", vi.qualname, key, ctx.where(vi, other[0]), f"on some path the view returns '{A.unparse(other[0])[:50]}' instead of walking the graph from its head: the order (head first, every item after a predecessor) and the concealment of regions are lost"))
        else:
            out.append(unresolved("ITER-1", vi.qualname, key, ctx.where(vi), "cannot see what the view's __iter__ returns"))
    return out


@rule("TOTAL-7", 3, "no walk over the blocks of a graph is recursive: recursion reachable from restructure() follows the region nesting only (audited), never the length of a path")
def total7(ctx) -> List[Ob]:
    out: List[Ob] = []
    cg = ctx.cg
    reach = cg.reachable_from(ctx.entry_points("restructure"))
    # strongly connected components of the call graph restricted to reach (self loops included)
    fns = sorted(reach, key=lambda f: f.qualname)
    idx = {f: i for i, f in enumerate(fns)}
    reach_from = {}
    for f in fns:
        seen = set()
        stack = list(cg.edges.get(f, ()))
        while stack:
            g = stack.pop()
            if g in seen or g not in idx:
                continue
            seen.add(g)
            stack.extend(cg.edges.get(g, ()))
        reach_from[f] = seen
    for f in fns:
        if f in reach_from[f]:
            cyc_f = [g for g in reach_from[f] if f in reach_from.get(g, ())]
            cyc = sorted(g.qualname for g in cyc_f)
            key = "recursive: " + f.qualname
            # recursion that descends the region hierarchy: every call back into the cycle goes through
            # `.subregion` / `.parent_region`, or sits under an isinstance(.., RegionBlock) test
            sites = [s_ for s_ in cg.sites.get(f, []) if isinstance(s_.node, (ast.Call, ast.YieldFrom)) and any(c in cyc_f for c in s_.callees)]
            def nested(site) -> bool:
                txt = A.unparse(site.node)
                if ".subregion" in txt or ".parent_region" in txt:
                    return True
                for anc in A.ancestors(site.node):
                    if isinstance(anc, ast.If) and "RegionBlock" in A.unparse(anc.test):
                        return True
                return False
            if sites and all(nested(s_) for s_ in sites):
                out.append(ok("TOTAL-7", f.qualname, key, ctx.where(f), f"recursion follows the region nesting ({len(sites)} call site(s) through .subregion / a RegionBlock test): depth = nesting depth"))
                continue
            out.append(bad("TOTAL-7", f.qualname, key, ctx.where(f), f"{f.qualname} is (mutually) recursive ({', '.join(cyc[:4])}): the recursion depth grows with the input (RecursionError on long chains of blocks) unless it follows the region nesting"))
    out.append(ok("TOTAL-7", "<module>", "recursion census", "numba_scfg:1", f"{len(fns)} functions reachable from restructure() examined", nontrivial=False))
    return out


@rule("TOTAL-8", 5, "writing and reading a graph never rejects it: every assert / raise reachable from to_dict, to_yaml, from_dict, from_yaml is a type narrowing, the vocabulary check of the reader, or audited")
def total8(ctx) -> List[Ob]:
    out: List[Ob] = []
    cg = ctx.cg
    roots = ctx.entry_points("io")
    reach = [f for f in cg.reachable_from(roots) if f.qualname.startswith("SCFGIO.") or f.qualname in ("SCFG.to_dict", "SCFG.to_yaml", "SCFG.from_dict", "SCFG.from_yaml")]
    for fn in sorted(reach, key=lambda f: f.qualname):
        for n in A.walk_no_nested(fn.node):
            if isinstance(n, ast.Assert):
                key = "assert " + A.alpha_key(n.test)
                where = ctx.where(fn, n)
                if _is_narrowing(n.test):
                    out.append(ok("TOTAL-8", fn.qualname, key, where, "type-narrowing assertion", nontrivial=False))
                else:
                    out.append(bad("TOTAL-8", fn.qualname, key, where, f"assertion '{A.unparse(n.test)[:60]}' can reject a graph while it is written or read"))
            elif isinstance(n, ast.Raise):
                key = _raise_key(n)
                out.append(bad("TOTAL-8", fn.qualname, key, ctx.where(fn, n), f"'{A.unparse(n)[:60]}' reachable while a graph is written or read"))
    return out


def _guard_key(fn, node) -> str:
    from .ctrl import _guard_conditions

    gs = _guard_conditions(fn.node, node)[:1]  # the innermost condition only: the one that selects the arm
    return " & ".join(A.cond_key(t, pol) for t, pol in reversed(gs))


@rule("TOTAL-9", 6, "rendering never rejects a graph: every raise / assert reachable from the renderers is a type narrowing or an audited unreachable arm (keyed with its guard)")
def total9(ctx) -> List[Ob]:
    out: List[Ob] = []
    mod = ctx.prog.module("rendering")
    for fn in ctx.prog.functions:
        if fn.module is not mod:
            continue
        for n in A.walk_no_nested(fn.node):
            if isinstance(n, ast.Assert):
                key = "assert " + A.alpha_key(n.test)
                if _is_narrowing(n.test):
                    out.append(ok("TOTAL-9", fn.qualname, key, ctx.where(fn, n), "type-narrowing assertion", nontrivial=False))
                else:
                    out.append(bad("TOTAL-9", fn.qualname, key, ctx.where(fn, n), f"assertion '{A.unparse(n.test)[:60]}' can make rendering fail"))
            elif isinstance(n, ast.Raise):
                g = _guard_key(fn, n)
                key = _raise_key(n) + (" under " + g if g else "")
                out.append(bad("TOTAL-9", fn.qualname, key, ctx.where(fn, n), f"'{A.unparse(n)[:50]}' can be reached while rendering (under: {g or 'no condition'})"))
            elif isinstance(n, ast.Subscript) and isinstance(n.ctx, ast.Load) and not isinstance(n.slice, ast.Slice):
                # an element taken by position from a sequence of unknown length (a block's statement list may be empty:
                # the entry block of a function that starts with a loop)
                idx = n.slice.operand if isinstance(n.slice, ast.UnaryOp) and isinstance(n.slice.op, ast.USub) else n.slice
                if not (isinstance(idx, ast.Constant) and isinstance(idx.value, int) and not isinstance(idx.value, bool)):
                    continue
                env = ctx.typer.env(fn)
                t = ctx.typer.type_of(n.value, env, fn)
                kinds = {m[0] for m in T.members(T.strip_none(t))}
                if not kinds or not kinds <= {"list", "tuplev"}:
                    continue
                base = A.unparse(n.value)
                # (a list built in this function by a display with elements is not of unknown length)
                if isinstance(n.value, ast.Name):
                    dv = [d.stmt.value for d in ctx.cfg(fn).reaching_defs(n, n.value.id) if d.stmt is not None and isinstance(d.stmt, ast.Assign)]
                    if dv and all(isinstance(v, (ast.List, ast.Tuple)) and len(v.elts) > (idx.value if n.slice is idx else idx.value - 1) for v in dv):
                        continue
                gs = _use_guards(fn.node, n)
                nonempty = {base, f"len({base}) > 0", f"len({base})"}
                guarded = any(p and t_ in nonempty for t_, p in gs) or any(not p and t_ in (f"len({base}) == 0",) for t_, p in gs)
                # `X and X[-1]` / `if X and isinstance(X[-1], ..)`
                for a in A.ancestors(n):
                    if isinstance(a, ast.BoolOp) and isinstance(a.op, ast.And) and any(A.unparse(v) in nonempty for v in a.values[:-1]):
                        guarded = True
                    if isinstance(a, ast.stmt):
                        break
                for t_, p in gs:
                    try:
                        e_ = ast.parse(t_, mode="eval").body
                    except SyntaxError:
                        continue
                    if p and isinstance(e_, ast.BoolOp) and isinstance(e_.op, ast.And) and any(A.unparse(v) in nonempty for v in e_.values):
                        guarded = True
                key = f"element {A.alpha_key(n)} of a sequence of unknown length"
                if guarded:
                    out.append(ok("TOTAL-9", fn.qualname, key, ctx.where(fn, n), f"'{A.unparse(n)}' under a guard that {base} is not empty"))
                else:
                    out.append(bad("TOTAL-9", fn.qualname, key, ctx.where(fn, n), f"'{A.unparse(n)[:50]}' raises IndexError when {base} is empty (the entry block of a function that starts with a loop keeps an empty statement list): rendering rejects a graph the library produced"))
    return out


def _use_guards(fn_node, node):
    """guards of an expression: enclosing if-statements, guard clauses before it and conditional expressions"""
    from .ctrl import _guard_conditions as _gc

    return _gc(fn_node, node, ifexp=True)


def _flag_guarded(fn_node, var, use_guards) -> bool:
    """the read is under `if flag` and every `flag = <truthy>` sits in a statement list that also assigns var"""
    for text, pol in use_guards:
        if not pol or not text.isidentifier():
            continue
        sets = [s for s in A.walk_no_nested(fn_node) if isinstance(s, ast.Assign) and any(isinstance(t, ast.Name) and t.id == text for t in s.targets)]
        if not sets:
            continue
        good = True
        for s in sets:
            if isinstance(s.value, ast.Constant) and not s.value.value:
                continue
            if not (isinstance(s.value, ast.Constant) and s.value.value is True):
                good = False
                break
            par = A.parent(s)
            sibs = [x for fld in ("body", "orelse", "finalbody") for x in (getattr(par, fld, None) or []) if isinstance(getattr(par, fld, None), list) and s in getattr(par, fld)]
            if not any(isinstance(x, (ast.Assign, ast.AnnAssign)) and var in {n.id for t in (x.targets if isinstance(x, ast.Assign) else [x.target]) for n in ast.walk(t) if isinstance(n, ast.Name)} for x in sibs):
                good = False
                break
        if good:
            return True
    return False


@rule("USE-1", 100, "no local variable is read on a path on which it has not been assigned (NameError / UnboundLocalError at run time)")
def use1(ctx) -> List[Ob]:
    import builtins

    out: List[Ob] = []
    from .ctrl import _guard_conditions

    n_fn = 0
    for fn in ctx.prog.functions:
        n_fn += 1
        cfg = ctx.cfg(fn)
        params = {p.arg for p in fn.params}
        a = fn.node.args
        if a.vararg:
            params.add(a.vararg.arg)
        if a.kwarg:
            params.add(a.kwarg.arg)
        local_defs = set()
        for z in cfg.nodes:
            local_defs |= set(cfg.defs_at(z))
        # names assigned in this function but not parameters: locals
        locals_ = local_defs - params
        # closure variables of enclosing functions are defined there
        flagged = set()
        # names that are bound nowhere: not in this function, an enclosing one, the module or the builtins
        visible = set(dir(builtins)) | params | local_defs
        m_ = fn.module
        for st in m_.tree.body:
            for x in ast.walk(st) if not isinstance(st, (ast.FunctionDef, ast.AsyncFunctionDef, ast.ClassDef)) else [st]:
                if isinstance(x, (ast.FunctionDef, ast.AsyncFunctionDef, ast.ClassDef)):
                    visible.add(x.name)
                elif isinstance(x, ast.Name) and isinstance(x.ctx, ast.Store):
                    visible.add(x.id)
                elif isinstance(x, (ast.Import, ast.ImportFrom)):
                    for a_ in x.names:
                        visible.add((a_.asname or a_.name).split(".")[0])
        for x in ast.walk(fn.node):  # nested defs, imports, comprehension / lambda / except bindings inside the function
            if isinstance(x, (ast.FunctionDef, ast.AsyncFunctionDef, ast.ClassDef)):
                visible.add(x.name)
                if not isinstance(x, ast.ClassDef):
                    visible |= {a_.arg for a_ in x.args.args + x.args.kwonlyargs + x.args.posonlyargs} | ({x.args.vararg.arg} if x.args.vararg else set()) | ({x.args.kwarg.arg} if x.args.kwarg else set())
            elif isinstance(x, ast.Lambda):
                visible |= {a_.arg for a_ in x.args.args}
            elif isinstance(x, (ast.Import, ast.ImportFrom)):
                for a_ in x.names:
                    visible.add((a_.asname or a_.name).split(".")[0])
            elif isinstance(x, ast.Name) and isinstance(x.ctx, (ast.Store, ast.Del)):
                visible.add(x.id)
            elif isinstance(x, ast.ExceptHandler) and x.name:
                visible.add(x.name)
            elif isinstance(x, (ast.Global, ast.Nonlocal)):
                visible |= set(x.names)
        pf = fn.parent_fn
        while pf is not None:
            for x in ast.walk(pf.node):
                if isinstance(x, ast.Name) and isinstance(x.ctx, ast.Store):
                    visible.add(x.id)
                elif isinstance(x, (ast.FunctionDef, ast.ClassDef)):
                    visible.add(x.name)
                elif isinstance(x, ast.arg):
                    visible.add(x.arg)
                elif isinstance(x, (ast.Import, ast.ImportFrom)):
                    for a_ in x.names:
                        visible.add((a_.asname or a_.name).split(".")[0])
            pf = pf.parent_fn
        for e in A.walk_no_nested(fn.node):
            if isinstance(e, ast.Name) and isinstance(e.ctx, ast.Load) and e.id not in visible and e.id not in flagged:
                flagged.add(e.id)
                out.append(bad("USE-1", fn.qualname, f"read of {e.id}", ctx.where(fn, e), f"'{e.id}' is read at line {A.lineno(e)} but is bound nowhere (not in this function, an enclosing one, the module or the builtins): NameError when the line runs"))
        for z in cfg.nodes:
            if z.stmt is None:
                continue
            reads = [e for e in z.walk() if isinstance(e, ast.Name) and isinstance(e.ctx, ast.Load)]
            if isinstance(z.stmt, ast.AugAssign) and isinstance(z.stmt.target, ast.Name):
                reads.append(z.stmt.target)  # `x += 1` reads x
            for e in reads:
                if e.id not in locals_:
                    continue
                if e.id in flagged:
                    continue
                # comprehension-bound names shadow
                if any(isinstance(anc, (ast.ListComp, ast.SetComp, ast.DictComp, ast.GeneratorExp)) and any(e.id in A.names_in(g.target) for g in anc.generators) for anc in A.ancestors(e)):
                    continue
                if any(isinstance(anc, ast.Lambda) for anc in A.ancestors(e)):
                    continue
                defs = cfg.reaching_defs(e)
                if cfg.entry not in defs:
                    continue
                if _walrus_before(e, z.stmt):
                    continue  # (n := X) in table[n]: bound earlier in the same expression, unconditionally
                # a definition in the same statement (for-loop target, with-as, walrus) counts
                if e.id in cfg.defs_at(z) and z.kind in ("for", "with"):
                    continue
                real = [d for d in defs if d.stmt is not None]
                ug = set(_use_guards(fn.node, e))
                if real and all(set(_guard_conditions(fn.node, d.stmt)) and set(_guard_conditions(fn.node, d.stmt)) <= ug for d in real):
                    continue  # same guards as the definitions
                if real and _flag_guarded(fn.node, e.id, ug):
                    continue  # read under a flag that is set only where the variable is assigned
                if real and all(any(isinstance(a, (ast.For, ast.While)) and not any(a is b for b in A.ancestors(e)) for a in A.ancestors(d.stmt)) or (isinstance(d.stmt, ast.For) and not any(d.stmt is b for b in A.ancestors(e))) for d in real):
                    continue  # assigned by a loop that is assumed to run at least once (a zero-trip path is not reported)
                # defined by every iteration of an enclosing loop that also runs the use? (loop body def before use)
                flagged.add(e.id)
                if not real:
                    why = "never assigned before this read"
                else:
                    why = f"assigned only on some paths (lines {sorted(A.lineno(d.stmt) for d in real)[:3]})"
                out.append(bad("USE-1", fn.qualname, f"read of {e.id}", ctx.where(fn, e), f"local '{e.id}' is read at line {A.lineno(e)} but {why}: NameError / UnboundLocalError on the other paths"))
        out.append(ok("USE-1", fn.qualname, "locals defined before use", ctx.where(fn), f"{len(locals_)} locals", nontrivial=False))
    return out


def _walrus_before(e: ast.Name, stmt: ast.AST) -> bool:
    """the name is bound by an assignment expression that is evaluated before this read whenever the read is
    evaluated: written to its left inside the same statement, and not in an operand / arm that the read's own
    position does not depend on (a later operand of and / or, an arm of a conditional expression)"""
    pos = (getattr(e, "lineno", 0), getattr(e, "col_offset", 0))
    anc_e = [e] + list(A.ancestors(e))
    for w in ast.walk(stmt):
        if not (isinstance(w, ast.NamedExpr) and isinstance(w.target, ast.Name) and w.target.id == e.id):
            continue
        if (getattr(w, "lineno", 0), getattr(w, "col_offset", 0)) >= pos:
            continue
        child = w
        conditional = False
        for a in A.ancestors(w):
            if any(a is x for x in anc_e):
                # common ancestor: an `and` / `or` whose later operand holds the read is fine (the read runs only
                # if the earlier operand ran); a comparison / call / subscript evaluates left to right
                if isinstance(a, ast.IfExp) and child is not a.test:
                    conditional = True
                break
            if isinstance(a, ast.BoolOp) and a.values and child is not a.values[0]:
                conditional = True
            if isinstance(a, ast.IfExp) and child is not a.test:
                conditional = True
            if isinstance(a, (ast.ListComp, ast.SetComp, ast.DictComp, ast.GeneratorExp, ast.Lambda)):
                conditional = True  # another scope / evaluated per element: not decided here
            child = a
        if not conditional:
            return True
    return False


def _class_has_attr(ctx, c, attr: str) -> bool:
    if c.find_method(attr) is not None:
        return True
    if attr in ctx.typer.instance_attrs(c):
        return True
    for k in c.mro():
        for st in k.node.body:
            if isinstance(st, ast.Assign) and any(isinstance(t, ast.Name) and t.id == attr for t in st.targets):
                return True
            if isinstance(st, ast.AnnAssign) and isinstance(st.target, ast.Name) and st.target.id == attr:
                return True
        if len(k.bases) != len([b for b in k.base_names if b != "object"]):
            return True  # an external base class: unknown members
    return attr.startswith("__")


def _caller_arg_types(ctx, fn, pname):
    """classes of the argument bound to parameter pname at every call site `<x>.<fn.name>(...)` / `<fn.name>(...)` of the library"""
    names = [p.arg for p in fn.params]
    off = 1 if fn.cls is not None and names and names[0] in ("self", "cls") else 0
    idx = names.index(pname) - off
    out = []
    for g in ctx.prog.functions:
        genv = None
        for c in A.walk_no_nested(g.node):
            if not isinstance(c, ast.Call):
                continue
            f = c.func
            nm = f.attr if isinstance(f, ast.Attribute) else (f.id if isinstance(f, ast.Name) else None)
            if nm != fn.name or (fn.cls is not None and not isinstance(f, ast.Attribute)):
                continue
            arg = None
            if 0 <= idx < len(c.args) and not any(isinstance(a, ast.Starred) for a in c.args[: idx + 1]):
                arg = c.args[idx]
            for k in c.keywords:
                if k.arg == pname:
                    arg = k.value
            if arg is None:
                out.append([])
                continue
            if genv is None:
                genv = ctx.typer.env(g)
            t = ctx.typer.type_of(arg, genv, g)
            cs = ctx.typer.classes_of(t)
            out.append(cs if cs and len(cs) == len(T.members(T.strip_none(t))) else [])
    return out


@rule("ATTR-1", 150, "an attribute read or method call on a value of a library class names a member that every class the value can have at that point defines (after isinstance / type() narrowing)")
def attr1(ctx) -> List[Ob]:
    out: List[Ob] = []
    n = 0
    for fn in ctx.prog.functions:
        env = ctx.typer.env(fn)
        for e in A.walk_no_nested(fn.node):
            if isinstance(e, ast.Call) and isinstance(e.func, ast.Name) and e.func.id in ("isinstance", "issubclass") and len(e.args) == 2:
                for b in (e.args[1].elts if isinstance(e.args[1], ast.Tuple) else [e.args[1]]):
                    tb = ctx.typer.type_of(b, env, fn)
                    kinds = {m[0] for m in T.members(tb)} if tb != T.ANY else set()
                    if kinds and not (kinds & {"type", "module", "any"}) and kinds <= {"str", "cls", "list", "dict", "set", "int", "bool", "none", "float"}:
                        out.append(bad("ATTR-1", fn.qualname, "isinstance class argument " + A.alpha_key(b), ctx.where(fn, e), f"'{A.unparse(e)[:60]}': the second argument is a {T.show(tb)} value, not a class: TypeError at run time"))
                continue
            if not (isinstance(e, ast.Attribute) and isinstance(e.ctx, ast.Load) and isinstance(e.value, ast.Name)):
                continue
            t = ctx.typer.type_of(e.value, env, fn)
            cs = ctx.typer.classes_of(t)
            if not cs or len(cs) != len(T.members(T.strip_none(t))):
                continue
            # hasattr(x, "attr") guard
            if any(isinstance(a, (ast.If, ast.IfExp, ast.BoolOp)) and f"hasattr({e.value.id}, '{e.attr}')" in A.unparse(a.test if not isinstance(a, ast.BoolOp) else a) for a in A.ancestors(e) if not isinstance(a, (ast.FunctionDef,))):
                continue
            n += 1
            missing = [c.name for c in cs if not _class_has_attr(ctx, c, e.attr)]
            key = f"{e.value.id}.{e.attr}"
            if missing and e.value.id == "self" and fn.cls is not None:
                # a member supplied by the subclasses: every concrete subclass must have it
                subs = [k for k in ctx.prog.subclasses(fn.cls, strict=True)]
                lacking = sorted(k.name for k in subs if not _class_has_attr(ctx, k, e.attr))
                if subs and not lacking:
                    out.append(ok("ATTR-1", fn.qualname, key, ctx.where(fn, e), f"defined by every subclass ({', '.join(sorted(k.name for k in subs))})", nontrivial=False))
                    continue
                if subs:
                    out.append(bad("ATTR-1", fn.qualname, key + " lacking in " + ",".join(lacking), ctx.where(fn, e), f"'{A.unparse(e)}': neither {fn.cls.name} nor its subclass(es) {', '.join(lacking)} define '{e.attr}': AttributeError when this line runs on such an instance"))
                    continue
            if missing and e.value.id in {p.arg for p in fn.params}:
                sites = _caller_arg_types(ctx, fn, e.value.id)
                if sites and all(cc and all(_class_has_attr(ctx, k, e.attr) for k in cc) for cc in sites):
                    out.append(ok("ATTR-1", fn.qualname, key, ctx.where(fn, e), f"the annotation is wider than what the {len(sites)} call site(s) pass: every caller passes a class that defines {e.attr}"))
                    continue
            if missing:
                out.append(bad("ATTR-1", fn.qualname, key, ctx.where(fn, e), f"'{A.unparse(e)}': {', '.join(sorted(missing))} has no member '{e.attr}' (the value is a {T.show(t)} here): AttributeError at run time"))
            else:
                out.append(ok("ATTR-1", fn.qualname, key, ctx.where(fn, e), f"{T.show(t)} defines {e.attr}", nontrivial=False))
    return out


@rule("INIT-1", 1, "an instance attribute that __init__ does not set is assigned, on every path, before a method that reads it is called (receiver-class specific: calls on self are resolved in the class of the entry method)")
def init1(ctx) -> List[Ob]:
    out: List[Ob] = []
    prog = ctx.prog

    def self_stores(m):
        return {t.attr for s in ast.walk(m.node) for t in ((s.targets if isinstance(s, ast.Assign) else [s.target]) if isinstance(s, (ast.Assign, ast.AnnAssign, ast.AugAssign)) and not (isinstance(s, ast.AnnAssign) and s.value is None) else []) for t in ast.walk(t) if isinstance(t, ast.Attribute) and isinstance(t.value, ast.Name) and t.value.id == "self" and isinstance(t.ctx, ast.Store)}

    def self_loads(m):
        return {a.attr for a in ast.walk(m.node) if isinstance(a, ast.Attribute) and isinstance(a.value, ast.Name) and a.value.id == "self" and isinstance(a.ctx, ast.Load)}

    for C in prog.all_classes():
        if C.parent_fn is not None:
            continue
        mro = C.mro()
        methods = {}
        for k in reversed(mro):
            methods.update(k.methods)
        if not methods:
            continue
        always = set()
        for k in mro:
            always |= {f.name for f in k.own_fields}
            for st in k.node.body:
                if isinstance(st, ast.Assign):
                    always |= {t.id for t in st.targets if isinstance(t, ast.Name)}
                elif isinstance(st, ast.AnnAssign) and isinstance(st.target, ast.Name) and st.value is not None:
                    always.add(st.target.id)
        init = methods.get("__init__")
        post = methods.get("__post_init__")
        for im in (init, post):
            if im is not None:
                always |= self_stores(im)
        late = {}
        for mn, m in methods.items():
            for a in self_stores(m):
                if a not in always and a not in methods:
                    late.setdefault(a, set()).add(mn)
        if not late:
            continue
        # transitive readers (through calls on self, resolved in C)
        def callees(m):
            return {c.func.attr for c in ast.walk(m.node) if isinstance(c, ast.Call) and isinstance(c.func, ast.Attribute) and isinstance(c.func.value, ast.Name) and c.func.value.id == "self" and c.func.attr in methods}

        for attr, setters in sorted(late.items()):
            reads = {mn for mn, m in methods.items() if attr in self_loads(m) and attr not in self_stores(m)}
            if not reads:
                continue
            changed = True
            trans = set(reads)
            while changed:
                changed = False
                for mn, m in methods.items():
                    if mn not in trans and mn not in setters and callees(m) & trans:
                        trans.add(mn)
                        changed = True
            called = set()
            for mn, m in methods.items():
                called |= callees(m)
            roots = [mn for mn in trans if mn not in called or mn == "__init__"]
            for rn in sorted(roots):
                rm = methods[rn]
                if rn in reads and rn not in called:
                    continue  # reads it directly as its own precondition: nothing to order inside this class
                cfg = ctx.cfg(rm)
                set_nodes = []
                use_nodes = []
                for z in cfg.nodes:
                    if z.stmt is None:
                        continue
                    for e in z.walk():
                        if isinstance(e, ast.Call) and isinstance(e.func, ast.Attribute) and isinstance(e.func.value, ast.Name) and e.func.value.id == "self":
                            if e.func.attr in setters:
                                set_nodes.append(z)
                            elif e.func.attr in trans:
                                use_nodes.append((z, e.func.attr))
                        if isinstance(e, ast.Attribute) and isinstance(e.value, ast.Name) and e.value.id == "self" and e.attr == attr and isinstance(e.ctx, ast.Store):
                            set_nodes.append(z)
                key = f"{C.name}.{attr} set before {rn} uses it"
                where = ctx.where(rm)
                if not use_nodes:
                    continue
                badu = None
                for z, callee in use_nodes:
                    if z in set_nodes:
                        continue
                    if z in cfg.reachable(cfg.entry, avoid=lambda y: y in set_nodes):
                        badu = (z, callee)
                        break
                if badu is None:
                    out.append(ok("INIT-1", rm.qualname, key, where, f"every call that reads self.{attr} ({sorted({c for _z, c in use_nodes})}) is preceded by {sorted(setters)}"))
                else:
                    out.append(bad("INIT-1", rm.qualname, key, ctx.where(rm, badu[0].stmt), f"self.{badu[1]}(...) reads self.{attr} (directly or through the methods it calls), which only {sorted(setters)} assign, but it can be reached without that assignment: AttributeError"))
    return out
