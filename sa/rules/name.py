"""Engine NAME - generated names (DESIGN 5.6)."""
from __future__ import annotations

import ast
import re
from typing import Dict, List, Optional, Set, Tuple

from .. import astutil as A
from ..domains import skeleton, skeleton_text
from ..model import AnalysisError, FunctionInfo
from ..report import Ob, bad, ok, unresolved
from . import rule
from .common import block_classes, kw, method_calls, see_through
from .store import _assign_parts, _core_functions

GEN_METHODS = ("new_block_name", "new_region_name", "new_var_name")


def _gen(ctx):
    c = ctx.prog.cls("NameGenerator")
    ms = {}
    for n in GEN_METHODS:
        m = c.find_method(n)
        if m is None:
            raise AnalysisError(f"NameGenerator.{n} not found")
        ms[n] = m
    return c, ms


def _returned_names(ctx, m: FunctionInfo) -> List[Tuple[ast.AST, ast.AST]]:
    """[(return stmt, expression that builds the returned string)] per reaching definition"""
    cfg = ctx.cfg(m)
    out = []
    for r in A.walk_no_nested(m.node):
        if isinstance(r, ast.Return) and r.value is not None:
            if isinstance(r.value, ast.Name):
                for d in cfg.reaching_defs(r, r.value.id):
                    ap = _assign_parts(d.stmt) if d.stmt is not None else None
                    out.append((r, ap[1] if ap else None, d))
            else:
                out.append((r, r.value, cfg.node_of(r)))
    return out


@rule("NAME-1", 6, "(flavour, kind, index) -> name is injective: each generated name is kind + a flavour separator + decimal index (+ fixed affixes)")
def name1(ctx) -> List[Ob]:
    out: List[Ob] = []
    _c, ms = _gen(ctx)
    shapes: Dict[str, Set[Tuple[str, str, str]]] = {}
    for mname, m in ms.items():
        kind_param = [p.arg for p in m.params if p.arg != "self"][0]
        for r, expr, d in _returned_names(ctx, m):
            key = f"{mname}: name built at a definition"
            where = ctx.where(m, d.stmt if getattr(d, "stmt", None) is not None else r)
            sk = skeleton(expr) if expr is not None else None
            if sk is None:
                out.append(unresolved("NAME-1", m.qualname, key, where, "the returned name is not a string expression the skeleton domain understands"))
                continue
            holes = [p for p in sk if isinstance(p, tuple)]
            lits = [p for p in sk if isinstance(p, str)]
            txt = skeleton_text(sk)
            key = f"{mname}: {txt}"
            kh = [i for i, p in enumerate(sk) if isinstance(p, tuple) and p[1] == kind_param]
            ih = [i for i, p in enumerate(sk) if isinstance(p, tuple) and p[1] != kind_param]
            if len(kh) != 1 or len(ih) != 1 or len(holes) != 2:
                out.append(bad("NAME-1", m.qualname, key, where, f"name skeleton '{txt}' does not contain exactly the kind and one index: different (kind, index) pairs can give the same name"))
                continue
            ki, ii = kh[0], ih[0]
            if not (ki < ii and ii == ki + 2 and isinstance(sk[ki + 1], str)):
                out.append(bad("NAME-1", m.qualname, key, where, f"name skeleton '{txt}': kind and index are not separated by a literal, parsing is ambiguous"))
                continue
            sep = sk[ki + 1]
            if not re.search(r"\D", sep):
                out.append(bad("NAME-1", m.qualname, key, where, f"separator '{sep}' consists of digits only: 'kind1'+'2' and 'kind'+'12' collide"))
                continue
            prefix = "".join(p for p in sk[:ki] if isinstance(p, str))
            suffix = "".join(p for p in sk[ii + 1:] if isinstance(p, str))
            if re.search(r"^\d", suffix):
                out.append(bad("NAME-1", m.qualname, key, where, f"suffix '{suffix}' starts with a digit: the index cannot be parsed back"))
                continue
            # the index hole must be the counter value of this path (checked by NAME-2: same definition)
            shapes.setdefault(mname, set()).add((prefix, sep, suffix))
            out.append(ok("NAME-1", m.qualname, key, where, f"'{prefix}' + kind + '{sep}' + decimal index + '{suffix}': parses uniquely at the last separator"))
    # one shape per method, and the flavours are mutually distinguishable
    for mname, sh in sorted(shapes.items()):
        key = f"{mname}: one shape on every path"
        if len(sh) == 1:
            out.append(ok("NAME-1", ms[mname].qualname, key, ctx.where(ms[mname]), f"shape {sorted(sh)[0]}", nontrivial=False))
        else:
            out.append(bad("NAME-1", ms[mname].qualname, key, ctx.where(ms[mname]), f"the paths of {mname} build names of different shapes {sorted(sh)}: the first name of a kind can collide with a later one"))
    names = sorted(shapes)
    for i, a in enumerate(names):
        for b in names[i + 1:]:
            key = f"{a} vs {b}"
            sa, sb = sorted(shapes[a])[0], sorted(shapes[b])[0]
            # names end with sep+digits+suffix: distinguishable when suffixes differ in their final
            # character class, or suffix equal and one separator is not a suffix of the other
            if sa[2] != sb[2]:
                distinct = not (sa[2].endswith(sb[2]) and sb[2] == "" and re.search(r"\d$", sa[2])) and not (sb[2].endswith(sa[2]) and sa[2] == "" and re.search(r"\d$", sb[2]))
            else:
                distinct = not (sa[1].endswith(sb[1]) or sb[1].endswith(sa[1]))
            if distinct:
                out.append(ok("NAME-1", "NameGenerator", key, ctx.where(ms[a]), f"{sa} and {sb} can never produce the same string"))
            else:
                out.append(bad("NAME-1", "NameGenerator", key, ctx.where(ms[a]), f"names of {a} {sa} and {b} {sb} can coincide although both draw from the shared per-kind counter only when the kinds are equal"))
    # kinds vocabulary (evidence)
    vocab: Dict[str, Set[str]] = {}
    for fn in ctx.prog.functions:
        for mname in GEN_METHODS:
            for c in method_calls(fn.node, mname):
                if c.args:
                    a = c.args[0]
                    try:
                        v = ctx.prog.const_value(fn.module, a)
                        vocab.setdefault(mname, set()).add(str(v))
                    except AnalysisError:
                        vocab.setdefault(mname, set()).add(f"<{A.unparse(a)}>")
    ctx.stats["NAME-1.kinds"] = {k: sorted(v) for k, v in vocab.items()}
    return out


@rule("NAME-2", 6, "every path through a generator method reads the counter of its kind from the one shared mapping, uses it as index and stores index + 1 back")
def name2(ctx) -> List[Ob]:
    out: List[Ob] = []
    cls, ms = _gen(ctx)
    fld = cls.field("kinds")
    for mname, m in ms.items():
        cfg = ctx.cfg(m)
        kind_param = [p.arg for p in m.params if p.arg != "self"][0]
        where = ctx.where(m)

        def is_store(z) -> bool:
            s = z.stmt
            if isinstance(s, ast.Assign) and len(s.targets) == 1 and isinstance(s.targets[0], ast.Subscript):
                t = s.targets[0]
                return A.unparse(t.value) == "self.kinds" and A.unparse(t.slice) == kind_param
            if isinstance(s, ast.AugAssign) and isinstance(s.target, ast.Subscript):
                return A.unparse(s.target.value) == "self.kinds" and A.unparse(s.target.slice) == kind_param
            return False

        key = f"{mname}: counter stored on every path"
        if cfg.exit in cfg.reachable(cfg.entry, avoid=is_store):
            out.append(bad("NAME-2", m.qualname, key, where, f"there is a path through {mname} that returns a name without advancing self.kinds[{kind_param}]: the next request of that kind returns the same name"))
        else:
            out.append(ok("NAME-2", m.qualname, key, where, "self.kinds[kind] written on every path to the return"))
        # each store: value is index + 1 where index is the value used in the name on that path
        for z in cfg.nodes:
            if not is_store(z):
                continue
            s = z.stmt
            skey = f"{mname}: " + A.alpha_key(s, keep=("self",))
            swhere = ctx.where(m, s)
            if isinstance(s, ast.AugAssign):
                okv = isinstance(s.op, ast.Add) and isinstance(s.value, ast.Constant) and isinstance(s.value.value, int) and s.value.value >= 1
                idx_name = None
            else:
                v = s.value
                okv = isinstance(v, ast.BinOp) and isinstance(v.op, ast.Add) and isinstance(v.right, ast.Constant) and isinstance(v.right.value, int) and not isinstance(v.right.value, bool) and v.right.value >= 1 and isinstance(v.left, ast.Name)
                idx_name = v.left.id if okv else None
            if not okv:
                out.append(bad("NAME-2", m.qualname, skey, swhere, f"the counter is set to {A.unparse(s.value)}, not to index + 1: names repeat or the counter does not advance"))
                continue
            # index provenance: self.kinds[kind] or the constant 0 under `kind not in self.kinds`
            problems = []
            if idx_name is not None:
                for d in cfg.reaching_defs(s, idx_name):
                    ap = _assign_parts(d.stmt) if d.stmt is not None else None
                    if ap is None:
                        problems.append("index is not defined on this path")
                        continue
                    dv = ap[1]
                    if isinstance(dv, ast.Subscript) and A.unparse(dv.value) == "self.kinds" and A.unparse(dv.slice) == kind_param:
                        continue
                    if isinstance(dv, ast.Call) and A.unparse(dv.func) == "self.kinds.get" and dv.args and A.unparse(dv.args[0]) == kind_param:
                        continue
                    if isinstance(dv, ast.IfExp):
                        # self.kinds[kind] if kind in self.kinds else 0   (or the negated spelling)
                        tt = A.unparse(dv.test)
                        pos, neg = f"{kind_param} in self.kinds", f"{kind_param} not in self.kinds"
                        cur, zero = (dv.body, dv.orelse) if tt == pos else ((dv.orelse, dv.body) if tt == neg else (None, None))
                        if cur is not None and isinstance(cur, ast.Subscript) and A.unparse(cur.value) == "self.kinds" and A.unparse(cur.slice) == kind_param and isinstance(zero, ast.Constant) and zero.value == 0:
                            continue
                    if isinstance(dv, ast.Constant) and dv.value == 0:
                        # must be on the `kind not in self.kinds` side
                        from .ctrl import _guard_conditions

                        gs = _guard_conditions(m.node, d.stmt)
                        side = [(t, pol) for t, pol in gs if "self.kinds" in t and kind_param in t]
                        if side and ((" not in " in side[0][0]) == side[0][1]):
                            continue
                        problems.append(f"index starts again at 0 (line {A.lineno(d.stmt)}) although the kind may already have a counter")
                        continue
                    problems.append(f"index comes from {A.unparse(dv)[:40]}, not from the shared counter")
                # the same index definition is used in the returned name on this path
                for r, expr, dn in _returned_names(ctx, m):
                    if expr is None or idx_name not in A.names_in(expr):
                        continue
                    nd = dn if hasattr(dn, "stmt") else None
                    if nd is not None and (z in cfg.reachable(nd) or nd in cfg.reachable(z)):
                        a = {id(x) for x in cfg.reaching_defs(nd.stmt, idx_name)}
                        b = {id(x) for x in cfg.reaching_defs(s, idx_name)}
                        if a != b:
                            problems.append("the index in the name and the index that is incremented are different definitions")
            if problems:
                out.append(bad("NAME-2", m.qualname, skey, swhere, "; ".join(sorted(set(problems)))))
            else:
                out.append(ok("NAME-2", m.qualname, skey, swhere, "stores index + 1 where index is this path's counter value (or 0 for a new kind)"))
    # census of the writers of the counters: they only move forward - written by the naming methods (index + 1) and by
    # the reader's seeding (max(old, seen + 1)); never cleared, restored from a snapshot or replaced
    for fn in ctx.prog.functions:
        for n_ in A.walk_no_nested(fn.node):
            bad_txt = None
            if isinstance(n_, ast.Call) and isinstance(n_.func, ast.Attribute) and n_.func.attr in ("clear", "update", "pop", "popitem", "setdefault", "__setitem__", "__delitem__") and isinstance(n_.func.value, ast.Attribute) and n_.func.value.attr == "kinds":
                bad_txt = A.unparse(n_)
            elif isinstance(n_, (ast.Assign, ast.AugAssign, ast.Delete)):
                tg = n_.targets if isinstance(n_, (ast.Assign, ast.Delete)) else [n_.target]
                for t_ in tg:
                    if isinstance(t_, ast.Attribute) and t_.attr == "kinds" and fn.name not in ("__init__", "__post_init__"):
                        bad_txt = A.unparse(n_)
                    elif isinstance(t_, ast.Subscript) and isinstance(t_.value, ast.Attribute) and t_.value.attr == "kinds" and fn.cls is not cls:
                        v_ = n_.value if isinstance(n_, ast.Assign) else None
                        if not (isinstance(v_, ast.Call) and isinstance(v_.func, ast.Name) and v_.func.id == "max"):
                            bad_txt = A.unparse(n_)
            if bad_txt:
                out.append(bad("NAME-2", fn.qualname, "counters only move forward: " + A.alpha_key(n_)[:50], ctx.where(fn, n_), f"'{bad_txt[:60]}' sets the per-kind counters back (or replaces them): names that are already in a graph are handed out again - a region stored under a re-used name overwrites the earlier one"))
    # the mapping is the generator's own field, created once per generator
    key = "shared counter mapping"
    if fld is None:
        out.append(bad("NAME-2", cls.name, key, f"{cls.module.relpath}:{A.lineno(cls.node)}", "NameGenerator has no 'kinds' field: counters are not shared between the three methods"))
    else:
        dflt = A.unparse(fld.default) if fld.default is not None else ""
        if "default_factory" in dflt and "dict" in dflt:
            out.append(ok("NAME-2", cls.name, key, f"{cls.module.relpath}:{A.lineno(cls.node)}", "one dict per generator instance, shared by block, region and variable names", nontrivial=False))
        else:
            out.append(bad("NAME-2", cls.name, key, f"{cls.module.relpath}:{A.lineno(cls.node)}", f"'kinds' default is {dflt or 'missing'}: not a fresh dict per generator"))
    return out


# ------------------------------------------------------------------ NAME-3


def _fresh(ctx, fn: FunctionInfo, e: ast.AST, use: ast.AST, depth: int = 0, trail: Optional[List[str]] = None) -> Tuple[str, List[str]]:
    """('fresh' | 'existing' | 'literal' | 'unknown', derivation)"""
    trail = trail if trail is not None else []
    cfg = ctx.cfg(fn)
    if isinstance(e, ast.Call) and isinstance(e.func, ast.Attribute) and e.func.attr in GEN_METHODS:
        return "fresh", trail + [f"{fn.qualname}: {A.unparse(e)[:60]}"]
    if isinstance(e, ast.IfExp):
        # a name chosen by a condition: under a use that is guarded by the same condition only one arm counts
        from .ctrl import _guard_conditions as _gci

        ug = dict(_gci(fn.node, use))
        t_, p_ = A.unparse(e.test), True
        tt = e.test
        while isinstance(tt, ast.UnaryOp) and isinstance(tt.op, ast.Not):
            tt, p_ = tt.operand, not p_
            t_ = A.unparse(tt)
        if t_ in ug:
            arm = e.body if ug[t_] == p_ else e.orelse
            return _fresh(ctx, fn, arm, use, depth + 1, trail + [f"{fn.qualname}: arm of '{A.unparse(e)[:40]}' selected by the guard of the use"])
        a_, b_ = _fresh(ctx, fn, e.body, use, depth + 1, trail), _fresh(ctx, fn, e.orelse, use, depth + 1, trail)
        if a_[0] == b_[0]:
            return a_
        for k in ("literal", "existing", "unknown"):
            for v_ in (a_, b_):
                if v_[0] == k:
                    return v_
    if isinstance(e, ast.Constant):
        return "literal", trail + [f"{fn.qualname}: literal {e.value!r}"]
    # an element of a collection of names that are already in the graph: X[0] / next(iter(X)) with X a comprehension
    # over the block table, or the key / name of a block looked up in it
    src = None
    if isinstance(e, ast.Subscript) and isinstance(e.value, ast.Name):
        src = e.value
    elif isinstance(e, ast.Call) and isinstance(e.func, ast.Name) and e.func.id == "next" and e.args and isinstance(e.args[0], ast.Call) and isinstance(e.args[0].func, ast.Name) and e.args[0].func.id == "iter" and e.args[0].args and isinstance(e.args[0].args[0], ast.Name):
        src = e.args[0].args[0]
    if src is not None:
        vals = [d.stmt.value for d in cfg.reaching_defs(use, src.id) if d.stmt is not None and isinstance(d.stmt, ast.Assign)]
        if vals and all(isinstance(v, (ast.ListComp, ast.SetComp, ast.GeneratorExp)) and any(".graph" in A.unparse(g.iter) or A.unparse(g.iter) in ("self", "self.keys()") for g in v.generators) for v in vals):
            return "existing", trail + [f"{fn.qualname}: {A.unparse(e)[:40]} is an element of {A.unparse(vals[0])[:60]} (names of blocks that are in the graph)"]
    if isinstance(e, ast.Attribute) and e.attr == "name" and depth < 5:
        return "existing", trail + [f"{fn.qualname}: {A.unparse(e)[:40]} is the name of an existing block"]
    if isinstance(e, ast.JoinedStr) or isinstance(e, ast.BinOp):
        return "literal", trail + [f"{fn.qualname}: built string {A.unparse(e)[:40]}"]
    if isinstance(e, ast.Call) and isinstance(e.func, ast.Attribute) and e.func.attr in ("replace", "format", "join", "removeprefix", "removesuffix", "strip", "lstrip", "rstrip", "lower", "upper", "zfill", "ljust", "rjust", "translate", "format_map"):
        # a name derived from another name by a string operation was not handed out by the generator: its
        # counter does not move, the name can be handed out again (or exist already)
        return "literal", trail + [f"{fn.qualname}: name derived by a string operation {A.unparse(e)[:50]}"]
    if isinstance(e, ast.Name) and depth < 5:
        params = [p.arg for p in fn.params]
        verdicts = []
        from .ctrl import _guard_conditions as _gc_

        use_guards = dict(_gc_(fn.node, use))
        for d in cfg.reaching_defs(use, e.id):
            # a definition made under the opposite of a condition that holds at the use is on another path
            # (`if join: name = fresh() else: name = only(xs)` ... `if join: insert(name)`)
            if d.stmt is not None and any(t_ in use_guards and use_guards[t_] != p_ for t_, p_ in _gc_(fn.node, d.stmt)):
                continue
            if d.stmt is None:
                if e.id in params:
                    sites = ctx.cg.call_sites_of(fn)
                    lib = [s for s in sites]
                    if not lib:
                        verdicts.append(("fresh", trail + [f"{fn.qualname}: parameter {e.id} (public entry point, no library caller)"]))
                        continue
                    idx = params.index(e.id) - (1 if fn.cls is not None and not fn.is_static else 0)
                    for s in lib:
                        arg = kw(s.node, e.id, idx)
                        if arg is None:
                            verdicts.append(("unknown", trail + [f"{s.caller.qualname}: argument for {e.id} not found"]))
                        else:
                            verdicts.append(_fresh(ctx, s.caller, arg, s.node, depth + 1, trail + [f"{fn.qualname}: parameter {e.id} <- {s.caller.qualname}"]))
                else:
                    # undefined on a path that the use cannot be on: the use sits under the same
                    # condition (same test, same polarity, test variable not re-bound) as a definition
                    from .ctrl import _guard_conditions

                    ug = set(_guard_conditions(fn.node, use))
                    real = [x for x in cfg.reaching_defs(use, e.id) if x.stmt is not None]
                    if real and all(set(_guard_conditions(fn.node, x.stmt)) and set(_guard_conditions(fn.node, x.stmt)) <= ug for x in real):
                        continue
                    verdicts.append(("unknown", trail + [f"{fn.qualname}: {e.id} undefined on some path"]))
                continue
            ap = _assign_parts(d.stmt)
            if ap is not None:
                # (a conditional expression is resolved against the guards of the *use*)
                verdicts.append(_fresh(ctx, fn, ap[1], use if isinstance(ap[1], ast.IfExp) else d.stmt, depth + 1, trail))
            elif d.kind == "for":
                verdicts.append(("existing", trail + [f"{fn.qualname}: {e.id} iterates {A.unparse(d.stmt.iter)[:40]}"]))
            else:
                verdicts.append(("unknown", trail + [f"{fn.qualname}: {e.id} bound by {type(d.stmt).__name__}"]))
        kinds = {v for v, _ in verdicts}
        if kinds == {"fresh"}:
            return "fresh", verdicts[0][1]
        for k in ("literal", "existing", "unknown"):
            for v, t in verdicts:
                if v == k:
                    return v, t
    return "unknown", trail + [f"{fn.qualname}: {A.unparse(e)[:40]}"]


@rule("NAME-3", 8, "the name of every block the restructuring code constructs or stores under a new key comes from the graph's name generator")
def name3(ctx) -> List[Ob]:
    out: List[Ob] = []
    prog = ctx.prog
    bnames = {c.name for c in block_classes(prog)}
    for fn in _core_functions(ctx):
        for c in A.walk_no_nested(fn.node):
            if not isinstance(c, ast.Call):
                continue
            t = ctx.type_of(fn, c.func)
            from ..types import members

            if not any(m[0] == "type" and m[1] in bnames for m in members(t)):
                continue
            nm = kw(c, "name", 0)
            if nm is None:
                continue
            key = f"{A.alpha_key(c.func)}(name={A.alpha_key(nm)})"
            where = ctx.where(fn, c)
            v, deriv = _fresh(ctx, fn, nm, c)
            if v == "fresh":
                out.append(ok("NAME-3", fn.qualname, key, where, "name drawn from the name generator", deriv))
            elif v == "unknown":
                out.append(unresolved("NAME-3", fn.qualname, key, where, "cannot trace the name to its origin", deriv))
            else:
                out.append(bad("NAME-3", fn.qualname, key, where, f"a block is constructed under a name that is not generated ({v}): it can overwrite an existing block of that name", deriv))
    return out


# ------------------------------------------------------------------ NAME-4


@rule("NAME-4", 3, "a graph built around existing blocks shares their name generator, or gets one advanced past the names present, or holds only names outside the generator's namespace")
def name4(ctx) -> List[Ob]:
    out: List[Ob] = []
    prog = ctx.prog
    for fn in prog.functions:
        for c in A.walk_no_nested(fn.node):
            if not (isinstance(c, ast.Call) and (A.dotted(c.func) or "").split(".")[-1] == "SCFG"):
                continue
            graph = kw(c, "graph", 0)
            ng = kw(c, "name_gen", 1)
            key = A.alpha_key(c)
            where = ctx.where(fn, c)
            if graph is None:
                out.append(ok("NAME-4", fn.qualname, key, where, "empty graph: nothing to collide with", nontrivial=False))
                continue
            if ng is not None:
                verdict, why = _gen_provenance(ctx, fn, ng, c)
            else:
                verdict, why = _names_outside_namespace(ctx, fn, graph, c)
            if verdict == "ok":
                out.append(ok("NAME-4", fn.qualname, key, where, why))
            elif verdict == "unknown":
                out.append(unresolved("NAME-4", fn.qualname, key, where, why))
            else:
                out.append(bad("NAME-4", fn.qualname, key, where, why))
    return out


@rule("NAME-6", 1, "a name generator is never swapped for a fresh one because it *looks empty*: where a default generator is chosen with `gen or NameGenerator()` / `if not gen:`, the class defines neither __len__ nor __bool__ (an object without them is always true, so the test only catches None)")
def name6(ctx) -> List[Ob]:
    out: List[Ob] = []
    prog = ctx.prog
    ng = prog.cls("NameGenerator")
    falsy = [m for m in ("__len__", "__bool__") if m in ng.methods]
    n = 0
    for fn in prog.functions:
        for e in A.walk_no_nested(fn.node):
            site = None
            if isinstance(e, ast.BoolOp) and isinstance(e.op, ast.Or) and any(isinstance(v, ast.Call) and (A.dotted(v.func) or "").split(".")[-1] == "NameGenerator" for v in e.values[1:]):
                site = e
            elif isinstance(e, ast.IfExp) and any(isinstance(v, ast.Call) and (A.dotted(v.func) or "").split(".")[-1] == "NameGenerator" for v in (e.body, e.orelse)) and not isinstance(e.test, ast.Compare):
                site = e
            if site is None:
                continue
            n += 1
            key = "default generator chosen by truth value: " + A.alpha_key(site)[:60]
            if falsy:
                out.append(bad("NAME-6", fn.qualname, key, ctx.where(fn, site), f"{A.unparse(site)[:60]} tests the truth value of a generator and NameGenerator defines {falsy[0]}: a generator that has handed out nothing yet is replaced by a fresh one - graphs that should share one generator (a graph and its sub-graphs built by the reader) count independently and hand out the same names"))
            else:
                out.append(ok("NAME-6", fn.qualname, key, ctx.where(fn, site), "NameGenerator has no __len__ / __bool__: the test is an `is None` test"))
    if not n:
        key = "NameGenerator truth value"
        if falsy:
            # no such test today, but the class can be false: every `if gen` / `gen or ..` elsewhere would misfire
            uses = []
            for fn in prog.functions:
                for e in A.walk_no_nested(fn.node):
                    if isinstance(e, (ast.If, ast.While, ast.IfExp)) and isinstance(e.test, (ast.Name, ast.Attribute)) and "name_gen" in A.unparse(e.test):
                        uses.append((fn, e))
            if uses:
                out.append(bad("NAME-6", uses[0][0].qualname, key, ctx.where(uses[0][0], uses[0][1]), f"the truth value of a generator is tested and NameGenerator defines {falsy[0]}"))
            else:
                out.append(ok("NAME-6", ng.name, key, f"{ng.module.relpath}:{A.lineno(ng.node)}", f"NameGenerator defines {falsy[0]} but no code tests the truth value of a generator", nontrivial=False))
        else:
            out.append(ok("NAME-6", ng.name, key, f"{ng.module.relpath}:{A.lineno(ng.node)}", "NameGenerator defines neither __len__ nor __bool__: an instance is always true", nontrivial=False))
    return out


def _is_generator_copy(e: ast.AST) -> Optional[str]:
    """a generator built from (a copy of) another generator's counters: both count on independently from
    the same numbers, so the graphs they serve hand out the same names"""
    if not isinstance(e, ast.Call):
        return None
    fn_ = (A.dotted(e.func) or "").split(".")[-1]
    args = list(e.args) + [k.value for k in e.keywords]
    if fn_ == "NameGenerator" and args:
        if any(isinstance(x, ast.Attribute) and x.attr in ("kinds", "name_gen") for a in args for x in ast.walk(a)):
            return f"the generator is a copy of another generator's counters ({A.unparse(e)[:50]}): the copy and the original count on independently from the same numbers, so a graph and its sub-graphs hand out the same names"
    if fn_ in ("copy", "deepcopy", "replace") and args and any(isinstance(x, ast.Attribute) and x.attr == "name_gen" or (isinstance(x, ast.Name) and "gen" in x.id) for x in ast.walk(args[0])):
        return f"the generator is a copy ({A.unparse(e)[:50]}): the copy and the original count on independently, so names repeat across the hierarchy"
    return None


def _gen_provenance(ctx, fn: FunctionInfo, ng: ast.AST, use: ast.AST, depth: int = 0) -> Tuple[str, str]:
    cfg = ctx.cfg(fn)
    if isinstance(ng, ast.Attribute) and ng.attr == "name_gen":
        return "ok", f"shares the generator of the graph the blocks come from ({A.unparse(ng)})"
    copy_why = _is_generator_copy(ng)
    if copy_why:
        return "bad", copy_why
    if isinstance(ng, ast.Call) and (A.dotted(ng.func) or "").split(".")[-1] == "NameGenerator" and not ng.args and not ng.keywords:
        return "bad", "a fresh NameGenerator() is attached to a graph that already contains blocks: the first generated names repeat names present in the graph"
    if isinstance(ng, ast.Name) and depth < 4:
        params = [p.arg for p in fn.params]
        res = []
        for d in cfg.reaching_defs(use, ng.id):
            if d.stmt is None:
                if ng.id in params:
                    idx = params.index(ng.id) - (1 if fn.cls is not None and not fn.is_static else 0)
                    sites = [s for s in ctx.cg.call_sites_of(fn) if s.caller != fn]
                    if not sites:
                        res.append(("unknown", f"generator parameter {ng.id} of {fn.qualname} has no library caller"))
                    # the parameter's own default, used when a call site omits the argument
                    a_ = fn.node.args
                    pos_params = list(a_.posonlyargs) + list(a_.args)
                    dflt = None
                    if ng.id in [x.arg for x in pos_params]:
                        i_ = [x.arg for x in pos_params].index(ng.id) - (len(pos_params) - len(a_.defaults))
                        if i_ >= 0:
                            dflt = a_.defaults[i_]
                    for s in sites:
                        arg = kw(s.node, ng.id, idx)
                        if arg is not None:
                            res.append(_gen_provenance(ctx, s.caller, arg, s.node, depth + 1))
                        elif dflt is not None and isinstance(dflt, ast.Call) and (A.dotted(dflt.func) or "").split(".")[-1] == "NameGenerator":
                            res.append(("bad", f"the generator defaults to a NameGenerator() built once at definition time of {fn.qualname}: every graph built without an explicit generator shares (and keeps advancing) the same counters"))
                        else:
                            res.append(("unknown", "argument not found"))
                continue
            ap = _assign_parts(d.stmt)
            if ap is None:
                res.append(("unknown", "generator bound by an unknown construct"))
                continue
            v = ap[1]
            cw = _is_generator_copy(v)
            if cw:
                res.append(("bad", cw))
                continue
            if isinstance(v, ast.Call) and (A.dotted(v.func) or "").split(".")[-1] == "NameGenerator":
                # fresh generator: it must be seeded from the names present before it is used
                un = cfg.node_of(use)

                def seeds(z) -> bool:
                    if z.kind != "for":
                        return False
                    for s in A.walk_no_nested(ast.Module(z.stmt.body, [])):
                        tg = None
                        if isinstance(s, ast.Assign) and isinstance(s.targets[0], ast.Subscript):
                            tg = s.targets[0]
                        if tg is not None and A.unparse(tg.value) == f"{ng.id}.kinds":
                            v_ = s.value
                            # max(<current counter>, <index> + k) with k >= 1
                            if isinstance(v_, ast.Call) and isinstance(v_.func, ast.Name) and v_.func.id == "max":
                                for a_ in v_.args:
                                    if isinstance(a_, ast.BinOp) and isinstance(a_.op, ast.Add) and isinstance(a_.right, ast.Constant) and isinstance(a_.right.value, int) and a_.right.value >= 1:
                                        return True
                    return False

                def seeding_problems(z) -> list:
                    """the names the seeding loop ranges over, and how they are parsed"""
                    probs = []
                    it = z.stmt.iter
                    srcs = set()
                    if isinstance(it, ast.Name):
                        # everything that flows into the list
                        for q in A.walk_no_nested(fn.node):
                            if isinstance(q, ast.Assign) and any(isinstance(t, ast.Name) and t.id == it.id for t in q.targets):
                                srcs.add(A.unparse(q.value))
                            if isinstance(q, ast.Call) and isinstance(q.func, ast.Attribute) and A.unparse(q.func.value) == it.id and q.func.attr in ("append", "extend") and q.args:
                                srcs.add(A.unparse(q.args[0]))
                            if isinstance(q, ast.AugAssign) and isinstance(q.op, ast.Add) and isinstance(q.target, ast.Name) and q.target.id == it.id:
                                srcs.add(A.unparse(q.value))
                    else:
                        srcs.add(A.unparse(it))
                    blob = " ".join(sorted(srcs))
                    for what, needle in (("the block and region names", "blocks"), ("the control variable of branching blocks", "'variable'"), ("the variables of assignment blocks", "'variable_assignment'")):
                        if needle not in blob.replace('"', "'"):
                            probs.append(f"the seeding does not look at {what}")
                    # names are parsed with a pattern first, subject second
                    for q in A.walk_no_nested(ast.Module(z.stmt.body, [])):
                        if isinstance(q, ast.Call) and (A.dotted(q.func) or "") in ("re.fullmatch", "re.match", "re.search") and len(q.args) >= 2:
                            if not (isinstance(q.args[0], ast.Constant) and isinstance(q.args[0].value, str)):
                                probs.append(f"{A.unparse(q.func)} is not given a constant pattern as first argument")
                            else:
                                pat = q.args[0].value
                                for sep in ("_block", "_region", "_var_"):
                                    if sep not in pat and "block|region" not in pat:
                                        probs.append(f"the pattern does not cover generated names with '{sep}'")
                                if "_var_" not in pat:
                                    probs.append("the pattern does not cover generated variable names")
                                # capture groups of the pattern: which hold a kind, which an index
                                groups = []
                                depth_ = 0
                                start_ = None
                                i_ = 0
                                while i_ < len(pat):
                                    ch = pat[i_]
                                    if ch == "\\":
                                        i_ += 2
                                        continue
                                    if ch == "(":
                                        if pat[i_ + 1:i_ + 2] != "?" and depth_ == 0:
                                            start_ = i_
                                        depth_ += 1
                                    elif ch == ")":
                                        depth_ -= 1
                                        if depth_ == 0 and start_ is not None:
                                            groups.append(pat[start_ + 1:i_])
                                            start_ = None
                                    i_ += 1
                                kind_g = {n + 1 for n, g_ in enumerate(groups) if "\\d" not in g_}
                                idx_g = {n + 1 for n, g_ in enumerate(groups) if "\\d" in g_}
                                mvar = None
                                par_ = A.parent(q)
                                if isinstance(par_, ast.Assign) and isinstance(par_.targets[0], ast.Name):
                                    mvar = par_.targets[0].id
                                if mvar and kind_g and idx_g:
                                    def _is_group(c):
                                        return isinstance(c, ast.Call) and isinstance(c.func, ast.Attribute) and c.func.attr == "group" and A.unparse(c.func.value) == mvar and c.args and isinstance(c.args[0], ast.Constant)

                                    # locals that merely name one group (`kind_a = m.group(1)`; the unpacked form
                                    # `a, b, c, d = m.groups()` is read as four of these)
                                    alias_ = {}
                                    for st_ in A.walk_no_nested(ast.Module(z.stmt.body, [])):
                                        if isinstance(st_, ast.Assign) and len(st_.targets) == 1 and isinstance(st_.targets[0], ast.Name) and _is_group(st_.value):
                                            alias_[st_.targets[0].id] = st_.value.args[0].value

                                    def groups_of(e_):
                                        return {c.args[0].value for c in ast.walk(e_) if _is_group(c)} | {alias_[n_.id] for n_ in ast.walk(e_) if isinstance(n_, ast.Name) and n_.id in alias_}
                                    for st_ in A.walk_no_nested(ast.Module(z.stmt.body, [])):
                                        if isinstance(st_, ast.Assign) and isinstance(st_.targets[0], ast.Name) and st_.targets[0].id in alias_ and _is_group(st_.value):
                                            continue
                                        if isinstance(st_, ast.Assign) and isinstance(st_.targets[0], ast.Name) and groups_of(st_.value):
                                            gs_ = groups_of(st_.value)
                                            ors_ = [b for b in ast.walk(st_.value) if isinstance(b, ast.BoolOp)]
                                            if gs_ <= kind_g or gs_ <= idx_g:
                                                want = kind_g if gs_ <= kind_g else idx_g
                                                if gs_ != want:
                                                    probs.append(f"{A.unparse(st_)[:60]} reads group(s) {sorted(gs_)} but the pattern has {sorted(want)} for that part: names of one flavour are not parsed")
                                                if len(gs_) > 1 and not all(isinstance(b.op, ast.Or) for b in ors_):
                                                    probs.append(f"{A.unparse(st_)[:60]} combines alternative groups with 'and': only one alternative of the pattern matches at a time")
                                            else:
                                                probs.append(f"{A.unparse(st_)[:60]} mixes kind groups {sorted(kind_g)} and index groups {sorted(idx_g)}")
                    return probs

                seed_nodes = [z for z in cfg.nodes if seeds(z)]
                if seed_nodes and un not in cfg.reachable(d, avoid=lambda z: z in seed_nodes) and seeding_problems(seed_nodes[0]):
                    res.append(("bad", "the generator of a loaded graph is seeded incompletely: " + "; ".join(seeding_problems(seed_nodes[0])) + ": names of that kind are handed out again although they are present"))
                elif seed_nodes and un not in cfg.reachable(d, avoid=lambda z: z in seed_nodes):
                    # the seeding loop must range over names taken from the input
                    src = A.unparse(seed_nodes[0].stmt.iter)
                    res.append(("ok", f"fresh generator whose counters are advanced past the names found in the input (loop over {src}) before use"))
                else:
                    res.append(("bad", f"a fresh NameGenerator (line {A.lineno(v)}) is attached to a graph that already contains blocks: the first generated names repeat names present in the graph"))
            elif isinstance(v, ast.Attribute) and v.attr == "name_gen":
                res.append(("ok", f"shares {A.unparse(v)}"))
            else:
                res.append(("unknown", f"generator comes from {A.unparse(v)[:40]}"))
        for k in ("bad", "unknown"):
            for r in res:
                if r[0] == k:
                    return r
        if res:
            return res[0]
    return "unknown", f"cannot trace the generator {A.unparse(ng)[:40]}"


def _names_outside_namespace(ctx, fn: FunctionInfo, graph: ast.AST, use: ast.AST) -> Tuple[str, str]:
    """no name_gen= given (a fresh default generator): fine when the block names are decimal strings"""
    prog = ctx.prog
    # graph=self.convert_blocks(): names are the WritableASTBlock names
    txt = A.unparse(graph)
    wab = prog.classes.get("WritableASTBlock")
    if wab is None:
        return "unknown", "WritableASTBlock not found"
    if "convert_blocks" in txt:
        bad_sites = []
        n = 0
        for f in prog.functions:
            for c in A.walk_no_nested(f.node):
                if isinstance(c, ast.Call) and (A.dotted(c.func) or "").split(".")[-1] == "WritableASTBlock":
                    n += 1
                    nm = see_through(ctx, f, kw(c, "name", 0))
                    okn = isinstance(nm, ast.Call) and isinstance(nm.func, ast.Name) and nm.func.id == "str" and nm.args and ctx.type_of(f, nm.args[0]) == ("int",)
                    if not okn:
                        bad_sites.append(f"{f.qualname}:{A.lineno(c)} name={A.unparse(nm) if nm is not None else '?'}")
        if n and not bad_sites:
            return "ok", f"default generator, but every front-end block is named str(<int>) ({n} construction site(s)): decimal strings are outside the generator's namespace"
        return "bad", f"default (fresh) generator and front-end block names are not provably decimal: {bad_sites[:2]}"
    return "bad", f"SCFG built around existing blocks ({txt[:40]}) without name_gen=: a fresh generator restarts at index 0"


# ------------------------------------------------------------------ NAME-5

RESERVED = re.compile(r"^__scfg_.*__$")
TEMPLATE_BUILTINS = {"iter", "next"}


def _string_skeleton(ctx, fn: FunctionInfo, e: ast.AST, use: ast.AST, depth: int = 0):
    """skeleton list of a string-valued expression, following locals; holes are
    ('hole', text) or ('user', text) for text produced by ast.unparse of user code"""
    cfg = ctx.cfg(fn)
    if isinstance(e, ast.Call) and (A.dotted(e.func) or "") in ("textwrap.dedent", "dedent") and e.args:
        return _string_skeleton(ctx, fn, e.args[0], use, depth + 1)
    if isinstance(e, ast.Call) and (A.dotted(e.func) or "") == "ast.unparse":
        return [("user", A.unparse(e))]
    sk = skeleton(e)
    if sk is not None:
        out = []
        for p in sk:
            if isinstance(p, tuple):
                try:
                    he = ast.parse(p[1], mode="eval").body
                except SyntaxError:
                    out.append(p)
                    continue
                if isinstance(he, ast.Name) and depth < 4:
                    # resolve the hole through the local's definition (in the enclosing statement's scope)
                    sub = None
                    defs = [d for d in cfg.reaching_defs(use, he.id) if d.stmt is not None]
                    if len(defs) == 1:
                        ap = _assign_parts(defs[0].stmt)
                        if ap is not None:
                            sub = _string_skeleton(ctx, fn, ap[1], defs[0].stmt, depth + 1)
                    if sub is not None and not (len(sub) == 1 and isinstance(sub[0], tuple) and sub[0][0] == "hole" and sub[0][1] == he.id):
                        out.extend(sub)
                        continue
                out.append(p)
            else:
                out.append(p)
        return out
    if isinstance(e, ast.Name) and depth < 4:
        defs = [d for d in cfg.reaching_defs(use, e.id) if d.stmt is not None]
        if len(defs) == 1:
            ap = _assign_parts(defs[0].stmt)
            if ap is not None:
                return _string_skeleton(ctx, fn, ap[1], defs[0].stmt, depth + 1)
        return [("hole", e.id)]
    return None


def _skeleton_reserved(sk) -> bool:
    """every string the skeleton can produce matches ^__scfg_.*__$"""
    if not sk or not isinstance(sk[0], str) or not isinstance(sk[-1], str):
        return False
    return sk[0].startswith("__scfg_") and sk[-1].endswith("__") and (len(sk) > 1 or len(sk[0]) >= len("__scfg___"))


@rule("NAME-5", 8, "every identifier the transformers introduce lies in the reserved __scfg_..__ namespace (builtins iter/next of the for template excepted)")
def name5(ctx) -> List[Ob]:
    out: List[Ob] = []
    prog = ctx.prog
    mod = prog.module("ast_transforms")
    # the generator's variable skeleton is reserved (block.variable / variable_assignment keys come from it)
    _c, ms = _gen(ctx)
    vm = ms["new_var_name"]
    gen_ok = True
    for r, expr, d in _returned_names(ctx, vm):
        sk = skeleton(expr) if expr is not None else None
        key = "control variable skeleton " + (skeleton_text(sk) if sk else "?")
        if sk is not None and _skeleton_reserved(sk):
            out.append(ok("NAME-5", vm.qualname, key, ctx.where(vm), "control variables are __scfg_<kind>_var_<n>__"))
        else:
            gen_ok = False
            out.append(bad("NAME-5", vm.qualname, key, ctx.where(vm), f"control variable names ({skeleton_text(sk) if sk else '?'}) are outside the reserved __scfg_*__ namespace: they can capture a variable of the user's function"))
    for fn in prog.functions:
        if fn.module is not mod:
            continue
        for c in A.walk_no_nested(fn.node):
            if not isinstance(c, ast.Call):
                continue
            d = A.dotted(c.func) or ""
            if d == "ast.Name":
                idarg = kw(c, "id", 0)
                if idarg is None:
                    continue
                key = "ast.Name(" + A.alpha_key(idarg) + ")"
                where = ctx.where(fn, c)
                # graph-provided control variables
                if isinstance(idarg, ast.Attribute) and idarg.attr == "variable":
                    out.append(ok("NAME-5", fn.qualname, key, where, "a block's control variable (generator namespace)", nontrivial=False) if gen_ok else bad("NAME-5", fn.qualname, key, where, "uses a control variable whose namespace is not reserved"))
                    continue
                if isinstance(idarg, ast.Name):
                    t = ctx.type_of(fn, idarg)
                    comp = next((x for x in A.ancestors(c) if isinstance(x, (ast.ListComp, ast.GeneratorExp))), None)
                    if comp is not None and any("variable_assignment" in A.unparse(g.iter) for g in comp.generators):
                        out.append(ok("NAME-5", fn.qualname, key, where, "key of a block's variable_assignment (generator namespace)", nontrivial=False) if gen_ok else bad("NAME-5", fn.qualname, key, where, "uses a control variable whose namespace is not reserved"))
                        continue
                sk = _string_skeleton(ctx, fn, idarg, c)
                if sk is None:
                    out.append(unresolved("NAME-5", fn.qualname, key, where, f"cannot determine the identifier {A.unparse(idarg)[:40]}"))
                elif _skeleton_reserved(sk):
                    out.append(ok("NAME-5", fn.qualname, key, where, f"identifier {skeleton_text(sk)} is reserved"))
                else:
                    out.append(bad("NAME-5", fn.qualname, key, where, f"the generated code introduces the identifier '{skeleton_text(sk)}', which is not in the reserved __scfg_*__ namespace"))
            elif d == "ast.parse" and c.args:
                arg = c.args[0]
                sk = _string_skeleton(ctx, fn, arg, c)
                key = "template " + A.alpha_key(arg)
                where = ctx.where(fn, c)
                if sk is None or all(isinstance(p, tuple) for p in sk):
                    if isinstance(arg, ast.Name) and fn.name == "unparse_code" or "code" in A.unparse(arg):
                        continue  # the user's own source
                    out.append(unresolved("NAME-5", fn.qualname, key, where, "template text not understood"))
                    continue
                # instantiate: user holes -> USERn, other holes -> 0
                text = ""
                for p in sk:
                    if isinstance(p, str):
                        text += p
                    elif p[0] == "user":
                        text += "USERHOLE"
                    else:
                        text += "0"
                import textwrap

                try:
                    tree = ast.parse(textwrap.dedent(text))
                except SyntaxError:
                    out.append(unresolved("NAME-5", fn.qualname, key, where, "instantiated template does not parse"))
                    continue
                idents = sorted({n.id for n in ast.walk(tree) if isinstance(n, ast.Name)})
                offenders = [i for i in idents if i != "USERHOLE" and not RESERVED.match(i) and i not in TEMPLATE_BUILTINS]
                if offenders:
                    out.append(bad("NAME-5", fn.qualname, key, where, f"the source template introduces identifier(s) {offenders} outside the reserved namespace"))
                else:
                    out.append(ok("NAME-5", fn.qualname, key, where, f"template identifiers {idents}: user code, reserved names, and the builtins {sorted(TEMPLATE_BUILTINS & set(idents))}"))
    return out
