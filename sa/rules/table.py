"""Engine TABLE - the opcode tables against the interpreter's own metadata (DESIGN 5.5)."""
from __future__ import annotations

import ast
from typing import Dict, List, Optional, Set

from .. import astutil as A
from ..model import AnalysisError
from ..oracle import interpreters, oracle
from ..report import Ob, bad, ok, unresolved
from . import rule
from .common import kw, method_calls

GENERATOR_ONLY = {"SEND", "JUMP_BACKWARD_NO_INTERRUPT", "END_ASYNC_FOR", "CLEANUP_THROW"}
UNCOND_NAMES = {"JUMP_FORWARD", "JUMP_BACKWARD", "JUMP_ABSOLUTE", "JUMP", "JUMP_NO_INTERRUPT", "JUMP_BACKWARD_NO_INTERRUPT"}
RETURN_NAMES = {"RETURN_VALUE", "RETURN_CONST"}
TABLES = {"cond": "_cond_jump", "uncond": "_uncond_jump", "term": "_terminating"}


PREDICATES = {"cond": "is_conditional_jump", "uncond": "is_unconditional_jump", "term": "is_exiting"}


def _table_name(ctx, role: str) -> str:
    """the table a classification predicate consults (`return opname in <table>`): by the predicate, so that
    renaming the module constant is not seen; the audited name when the predicate is spelt otherwise"""
    f = ctx.prog.find_function(PREDICATES[role])
    if f is not None and len(f.params) == 1:
        body = A.body_without_docstring(f.node)
        if len(body) == 1 and isinstance(body[0], ast.Return) and isinstance(body[0].value, ast.Compare) and len(body[0].value.ops) == 1 \
                and isinstance(body[0].value.ops[0], ast.In) and isinstance(body[0].value.left, ast.Name) and body[0].value.left.id == f.params[0].arg \
                and isinstance(body[0].value.comparators[0], ast.Name):
            return body[0].value.comparators[0].id
    return TABLES[role]


def _tables(ctx) -> Dict[str, Set[str]]:
    m = ctx.prog.module("utils")
    out = {}
    for role in TABLES:
        name = _table_name(ctx, role)
        mm, node = _table_node(ctx, name)
        # the table as it stands after the module's top-level statements (later .update(..) / |= folded in)
        folded = ctx.prog.module_consts(mm)
        real = next((k_ for k_, v_ in mm.constants.items() if v_ is node), name)
        v = folded[real] if real in folded and isinstance(folded[real], (set, frozenset, tuple, list)) else ctx.prog.const_value(mm, node)
        out[role] = set(v)
    return out


def _table_node(ctx, name: str):
    """(module, value node) of an opcode table: defined in utils.py, or imported there from the module
    that defines it"""
    m = ctx.prog.module("utils")
    if name in m.constants and name not in m.imports:
        return m, m.constants[name]
    kind, obj = ctx.prog.resolve_dotted(m, name)
    if kind == "const":
        return obj  # type: ignore[return-value]
    raise AnalysisError(f"opcode table {name} not found in utils.py (nor imported there)")


def _classify(name: str) -> Optional[str]:
    if name in UNCOND_NAMES:
        return "uncond"
    if "_IF_" in name or name in ("FOR_ITER", "SEND") or name.startswith("POP_JUMP") or name.startswith("JUMP_IF"):
        return "cond"
    return None


@rule("TABLE-1", 10, "the opcode tables classify every jump and return opcode of the interpreter, each in the right table")
def table1(ctx) -> List[Ob]:
    out: List[Ob] = []
    tabs = _tables(ctx)
    m = ctx.prog.module("utils")
    _tm, _tn = _table_node(ctx, _table_name(ctx, "cond"))
    where = f"{_tm.relpath}:{A.lineno(_tn)}"
    exes = interpreters() if ctx.tier == "thorough" else interpreters()[:1]
    ctx.stats["TABLE-1.interpreters"] = exes
    for exe in exes:
        data = oracle(exe)
        ver = ".".join(str(x) for x in data["version"][:2])
        ops = data["opcodes"]
        for name, d in sorted(ops.items()):
            if d.get("pseudo"):
                continue
            is_jump = d["jrel"] or d["jabs"]
            key = f"py{ver} {name}"
            if is_jump:
                if name in GENERATOR_ONLY:
                    out.append(ok("TABLE-1", "<module>", key, where, "emitted only around generator suspension points / async loops: outside the domain", nontrivial=False))
                    continue
                cls = _classify(name)
                if cls is None:
                    out.append(unresolved("TABLE-1", "<module>", key, where, f"jump opcode {name} of Python {ver} is unknown to the checker's classification"))
                    continue
                if name in tabs[cls] and not any(name in tabs[o] for o in tabs if o != cls):
                    out.append(ok("TABLE-1", "<module>", key, where, f"{name} ({cls}) listed in {TABLES[cls]}"))
                elif name not in tabs[cls]:
                    wrong = [TABLES[o] for o in tabs if name in tabs[o]]
                    if wrong:
                        out.append(bad("TABLE-1", "<module>", key, where, f"{name} is a{'n un' if cls == 'uncond' else ' '}conditional jump in Python {ver} but is listed in {wrong[0]}: wrong number of successors"))
                    else:
                        out.append(bad("TABLE-1", "<module>", key, where, f"jump opcode {name} of Python {ver} is in no table: a block ending with it gets an implicit fall-through only, or building the graph fails with KeyError"))
                else:
                    out.append(bad("TABLE-1", "<module>", key, where, f"{name} is listed in more than one table"))
            elif name in RETURN_NAMES:
                if name in tabs["term"] and name not in tabs["cond"] and name not in tabs["uncond"]:
                    out.append(ok("TABLE-1", "<module>", key, where, f"{name} listed in _terminating"))
                else:
                    out.append(bad("TABLE-1", "<module>", key, where, f"returning opcode {name} of Python {ver} is not (only) in _terminating: a block ending with it falls through to the next block / KeyError"))
            else:
                hit = [TABLES[o] for o in tabs if name in tabs[o]]
                if hit:
                    out.append(bad("TABLE-1", "<module>", key, where, f"{name} is neither a jump nor a return in Python {ver} but is listed in {hit[0]}"))
    # disjointness
    for a in tabs:
        for b in tabs:
            if a < b and tabs[a] & tabs[b]:
                out.append(bad("TABLE-1", "<module>", f"tables {a}/{b} overlap", where, f"{sorted(tabs[a] & tabs[b])} listed in both {TABLES[a]} and {TABLES[b]}"))
    return out


def _guard_conditions_of(root: ast.AST, node: ast.AST):
    from .ctrl import _guard_conditions

    return _guard_conditions(root, node)


@rule("TABLE-2", 6, "the three classification arms record 2 / 1 / 0 targets, fall-through first, and each predicate reads its own table")
def table2(ctx) -> List[Ob]:
    out: List[Ob] = []
    fi = ctx.prog.cls("FlowInfo")
    fb = fi.find_method("from_bytecode")
    if fb is None:
        raise AnalysisError("FlowInfo.from_bytecode not found")
    um = ctx.prog.module("utils")
    preds = {}
    for role in TABLES:
        tname = _table_name(ctx, role)
        for f in um.functions.values():
            rets = [n for n in A.walk_no_nested(f.node) if isinstance(n, ast.Return) and n.value is not None]
            if len(rets) == 1 and isinstance(rets[0].value, ast.Compare) and isinstance(rets[0].value.ops[0], ast.In) and A.unparse(rets[0].value.comparators[0]) == tname:
                preds[f.name] = role
    for fname, role in sorted(preds.items()):
        out.append(ok("TABLE-2", fname, f"predicate reads {TABLES[role]}", f"{um.relpath}:1", f"{fname}(opname) == opname in {TABLES[role]}", nontrivial=False))
    want = {"cond": 2, "uncond": 1, "term": 0}
    seen_roles = set()
    bparam = fb.params[0].arg if fb.params else "bc"
    from .common import expanded_function

    fbx = expanded_function(fb)  # locals that merely name inst.offset / inst.opname are read through
    iv_loops = [lp for lp in A.walk_no_nested(fbx) if isinstance(lp, ast.For) and A.unparse(lp.iter) == bparam and isinstance(lp.target, ast.Name)]
    IV = iv_loops[0].target.id if iv_loops else "inst"
    for n in A.walk_no_nested(fbx):
        if not isinstance(n, ast.If):
            continue
        t = n.test
        if isinstance(t, ast.Call) and (A.dotted(t.func) or "").split(".")[-1] in preds:
            role = preds[(A.dotted(t.func) or "").split(".")[-1]]
            seen_roles.add(role)
            calls = [c for c in method_calls(ast.Module(n.body, []), "_add_jump_inst")]
            key = f"{role} arm"
            where = ctx.where(fb, n)
            if not calls:
                # the arm only chooses the tuple (`targets = (..)`); one call behind the chain records it:
                #     if targets is not None: flowinfo._add_jump_inst(inst.offset, targets)
                asg = [s_ for s_ in n.body if isinstance(s_, ast.Assign) and len(s_.targets) == 1 and isinstance(s_.targets[0], ast.Name) and isinstance(s_.value, ast.Tuple)]
                if len(asg) == 1:
                    var = asg[0].targets[0].id
                    later = [c for c in method_calls(fbx, "_add_jump_inst") if len(c.args) == 2 and isinstance(c.args[1], ast.Name) and c.args[1].id == var and A.lineno(c) > A.lineno(asg[0])]
                    # the call is unconditional or guarded only by `<var> is not None` (the arm that records nothing sets None)
                    def _only_none_guard(c_) -> bool:
                        gs_ = _guard_conditions_of(fbx, c_)
                        return all(t_ in (f"{var} is not None",) and p_ or t_ in (f"{var} is None",) and not p_ for t_, p_ in gs_ if var in t_) and not [1 for t_, p_ in gs_ if var not in t_ and "offset == 0" not in t_ and "is_jump_target" not in t_]
                    if len(later) == 1 and _only_none_guard(later[0]):
                        calls = [ast.copy_location(ast.Call(func=later[0].func, args=[later[0].args[0], asg[0].value], keywords=[]), asg[0])]
            if len(calls) != 1 or len(calls[0].args) != 2 or not isinstance(calls[0].args[1], ast.Tuple):
                out.append(bad("TABLE-2", fb.qualname, key, where, f"the {role} arm does not record its targets with one _add_jump_inst(offset, (<targets>)) call"))
                continue
            tup = calls[0].args[1]
            if len(tup.elts) != want[role]:
                out.append(bad("TABLE-2", fb.qualname, key, where, f"the {role} arm records {len(tup.elts)} target(s), expected {want[role]}"))
                continue
            if A.unparse(calls[0].args[0]) != f"{IV}.offset":
                out.append(bad("TABLE-2", fb.qualname, key, where, f"the jump is recorded under {A.unparse(calls[0].args[0])}, not under the instruction's own offset"))
                continue
            if role == "cond":
                a, b = tup.elts
                ft = isinstance(a, ast.Call) and (A.dotted(a.func) or "").split(".")[-1] == "_next_inst_offset" and A.unparse(a.args[0]) == f"{IV}.offset"
                jt = A.unparse(b) == f"{IV}.argval"
                if ft and jt:
                    out.append(ok("TABLE-2", fb.qualname, key, where, "targets = (fall-through, jump target) in that order"))
                else:
                    out.append(bad("TABLE-2", fb.qualname, key, where, f"conditional targets are ({A.unparse(a)}, {A.unparse(b)}); expected (fall-through offset, <instruction>.argval): first successor must be the fall-through"))
            elif role == "uncond":
                if A.unparse(tup.elts[0]) == f"{IV}.argval":
                    out.append(ok("TABLE-2", fb.qualname, key, where, "single target <instruction>.argval"))
                else:
                    out.append(bad("TABLE-2", fb.qualname, key, where, f"unconditional jump records {A.unparse(tup.elts[0])} instead of inst.argval"))
            else:
                out.append(ok("TABLE-2", fb.qualname, key, where, "no successor after a return"))
    for role in want:
        if role not in seen_roles:
            out.append(bad("TABLE-2", fb.qualname, f"{role} arm", ctx.where(fb), f"no arm classifies {role} opcodes in from_bytecode"))
    # block starts: offset 0 / jump targets
    key = "block start at offset 0 and at jump targets"
    tests = [A.unparse(n.test) for n in A.walk_no_nested(fbx) if isinstance(n, ast.If)]
    if any("is_jump_target" in t and "offset == 0" in t for t in tests):
        out.append(ok("TABLE-2", fb.qualname, key, ctx.where(fb), "offset 0 and every is_jump_target instruction start a block"))
    else:
        out.append(bad("TABLE-2", fb.qualname, key, ctx.where(fb), "instructions that are jump targets (or offset 0) no longer start a block"))
    return out


@rule("TABLE-3", 3, "the terminator of a block is found at end-2: no unconditional jump or return opcode carries inline cache entries")
def table3(ctx) -> List[Ob]:
    out: List[Ob] = []
    tabs = _tables(ctx)
    m = ctx.prog.module("utils")
    _tm, _tn = _table_node(ctx, _table_name(ctx, "uncond"))
    where = f"{_tm.relpath}:{A.lineno(_tn)}"
    exes = interpreters() if ctx.tier == "thorough" else interpreters()[:1]
    for exe in exes:
        data = oracle(exe)
        ver = ".".join(str(x) for x in data["version"][:2])
        for name in sorted(tabs["uncond"] | tabs["term"]):
            d = data["opcodes"].get(name)
            if d is None:
                continue
            key = f"py{ver} {name} caches"
            if d["caches"] == 0:
                out.append(ok("TABLE-3", "<module>", key, where, f"{name} has no inline cache: it sits at end-2 of its block"))
            else:
                out.append(bad("TABLE-3", "<module>", key, where, f"{name} carries {d['caches']} inline cache entries in Python {ver}: the block's terminator is not at end-2, so its jump is missed and replaced by an implicit fall-through"))
    # the lookup itself
    fi = ctx.prog.cls("FlowInfo")
    bb = fi.find_method("build_basicblocks")
    if bb is None:
        raise AnalysisError("FlowInfo.build_basicblocks not found")
    key = "terminator lookup"
    from .common import expanded_function

    xb = expanded_function(bb)
    # the loop that builds the blocks walks (begin, end) pairs
    zl = [lp for lp in A.walk_no_nested(xb) if isinstance(lp, ast.For) and isinstance(lp.target, ast.Tuple) and len(lp.target.elts) == 2
          and any(isinstance(c_, ast.Call) and A.unparse(c_.func).endswith("PythonBytecodeBlock") for c_ in ast.walk(lp))]
    found = False
    if zl:
        lp = zl[0]
        E = A.unparse(lp.target.elts[1])
        # the terminator offset: a local bound to _prev_inst_offset(E) (or the call itself in the test)
        terms = {f"_prev_inst_offset({E})"}
        for s_ in A.walk_no_nested(lp):
            if isinstance(s_, ast.Assign) and len(s_.targets) == 1 and isinstance(s_.targets[0], ast.Name) and A.unparse(s_.value) == f"_prev_inst_offset({E})":
                terms.add(s_.targets[0].id)
        for if_ in A.walk_no_nested(lp):
            if not (isinstance(if_, (ast.If, ast.IfExp)) and isinstance(if_.test, ast.Compare) and len(if_.test.ops) == 1 and isinstance(if_.test.ops[0], (ast.In, ast.NotIn))):
                continue
            if A.unparse(if_.test.left) not in terms or not A.unparse(if_.test.comparators[0]).endswith("jump_insts"):
                continue
            implicit = if_.body if isinstance(if_.test.ops[0], ast.NotIn) else if_.orelse
            itxt = " ".join(A.unparse(x) for x in (implicit if isinstance(implicit, list) else [implicit]))
            if f"[{E}]" in itxt:
                found = True
    if found:
        out.append(ok("TABLE-3", bb.qualname, key, ctx.where(bb), "term_offset = end-2; recorded jump else implicit fall-through to the next block"))
    else:
        out.append(unresolved("TABLE-3", bb.qualname, key, ctx.where(bb), "terminator lookup not recognised"))
    pv = ctx.prog.module("utils").functions.get("_prev_inst_offset")
    nx = ctx.prog.module("utils").functions.get("_next_inst_offset")
    for f, op in ((pv, ast.Sub), (nx, ast.Add)):
        if f is None:
            raise AnalysisError("_prev_inst_offset / _next_inst_offset not found")
        r = [n for n in A.walk_no_nested(f.node) if isinstance(n, ast.Return)][0].value
        key = f"{f.name} step"
        if isinstance(r, ast.BinOp) and isinstance(r.op, op) and isinstance(r.right, ast.Constant) and r.right.value == 2:
            out.append(ok("TABLE-3", f.qualname, key, ctx.where(f), "one code unit = 2 bytes", nontrivial=False))
        else:
            out.append(bad("TABLE-3", f.qualname, key, ctx.where(f), f"{f.name} returns {A.unparse(r)}: not one 2-byte code unit"))
    return out


@rule("TABLE-4", 2, "every recorded jump target starts a block")
def table4(ctx) -> List[Ob]:
    out: List[Ob] = []
    fi = ctx.prog.cls("FlowInfo")
    aj = fi.find_method("_add_jump_inst")
    if aj is None:
        raise AnalysisError("FlowInfo._add_jump_inst not found")
    params = [p.arg for p in aj.params if p.arg != "self"]
    tparam = params[1] if len(params) > 1 else "targets"
    cfg = ctx.cfg(aj)
    key = "targets added to block_offsets"
    loops = [n for n in A.walk_no_nested(aj.node) if isinstance(n, ast.For) and A.unparse(n.iter) == tparam]
    good = False
    for lp in loops:
        adds = [c for c in method_calls(lp, "add") if "block_offsets" in A.unparse(c.func.value) and c.args and A.unparse(c.args[0]) == A.unparse(lp.target)]
        for c in adds:
            n = cfg.node_of(c)
            hdr = cfg.node_of(lp)
            # the add is executed on every iteration (not skipped by continue / condition)
            body_first = [s for s in hdr.succ if s.stmt is not None and s.stmt in lp.body]
            if body_first and all(hdr not in cfg.reachable(b, avoid=lambda z: z is n, include_src=True) or b is n for b in body_first):
                good = True
    if good:
        out.append(ok("TABLE-4", aj.qualname, key, ctx.where(aj), f"every element of {tparam} is added to block_offsets on every iteration"))
    else:
        out.append(bad("TABLE-4", aj.qualname, key, ctx.where(aj), "a recorded jump target is not (always) registered as a block start: the target lands in the middle of a block"))
    key = "jump recorded under its offset"
    st = [s for s in A.walk_no_nested(aj.node) if isinstance(s, ast.Assign) and isinstance(s.targets[0], ast.Subscript) and "jump_insts" in A.unparse(s.targets[0].value)]
    if st and A.unparse(st[0].targets[0].slice) == params[0] and A.unparse(st[0].value) in (f"tuple({tparam})", tparam):
        out.append(ok("TABLE-4", aj.qualname, key, ctx.where(aj, st[0]), "jump_insts[offset] = tuple(targets)"))
    else:
        out.append(bad("TABLE-4", aj.qualname, key, ctx.where(aj), "the targets are not recorded, in order, under the instruction's offset"))
    return out


@rule("TABLE-5", 1, "the end of the code is the offset of the last instruction, whatever that instruction is")
def table5(ctx) -> List[Ob]:
    out: List[Ob] = []
    fi = ctx.prog.cls("FlowInfo")
    fb = fi.find_method("from_bytecode")
    if fb is None:
        raise AnalysisError("FlowInfo.from_bytecode not found")
    cfg = ctx.cfg(fb)
    sts = [s for s in A.walk_no_nested(fb.node) if isinstance(s, ast.Assign) and any(isinstance(t, ast.Attribute) and t.attr == "last_offset" for t in s.targets)]
    key = "last_offset assignment"
    if not sts:
        out.append(bad("TABLE-5", fb.qualname, key, ctx.where(fb), "last_offset is never set: the last block ends at offset 2"))
        return out
    loops = [n for n in A.walk_no_nested(fb.node) if isinstance(n, ast.For)]
    for s in sts:
        where = ctx.where(fb, s)
        if not (isinstance(s.value, ast.Attribute) and s.value.attr == "offset" and loops and isinstance(loops[0].target, ast.Name) and A.unparse(s.value.value) == loops[0].target.id):
            out.append(bad("TABLE-5", fb.qualname, key, where, f"last_offset is set to {A.unparse(s.value)[:40]}, not to the offset of the instruction being scanned"))
            continue
        lp = loops[0]
        inside = any(a is lp for a in A.ancestors(s))
        if not inside:
            n = cfg.node_of(s)
            hdr = cfg.node_of(lp)
            if cfg.dominates(hdr, n) and cfg.exit not in cfg.reachable(hdr, avoid=lambda z: z is n):
                out.append(ok("TABLE-5", fb.qualname, key, where, "set once after the scan to the last instruction's offset"))
            else:
                out.append(bad("TABLE-5", fb.qualname, key, where, "last_offset is not set on every path after the scan"))
        else:
            # inside the loop: must execute unconditionally on every iteration
            conds = [a for a in A.ancestors(s) if isinstance(a, (ast.If, ast.Try)) and any(x is lp for x in A.ancestors(a))]
            if conds:
                out.append(bad("TABLE-5", fb.qualname, key, where, f"last_offset is updated only under '{A.unparse(conds[0].test)[:50] if isinstance(conds[0], ast.If) else 'try'}': when the code does not end with such an instruction, the trailing instructions belong to no block (or KeyError)"))
            else:
                out.append(ok("TABLE-5", fb.qualname, key, where, "updated on every iteration"))
    return out


def _names_var(bb) -> str:
    nm = [A.unparse(s_.targets[0]) for s_ in A.walk_no_nested(bb.node) if isinstance(s_, ast.Assign) and isinstance(s_.value, ast.DictComp)]
    return nm[0] if nm else "names"


@rule("TABLE-6", 2, "a block's successors are the recorded targets of its terminator when one is recorded, else the implicit fall-through to the next block - nothing else")
def table6(ctx) -> List[Ob]:
    out: List[Ob] = []
    fi = ctx.prog.cls("FlowInfo")
    bb = fi.find_method("build_basicblocks")
    if bb is None:
        raise AnalysisError("FlowInfo.build_basicblocks not found")
    from .common import expanded_function

    bbx = expanded_function(bb)  # locals that merely name a selector (self.jump_insts[term]) are read through
    ctors = [c for c in A.walk_no_nested(bbx) if isinstance(c, ast.Call) and (A.dotted(c.func) or "").split(".")[-1] == "PythonBytecodeBlock"]
    if not ctors:
        raise AnalysisError("no PythonBytecodeBlock(...) in build_basicblocks")
    jt = kw(ctors[0], "_jump_targets")
    from .ctrl import _guard_conditions

    if jt is None:
        out.append(unresolved("TABLE-6", bb.qualname, "successor expression", ctx.where(bb, ctors[0]), "no _jump_targets argument"))
        return out
    if not isinstance(jt, ast.Name):
        # the successor expression written straight into the constructor call: one pseudo assignment
        pseudo = ast.Assign(targets=[ast.Name(id="<successors>", ctx=ast.Store())], value=jt, lineno=getattr(jt, "lineno", 0))
        ast.copy_location(pseudo, ctors[0])
        for a_ in A.ancestors(ctors[0]):
            if isinstance(a_, ast.stmt):
                A_parent = a_
                break
        pseudo._sa_parent = getattr(A_parent, "_sa_parent", None) if False else None
        assigns = [A_parent]
        jt_expr = jt
    else:
        jt_expr = None
        assigns = [s for s in A.walk_no_nested(bbx) if isinstance(s, ast.Assign) and any(isinstance(t, ast.Name) and t.id == jt.id for t in s.targets)]
    seen = set()
    # `t = A if c else B` is the two-armed statement `if c: t = A else: t = B`
    cases = []
    for s in assigns:
        sval = jt_expr if jt_expr is not None else s.value
        if isinstance(sval, ast.IfExp):
            ct = A.unparse(sval.test)
            cases.append((s, sval.body, [(ct, True)]))
            cases.append((s, sval.orelse, [(ct, False)]))
        else:
            cases.append((s, sval, []))
    for s, val_, extra in cases:
        txt = A.unparse(val_)
        guards = extra + _guard_conditions(bbx, s)
        key = "successors := " + A.alpha_key(val_)
        where = ctx.where(bb, s)
        member = [(t, pol) for t, pol in guards if "jump_insts" in t]
        if "jump_insts[" in txt and member and ((" not in " in member[0][0]) != member[0][1]) and len(guards) == 1:
            seen.add("recorded")
            out.append(ok("TABLE-6", bb.qualname, key, where, "recorded targets of the terminator, in order"))
        elif txt.startswith(f"({_names_var(bb)}[") and member and ((" not in " in member[0][0]) == member[0][1]) and len(guards) == 1:
            seen.add("implicit")
            out.append(ok("TABLE-6", bb.qualname, key, where, "implicit fall-through to the next block when no jump is recorded"))
        else:
            out.append(bad("TABLE-6", bb.qualname, key, where, f"successors are set to {txt[:40]} under {[g[0] for g in guards]}: a block whose terminator is a recorded jump / return gets other successors than the recorded ones"))
    for need in ("recorded", "implicit"):
        if need not in seen:
            out.append(bad("TABLE-6", bb.qualname, f"{need} case", ctx.where(bb), f"the {need} case of the successor computation is missing"))
    return out


@rule("TABLE-7", 3, "census of the block boundaries: an offset becomes a block start only as the first instruction / a flagged jump target (the instruction's own offset) or as a recorded jump target (inside _add_jump_inst); every other writer can create a boundary that is no instruction start (an empty block, a block entered in its middle)")
def table7(ctx) -> List[Ob]:
    out: List[Ob] = []
    prog = ctx.prog
    fi = prog.cls("FlowInfo")
    from .ctrl import _guard_conditions
    from .common import expanded_function

    n_sites = 0
    for fn in prog.functions:
        if fn.module.name.endswith("tests") or ".tests." in fn.module.name:
            continue
        xf = expanded_function(fn)
        for n in A.walk_no_nested(xf):
            site = what = None
            if isinstance(n, ast.Call) and isinstance(n.func, ast.Attribute) and n.func.attr in ("add", "update", "discard", "remove", "clear", "difference_update", "intersection_update", "symmetric_difference_update", "pop") and isinstance(n.func.value, ast.Attribute) and n.func.value.attr == "block_offsets":
                site, what = n, n.func.attr
            elif isinstance(n, (ast.Assign, ast.AugAssign)):
                tgs = n.targets if isinstance(n, ast.Assign) else [n.target]
                if any(isinstance(t, ast.Attribute) and t.attr == "block_offsets" for t in tgs):
                    site, what = n, "rebinding"
            if site is None:
                continue
            n_sites += 1
            key = "block start: " + A.alpha_key(site)
            where = ctx.where(fn, site)
            if what == "add" and fn.cls is fi and fn.name == "_add_jump_inst":
                lp = next((a for a in A.ancestors(site) if isinstance(a, ast.For)), None)
                tparams = [p.arg for p in fn.params if p.arg != "self"]
                if lp is not None and len(tparams) > 1 and A.unparse(lp.iter) == tparams[1] and site.args and A.unparse(site.args[0]) == A.unparse(lp.target):
                    out.append(ok("TABLE-7", fn.qualname, key, where, "each recorded jump target starts a block"))
                    continue
            if what == "add" and fn.cls is fi and fn.name == "from_bytecode" and site.args:
                lp = next((a for a in A.ancestors(site) if isinstance(a, ast.For)), None)
                inst = A.unparse(lp.target) if lp is not None else None
                guards = _guard_conditions(xf, site)
                arg = A.unparse(site.args[0])
                if inst and arg == f"{inst}.offset" and len(guards) == 1 and guards[0][1] and set(x.strip() for x in guards[0][0].split(" or ")) == {f"{inst}.offset == 0", f"{inst}.is_jump_target"}:
                    out.append(ok("TABLE-7", fn.qualname, key, where, "the instruction's own offset, when it is the first instruction or a flagged jump target"))
                    continue
            out.append(bad("TABLE-7", fn.qualname, key, where, f"{A.unparse(site)[:70]} changes the set of block boundaries outside the two audited forms: a boundary that is not the offset of an instruction (past the end of the code, inside an inline cache) gives an empty block or a block entered in its middle"))
    if n_sites < 2:
        raise AnalysisError("TABLE-7: fewer than two writers of block_offsets found")
    # the jump table answers `offset in jump_insts` by absence: it must be a plain dict that only _add_jump_inst writes
    fld = next((f for f in fi.fields() if f.name == "jump_insts"), None)
    key = "jump table is a plain dict"
    if fld is None:
        raise AnalysisError("FlowInfo.jump_insts not found")
    d = fld.default
    fac = None
    if isinstance(d, ast.Call) and (A.dotted(d.func) or "").split(".")[-1] == "field":
        fac = kw(d, "default_factory")
    plain = isinstance(fac, ast.Name) and fac.id == "dict" or (isinstance(fac, ast.Lambda) and isinstance(fac.body, ast.Dict) and not fac.body.keys) or (isinstance(fac, ast.Lambda) and isinstance(fac.body, ast.Call) and A.unparse(fac.body) == "dict()")
    wherec = f"{fi.module.relpath}:{A.lineno(d) if d is not None else A.lineno(fi.node)}"
    if plain:
        out.append(ok("TABLE-7", "FlowInfo", key, wherec, "default_factory=dict: a lookup never inserts, `offset in jump_insts` means 'a jump was recorded'"))
    else:
        out.append(bad("TABLE-7", "FlowInfo", key, wherec, f"jump_insts is created by {A.unparse(fac)[:50] if fac is not None else 'no factory'}: a container that inserts on lookup (defaultdict) makes `term_offset in jump_insts` true for every offset that was merely read, and fall-through blocks lose their successor"))
    for fn in prog.functions:
        for n in A.walk_no_nested(fn.node):
            wr = None
            if isinstance(n, (ast.Assign, ast.AugAssign, ast.Delete)):
                tgs = n.targets if isinstance(n, (ast.Assign, ast.Delete)) else [n.target]
                for t in tgs:
                    if isinstance(t, ast.Subscript) and isinstance(t.value, ast.Attribute) and t.value.attr == "jump_insts":
                        wr = n
                    elif isinstance(t, ast.Attribute) and t.attr == "jump_insts":
                        wr = n
            elif isinstance(n, ast.Call) and isinstance(n.func, ast.Attribute) and n.func.attr in ("setdefault", "update", "pop", "popitem", "clear") and isinstance(n.func.value, ast.Attribute) and n.func.value.attr == "jump_insts":
                wr = n
            if wr is None:
                continue
            key = "jump table writer: " + A.alpha_key(wr)
            if fn.cls is fi and fn.name == "_add_jump_inst" and isinstance(wr, ast.Assign):
                out.append(ok("TABLE-7", fn.qualname, key, ctx.where(fn, wr), "the one writer of the jump table", nontrivial=False))
            else:
                out.append(bad("TABLE-7", fn.qualname, key, ctx.where(fn, wr), f"{A.unparse(wr)[:60]} writes the jump table outside _add_jump_inst: the targets recorded there are not registered as block starts"))
    return out


@rule("TABLE-8", 2, "the instruction stream that is analysed is the canonical listing of the code object: no disassembly in the library asks for the adaptive (specialised, process-history dependent) form or for cache entries, and the listing handed to the flow analysis is the one stored with the graph")
def table8(ctx) -> List[Ob]:
    out: List[Ob] = []
    prog = ctx.prog
    n = 0
    for fn in prog.functions:
        for c in A.walk_no_nested(fn.node):
            if not (isinstance(c, ast.Call) and (A.dotted(c.func) or "") in ("dis.Bytecode", "dis.get_instructions", "Bytecode", "get_instructions", "dis.dis", "dis.disassemble")):
                continue
            n += 1
            key = "disassembly: " + A.alpha_key(c)
            where = ctx.where(fn, c)
            flags = [k for k in c.keywords if k.arg in ("adaptive", "show_caches") and not (isinstance(k.value, ast.Constant) and k.value.value is False)]
            star = [k for k in c.keywords if k.arg is None]
            if flags:
                out.append(bad("TABLE-8", fn.qualname, key, where, f"{A.unparse(c)[:70]} asks for {', '.join(k.arg for k in flags)}: the adaptive listing shows opcodes specialised by earlier calls of the function (FOR_ITER_RANGE ..) that the opcode tables do not know, cache entries are not instructions - the graph depends on the history of the process"))
            elif star:
                out.append(unresolved("TABLE-8", fn.qualname, key, where, "keyword arguments of the disassembly are not visible (**kwargs)"))
            else:
                out.append(ok("TABLE-8", fn.qualname, key, where, "canonical listing (no adaptive / cache flags)"))
    if n < 1:
        raise AnalysisError("TABLE-8: no disassembly call found in the library")
    bf = prog.cls("ByteFlow").find_method("from_bytecode")
    if bf is None:
        raise AnalysisError("ByteFlow.from_bytecode not found")
    from .common import see_through

    key = "analysed listing = stored listing"
    fcalls = [c for c in A.walk_no_nested(bf.node) if isinstance(c, ast.Call) and (A.dotted(c.func) or "").endswith("FlowInfo.from_bytecode") and c.args]
    ctors = [c for c in A.walk_no_nested(bf.node) if isinstance(c, ast.Call) and (A.dotted(c.func) or "").split(".")[-1] in ("ByteFlow", "cls")]
    stored = [kw(c, "bc", 0) for c in ctors]
    stored = [s for s in stored if s is not None]
    if not fcalls or not stored:
        out.append(unresolved("TABLE-8", bf.qualname, key, ctx.where(bf), "cannot see the listing handed to FlowInfo.from_bytecode and the one stored in the ByteFlow"))
    else:
        a = see_through(ctx, bf, fcalls[0].args[0]) or fcalls[0].args[0]
        b = see_through(ctx, bf, stored[0]) or stored[0]
        if A.unparse(fcalls[0].args[0]) == A.unparse(stored[0]) or a is b:
            out.append(ok("TABLE-8", bf.qualname, key, ctx.where(bf, fcalls[0]), f"both are {A.unparse(stored[0])}"))
        else:
            out.append(bad("TABLE-8", bf.qualname, key, ctx.where(bf, fcalls[0]), f"the flow analysis reads {A.unparse(fcalls[0].args[0])[:40]} but the ByteFlow stores {A.unparse(stored[0])[:40]}: block offsets and the stored instructions can disagree"))
    # the function that is disassembled is the one that was handed in
    key = "the code that is disassembled is the caller's function"
    params = [p.arg for p in bf.params if p.arg not in ("self", "cls")]
    dcalls = [c for c in A.walk_no_nested(bf.node) if isinstance(c, ast.Call) and (A.dotted(c.func) or "").split(".")[-1] in ("Bytecode", "get_instructions") and c.args]
    if not params or not dcalls:
        out.append(unresolved("TABLE-8", bf.qualname, key, ctx.where(bf), "cannot see which object from_bytecode disassembles"))
    else:
        arg = dcalls[0].args[0]
        rebinds = [n_ for n_ in A.walk_no_nested(bf.node) if isinstance(n_, ast.Name) and n_.id == params[0] and isinstance(n_.ctx, (ast.Store, ast.Del))]
        if isinstance(arg, ast.Name) and arg.id == params[0] and not rebinds:
            out.append(ok("TABLE-8", bf.qualname, key, ctx.where(bf, dcalls[0]), f"{A.unparse(dcalls[0])[:50]} on the parameter as given"))
        elif isinstance(arg, ast.Name) and arg.id == params[0]:
            out.append(bad("TABLE-8", bf.qualname, key, ctx.where(bf, rebinds[0]), f"'{A.unparse(A.enclosing_stmt(rebinds[0]) or rebinds[0])[:60]}' replaces the function before it is disassembled: for some callables (a decorated function with __wrapped__, a partial, a bound method) the graph is that of another code object than the one the caller asked about"))
        else:
            src = see_through(ctx, bf, arg) or arg
            names = {x.id for x in ast.walk(src) if isinstance(x, ast.Name)}
            if params[0] in names and isinstance(src, (ast.Name, ast.Attribute)) and (not isinstance(src, ast.Attribute) or src.attr == "__code__"):
                out.append(ok("TABLE-8", bf.qualname, key, ctx.where(bf, dcalls[0]), f"disassembles {A.unparse(src)[:40]}"))
            else:
                out.append(bad("TABLE-8", bf.qualname, key, ctx.where(bf, dcalls[0]), f"the listing is taken from {A.unparse(src)[:50]}, not from the function that was handed in: the graph can describe another code object"))
    return out
