"""Positive / negative controls for the expected-zero rules: tiny packages under
/verif/controls on which the rule must fire / must stay silent.  Run inside every
check (checker sanity: a failure is ANALYSIS-ERROR, never a VIOLATION)."""
from __future__ import annotations

import os
from typing import List

from . import report as R

CONTROLLED = ("ORD-2", "ORD-4", "ORD-5", "STORE-1")


def run(rule_ids: List[str]) -> List[str]:
    from .context import Ctx
    from .rules import RULES
    from . import cfg as cfgmod

    todo = [r for r in rule_ids if r in CONTROLLED]
    if not todo:
        return []
    failures: List[str] = []
    for which, want_fire in (("pos", True), ("neg", False)):
        repo = os.path.join(R.VERIF, "controls", which)
        try:
            ctx = Ctx(repo=repo)
        except Exception as e:  # pragma: no cover
            failures.append(f"control package {which} unreadable: {e}")
            continue
        for rid in todo:
            try:
                obs = RULES[rid][0](ctx)
            except Exception as e:
                failures.append(f"{rid} crashed on the {which} control: {type(e).__name__}: {e}")
                continue
            fired = [o for o in obs if o.state == "violation"]
            if want_fire and not fired:
                failures.append(f"{rid} did not fire on the positive control")
            if not want_fire and fired:
                failures.append(f"{rid} fired on the negative control: {fired[0].detail[:80]}")
    return failures
