"""Positive / negative controls (checker sanity).  Filled in per rule."""
from typing import List


def run(rule_ids: List[str]) -> List[str]:
    return []
