"""Obligations, audited exceptions, known findings, evidence and exit codes."""
from __future__ import annotations

import json
import os
import time
from dataclasses import dataclass, field, asdict
from typing import Dict, List, Optional

VERIF = os.path.dirname(os.path.dirname(os.path.abspath(__file__)))


@dataclass
class Ob:
    rule: str  # e.g. "STORE-6"
    func: str  # enclosing function qualname ('<module>' for tables)
    key: str  # alpha-normalised site text + abstract fact; never a line number
    where: str  # file:line (diagnostic only)
    state: str  # ok | violation | unresolved  (audited / known assigned by triage)
    detail: str = ""
    derivation: List[str] = field(default_factory=list)
    nontrivial: bool = True
    reason: str = ""  # audit / known reason once triaged

    def ident(self) -> str:
        return f"{self.rule}|{self.func}|{self.key}"


def ok(rule, func, key, where, detail="", derivation=None, nontrivial=True) -> Ob:
    return Ob(rule, func, key, where, "ok", detail, derivation or [], nontrivial)


def bad(rule, func, key, where, detail="", derivation=None) -> Ob:
    return Ob(rule, func, key, where, "violation", detail, derivation or [])


def unresolved(rule, func, key, where, detail="", derivation=None) -> Ob:
    return Ob(rule, func, key, where, "unresolved", detail, derivation or [])


@dataclass
class AuditEntry:
    rule: str
    func: str
    key: str
    reason: str
    props: Optional[List[str]] = None  # restrict to these properties (None = any)
    count: int = 1  # how many alpha-equivalent sites in that function it covers
    used: int = 0


def load_audit(path: Optional[str] = None) -> List[AuditEntry]:
    path = path or os.path.join(VERIF, "audit", "exceptions.json")
    if not os.path.exists(path):
        return []
    data = json.load(open(path))
    return [AuditEntry(e["rule"], e["func"], e["key"], e["reason"], e.get("properties"), int(e.get("count", 1))) for e in data["exceptions"]]


@dataclass
class KnownEntry:
    props: List[str]
    rule: str
    func: str
    key: str
    what: str
    used: int = 0


def load_known(path: Optional[str] = None):
    """known_findings.txt:
    known: property=<id>[,<id>] rule=<rule> func=<qualname> key=<key> :: <what fails>
    fixed: property=<id> <commit> <what failed>      (suppresses nothing)"""
    path = path or os.path.join(VERIF, "known_findings.txt")
    known: List[KnownEntry] = []
    fixed: List[str] = []
    if not os.path.exists(path):
        return known, fixed
    for line in open(path):
        line = line.rstrip("\n")
        if line.startswith("fixed:"):
            fixed.append(line)
        elif line.startswith("known:"):
            head, _, what = line[len("known:"):].partition(" :: witness=")
            parts = {}
            pre, _, key = head.partition(" key=")
            for tok in pre.split():
                if "=" in tok:
                    k, v = tok.split("=", 1)
                    parts[k] = v
            known.append(KnownEntry(parts.get("property", "").split(","), parts.get("rule", ""), parts.get("func", ""), key.strip(), "witness=" + what.strip()))
    return known, fixed


def triage(obs: List[Ob], prop: str, audit: List[AuditEntry], known: List[KnownEntry]) -> None:
    """violation -> known (listed for this property) or audited (one site each);
    every entry covers at most `count` alpha-equivalent sites, so an additional
    site with the same text is still reported."""
    for o in obs:
        if o.state != "violation":
            continue
        hit = False
        for k in known:
            if k.rule == o.rule and k.func == o.func and k.key == o.key and (not prop or prop in k.props) and k.used < 1:
                o.state = "known"
                o.reason = k.what
                k.used += 1
                hit = True
                break
        if hit:
            continue
        for a in audit:
            if a.rule == o.rule and a.func == o.func and a.key == o.key and (a.props is None or not prop or prop in a.props) and a.used < a.count:
                o.state = "audited"
                o.reason = a.reason
                a.used += 1
                break
    # second pass - code that was moved into another function (helper extracted, closure hoisted to
    # module level, helper inlined): an audited / known site whose entry was not consumed by its own
    # function and whose alpha-normalised key (site text and guard) is found unchanged elsewhere keeps
    # its entry.  The entry still covers `count` sites in total, so an additional copy is reported.
    for o in obs:
        if o.state != "violation":
            continue
        for k in known:
            if k.rule == o.rule and k.func != o.func and k.key == o.key and (not prop or prop in k.props) and k.used < 1:
                o.state = "known"
                o.reason = k.what + f" (site moved from {k.func})"
                k.used += 1
                break
        if o.state != "violation":
            continue
        for a in audit:
            if a.rule == o.rule and a.func != o.func and a.key == o.key and (a.props is None or not prop or prop in a.props) and a.used < a.count:
                o.state = "audited"
                o.reason = a.reason + f" (site moved from {a.func})"
                a.used += 1
                break


def summarize(obs: List[Ob]) -> Dict[str, int]:
    out: Dict[str, int] = {}
    for o in obs:
        out[o.state] = out.get(o.state, 0) + 1
    return out
