"""Obligations, audited exceptions, known findings, evidence and exit codes."""
from __future__ import annotations

import json
import os
import time
from dataclasses import dataclass, field, asdict
from typing import Dict, List, Optional

VERIF = os.path.dirname(os.path.dirname(os.path.abspath(__file__)))


@dataclass
class Ob:
    rule: str  # e.g. "STORE-6"
    func: str  # enclosing function qualname ('<module>' for tables)
    key: str  # alpha-normalised site text + abstract fact; never a line number
    where: str  # file:line (diagnostic only)
    state: str  # ok | violation | unresolved  (audited / known assigned by triage)
    detail: str = ""
    derivation: List[str] = field(default_factory=list)
    nontrivial: bool = True
    reason: str = ""  # audit / known reason once triaged

    def ident(self) -> str:
        return f"{self.rule}|{self.func}|{self.key}"


def ok(rule, func, key, where, detail="", derivation=None, nontrivial=True) -> Ob:
    return Ob(rule, func, key, where, "ok", detail, derivation or [], nontrivial)


def bad(rule, func, key, where, detail="", derivation=None) -> Ob:
    return Ob(rule, func, key, where, "violation", detail, derivation or [])


def unresolved(rule, func, key, where, detail="", derivation=None) -> Ob:
    return Ob(rule, func, key, where, "unresolved", detail, derivation or [])


@dataclass
class AuditEntry:
    rule: str
    func: str
    key: str
    reason: str
    used: int = 0


def load_audit(path: Optional[str] = None) -> List[AuditEntry]:
    path = path or os.path.join(VERIF, "audit", "exceptions.json")
    if not os.path.exists(path):
        return []
    data = json.load(open(path))
    return [AuditEntry(e["rule"], e["func"], e["key"], e["reason"]) for e in data["exceptions"]]


@dataclass
class KnownEntry:
    prop: str
    rule: str
    func: str
    key: str
    what: str
    used: int = 0


def load_known(path: Optional[str] = None):
    """known_findings.txt:
    known: property=<id> rule=<rule> func=<qualname> key=<key> :: <what fails>
    fixed: property=<id> <commit> <what failed>      (suppresses nothing)"""
    path = path or os.path.join(VERIF, "known_findings.txt")
    known: List[KnownEntry] = []
    fixed: List[str] = []
    if not os.path.exists(path):
        return known, fixed
    for line in open(path):
        line = line.rstrip("\n")
        if line.startswith("fixed:"):
            fixed.append(line)
        elif line.startswith("known:"):
            head, _, what = line[len("known:"):].partition(" :: ")
            parts = {}
            # key= is last and may contain spaces
            pre, _, key = head.partition(" key=")
            for tok in pre.split():
                if "=" in tok:
                    k, v = tok.split("=", 1)
                    parts[k] = v
            known.append(KnownEntry(parts.get("property", ""), parts.get("rule", ""), parts.get("func", ""), key.strip(), what.strip()))
    return known, fixed


def triage(obs: List[Ob], prop: str, audit: List[AuditEntry], known: List[KnownEntry]) -> None:
    for o in obs:
        if o.state != "violation":
            continue
        for a in audit:
            if a.rule == o.rule and a.func == o.func and a.key == o.key:
                o.state = "audited"
                o.reason = a.reason
                a.used += 1
                break
        else:
            for k in known:
                if k.rule == o.rule and k.func == o.func and k.key == o.key and (k.prop == prop or not k.prop):
                    o.state = "known"
                    o.reason = k.what
                    k.used += 1
                    break


def summarize(obs: List[Ob]) -> Dict[str, int]:
    out: Dict[str, int] = {}
    for o in obs:
        out[o.state] = out.get(o.state, 0) + 1
    return out
