"""Static analysis engine for the numba-scfg properties (stdlib only).

The engine parses /repo/numba_scfg (tests excluded) on every run and never
imports or executes it."""
